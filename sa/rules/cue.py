"""Q1..Q4 cue sheets, C1 detection cascade, C2 cue branch  (C03, C09, C17)."""
import ast
import re

from ..core.loader import AnalysisError, dotted, norm, own_nodes, where, full
from ..core import rx
from ..core.symexec import run_paths, calls_on
from ..core.terms import Term
from .util import evaluator, find_try_handler, raises_in, handler_names, regex_value
from .streams import _walk
from .sem import canon_expr, return_canons, local_function, emptiness

CS = "smpl_extract/cuesheet.py"
ACT = "smpl_extract/actions.py"
A = Term.atom


def _regex(ctx, name):
    node = ctx.prog.assigned(CS, name, "Q1")
    pat, flags = regex_value(ctx, node, ctx.prog.module(CS), "Q1", f"{CS}:{name}")
    return node, pat, flags


def rule_Q1(ctx):
    import re._constants as sc
    specs = {"_TRACK_LINE_REGEX": ("TRACK", 2), "_TITLE_LINE_REGEX": ("TITLE", 1), "_INDEX_LINE_REGEX": ("INDEX", 4), "_FILE_LINE_REGEX": ("FILE", 1)}
    for name, (kw, ngroups) in specs.items():
        node, pat, flags = _regex(ctx, name)
        ci = bool(flags & re.I)
        ctx.ob("Q1", node, f"{name} is case-insensitive", ci, "" if ci else "re.I missing: lower-case keywords are not recognised", inst=f"{name}:re.I", file=CS, qualname="<module>")
        t = rx.parse(pat, flags)
        ok = len(t) > 0 and t[0][0] is sc.MAX_REPEAT and t[0][1][0] == 0 and rx.starts_with_space_star(t)
        ctx.ob("Q1", node, f"{name} tolerates leading blanks", ok, pat, inst=f"{name}:lead", file=CS, qualname="<module>")
        lit = ""
        for op, av in t[1:]:
            if op is sc.LITERAL:
                lit += chr(av)
            else:
                break
        ctx.ob("Q1", node, f"{name} matches the keyword {kw}", lit.upper() == kw, f"literal `{lit}`", inst=f"{name}:keyword", file=CS, qualname="<module>")
        # keyword is followed by mandatory whitespace
        rest = t[1 + len(lit):]
        ok = len(rest) > 0 and rest[0][0] is sc.MAX_REPEAT and rest[0][1][0] >= 1 and rest[0][1][2][0][0] is sc.IN and {rx.SP, rx.WS} <= rx.class_items(rest[0][1][2][0][1])[1]
        ctx.ob("Q1", node, f"{name}: blanks separate the keyword from its arguments", ok, pat, inst=f"{name}:sep", file=CS, qualname="<module>")
        gs = rx.groups(t)
        ctx.ob("Q1", node, f"{name} captures {ngroups} group(s)", len(gs) == ngroups, f"{len(gs)} groups", inst=f"{name}:groups", file=CS, qualname="<module>")
        if kw in ("TITLE", "FILE") and gs:
            idx = gs[0][2]
            ok = idx > 0 and t[idx - 1] == (sc.LITERAL, ord('"')) and idx + 1 < len(t) and t[idx + 1] == (sc.LITERAL, ord('"')) and rx.is_lazy_any_star(gs[0][1])
            ctx.ob("Q1", node, f"{name} captures the text between double quotes", ok, pat, inst=f"{name}:quoted", file=CS, qualname="<module>")
        if kw == "INDEX" and len(gs) == 4:
            seps = [t[gs[i][2] + 1] for i in (1, 2)]
            ok = all(s == (sc.LITERAL, ord(":")) for s in seps) and all(len(g[1]) == 1 and g[1][0][0] is sc.MAX_REPEAT and g[1][0][1][0] == 1 for g in gs)
            # a digit run of any length: a bounded run ({1,2}) makes a line with a longer number an unrecognised line
            ok = ok and all(g[1][0][1][1] == sc.MAXREPEAT for g in gs)
            ctx.ob("Q1", node, "INDEX captures number and MM:SS:FF as digit runs", ok, pat, inst="INDEX:fields", file=CS, qualname="<module>")
        if kw == "TRACK" and len(gs) == 2:
            ok = gs[0][1][0][0] is sc.MAX_REPEAT and gs[1][1][0][0] is sc.MAX_REPEAT and gs[1][1][0][1][0] == 1
            # the number and the mode word are runs of any length (TRACK 100 is a track line, not an unrecognised line)
            ok = ok and len(gs[0][1]) == 1 and gs[0][1][0][1][0] == 1 and gs[0][1][0][1][1] == sc.MAXREPEAT and gs[1][1][0][1][1] == sc.MAXREPEAT
            neg, fl, touched = rx.class_items(gs[1][1][0][1][2][0][1]) if ok else (True, set(), set())
            ok = ok and not neg and rx.W in touched and rx.SL in touched
            ctx.ob("Q1", node, "TRACK captures the number and a mode word (letters, digits, '/')", ok, pat, inst="TRACK:fields", file=CS, qualname="<module>")
        if kw == "FILE":
            tail = "".join(chr(av) for op, av in t if op is sc.LITERAL)
            ctx.ob("Q1", node, "FILE line ends with the BINARY keyword", tail.upper().endswith("BINARY"), tail, inst="FILE:binary", file=CS, qualname="<module>")


def _inside_node(n, anc):
    x = getattr(n, "_parent", None)
    while x is not None:
        if x is anc:
            return True
        x = getattr(x, "_parent", None)
    return False


def rule_Q2(ctx):
    ge = ctx.fn(CS, "get_nonempty_entry", "Q2")
    prs = [p for p in run_paths(ctx, ge, rule="Q2") if p.end == "return"]
    L = ge.args.args[0].arg
    stripped = f"({L}.pop(0)).strip()"
    from .sem import emptiness_by as _emq
    gcfg = ctx.cfg(ge, "Q2")
    gl = [w for w in own_nodes(ge) if isinstance(w, ast.While)]
    rets = [r for r in own_nodes(ge) if isinstance(r, ast.Return)]
    tv = None
    if len(rets) == 1 and isinstance(rets[0].value, ast.Tuple) and len(rets[0].value.elts) == 2 and isinstance(rets[0].value.elts[0], ast.Name):
        tv = rets[0].value.elts[0].id
    ok_a = ok_b = len(gl) == 1 and tv is not None
    det_a = det_b = "" if ok_a else "line-skipping loop or returned text variable not found"
    n_body = 0
    if ok_a:
        glp = gcfg.loop_of(gl[0])
        guard_says_empty = any(_emq(a_, lambda x: isinstance(x, ast.Name) and x.id == tv) is True for a_ in
                               (gl[0].test.values if isinstance(gl[0].test, ast.BoolOp) and isinstance(gl[0].test.op, ast.And) else [gl[0].test]))
        for kind, path, edge in gcfg.iteration_paths(glp):
            if len(path) == 1:
                continue  # leaving through the guard
            pr = _walk(ctx, ge, gcfg, path)
            n_body += 1
            val = pr.env.get(tv)
            if val is None or val.key().replace("~", "") != stripped:
                ok_a, det_a = False, f"after an iteration the text is `{val.key() if val is not None else None}`, not the stripped popped line"
                continue
            # what the path established about the stripped text
            est = None
            for s_ in pr.steps:
                if s_.kind == "test" and s_.label in ("true", "false") and s_.ast is not gl[0] and hasattr(s_.ast, "test"):
                    ev_ = evaluator(ctx, ge, s_.env)
                    e_ = _emq(s_.ast.test, lambda x: ev_.ev(x).key().replace("~", "") == stripped)
                    if e_ is not None:
                        est = (s_.label == "true") == e_
            if kind == "back":
                if not (est is True or guard_says_empty):
                    ok_b, det_b = False, "another line is fetched although the stripped text was not found empty"
            else:
                if est is not False:
                    ok_b, det_b = False, f"the loop is left with a line whose fully stripped text was not found non-empty (whitespace-only lines come back as '' and callers treat '' as end of input)"
        # leaving through the guard with lines left is only possible when the guard itself asks for an empty text
        ok_a = ok_a and n_body >= 1
    ctx.ob("Q2", ge, "get_nonempty_entry returns the stripped text of a popped line", ok_a, det_a, inst="strip-test")
    ctx.ob("Q2", ge, "a line is returned as non-empty only if its fully stripped text is non-empty (blank lines of spaces/tabs are skipped)", ok_b, det_b, inst="strip-test:paths")
    ok = all(p.ret is not None and p.ret.key().startswith("tuple(") and p.ret.key().endswith(f",{L})") for p in prs)
    ctx.ob("Q2", ge, "the remaining lines are returned with the text", ok, "", inst="returns-lines")
    # track body loop
    tp = ctx.fn(CS, "CueSheetTrackAdapter.parse", "Q2")
    cfg = ctx.cfg(tp, "Q2")
    wl = [w for w in own_nodes(tp) if isinstance(w, ast.While)]
    if len(wl) != 1:
        raise AnalysisError("Q2", where(tp), "track body loop not found")
    loop = wl[0]
    lp = cfg.loop_of(loop)
    # per iteration path: the line is pushed back and the loop left exactly when the TRACK regex matched it
    def _track_truth(pr):
        out = None
        for c, t, _ in pr.conds:
            neg, x = False, c
            while x.startswith("not(") and x.endswith(")"):
                x, neg = x[4:-1], not neg
            for pre, pol in (("truthy(_TRACK_LINE_REGEX.match(", True), ("Is(_TRACK_LINE_REGEX.match(", False), ("IsNot(_TRACK_LINE_REGEX.match(", True)):
                if x.startswith(pre):
                    out = (t != neg) == pol
        return out

    def _pushback(st):
        if isinstance(st, ast.Assign) and len(st.targets) == 1 and isinstance(st.targets[0], ast.Name) and isinstance(st.value, ast.BinOp) and isinstance(st.value.op, ast.Add) \
                and isinstance(st.value.left, ast.List) and len(st.value.left.elts) == 1 and isinstance(st.value.left.elts[0], ast.Name) \
                and isinstance(st.value.right, ast.Name) and st.value.right.id == st.targets[0].id:
            return st.targets[0].id, st.value.left.elts[0].id
        if isinstance(st, ast.Expr) and isinstance(st.value, ast.Call) and isinstance(st.value.func, ast.Attribute) and st.value.func.attr == "insert" \
                and len(st.value.args) == 2 and norm(st.value.args[0]) == "0" and isinstance(st.value.args[1], ast.Name) and isinstance(st.value.func.value, ast.Name):
            return st.value.func.value.id, st.value.args[1].id
        return None

    ok, det, n_next, holder = True, "", 0, None
    for kind, path, edge in cfg.iteration_paths(lp):
        pr = _walk(ctx, tp, cfg, path)
        tt = _track_truth(pr)
        pbs = [s_.ast for s_ in pr.steps if s_.kind == "stmt" and s_.ast is not None and _pushback(s_.ast)]
        if tt is True:
            n_next += 1
            if kind != "exit" or len(pbs) != 1:
                ok, det = False, f"a line the TRACK regex matches is {'kept in the previous track' if kind != 'exit' else 'consumed instead of pushed back'}"
            else:
                holder = holder or pbs[0]
                # what is pushed back is the line just read
                lines_v, text_v = _pushback(pbs[0])
                got = pr.env.get(text_v)
                if got is None or not got.key().replace("~", "").startswith("sub(get_nonempty_entry("):
                    ok, det = False, "the text pushed back is not the line just read"
        elif pbs:
            ok, det = False, "a line is pushed back and ends the track although the TRACK regex did not match it (such a line is parsed as a track header next)"
    ok = ok and n_next >= 1
    ctx.ob("Q2", holder or loop, "a line is the start of the next track exactly when the TRACK regex matches it; it is then pushed back and the loop ends", ok,
           det or ("" if n_next else "no path tests the TRACK regex"), inst="next-track")
    first = [a for a in own_nodes(tp) if isinstance(a, ast.Call) and norm(a.func) == "_TRACK_LINE_REGEX.match" and not any(n is a for n in ast.walk(loop))]
    ctx.ob("Q2", tp, "the track header itself is recognised by the same TRACK regex", len(first) == 1, "", inst="first-track")
    # ---- per iteration path, on value-flow terms: which regex matched decides what happens to the line
    def match_truth(pr, regex):
        """(truth, text term key) of the test `regex.match(<text>)` on the path (last one wins), or None"""
        out = None
        for c, t, _ in pr.conds:
            neg, x = False, c
            while x.startswith("not(") and x.endswith(")"):
                x, neg = x[4:-1], not neg
            for pre, pol in ((f"truthy({regex}.match(", True), (f"Is({regex}.match(", False), (f"IsNot({regex}.match(", True)):
                if x.startswith(pre):
                    arg = x[len(pre):]
                    arg = arg[:arg.rindex("))")] if pre.startswith("truthy") else arg[:arg.rindex("),None)")]
                    out = ((t != neg) == pol, arg)
        return out

    n_back = 0
    seen = {"index": 0, "title": 0, "unknown": 0}
    ok_index = ok_title = ok_unknown = True
    det_index = det_title = det_unknown = ""
    for kind, path, edge in cfg.iteration_paths(lp):
        if kind != "back":
            continue
        pr = _walk(ctx, tp, cfg, path)
        n_back += 1
        mi, mt = match_truth(pr, "_INDEX_LINE_REGEX"), match_truth(pr, "_TITLE_LINE_REGEX")
        appends = [(c, e) for c, e, st in calls_on(pr) if isinstance(c.func, ast.Attribute) and c.func.attr == "append"]
        app = [(evaluator(ctx, tp, e).ev(c.func.value).key().replace("~", ""), evaluator(ctx, tp, e).ev(c.args[0]).key().replace("~", "") if c.args else "?") for c, e in appends]
        mi = (mi[0], mi[1].replace("~", "")) if mi is not None else None
        mt = (mt[0], mt[1].replace("~", "")) if mt is not None else None
        title_now = pr.env.get("track.title")
        title_set = any(s_.kind == "stmt" and isinstance(s_.ast, ast.Assign) and any(dotted(x) == "track.title" for t_ in s_.ast.targets for x in ([t_] if not isinstance(t_, (ast.Tuple, ast.List)) else t_.elts))
                        for s_ in pr.steps)
        if mi is not None and mi[0]:
            seen["index"] += 1
            M = f"(_INDEX_LINE_REGEX.match({mi[1]})).groups()"
            want = ("track.indices", "CueSheetIndex(" + ",".join(f"int(sub({M},{i}))" for i in range(4)) + ")")
            if app != [want] or title_set:
                ok_index, det_index = False, f"on an INDEX line the path does {app}"
        elif mt is not None and mt[0]:
            seen["title"] += 1
            M = f"(_TITLE_LINE_REGEX.match({mt[1]})).groups()"
            if app or title_now is None or title_now.key().replace("~", "") != f"sub({M},0)":
                ok_title, det_title = False, f"on a TITLE line track.title = {title_now.key() if title_now is not None else None}, appends {app}"
            if mi is None or mi[1] != mt[1]:
                ok_title, det_title = False, "the TITLE test is not made on the same line after the INDEX test failed"
        elif mi is not None and mt is not None:
            seen["unknown"] += 1
            if app != [("track.unparsed", mi[1])] or title_set:
                ok_unknown, det_unknown = False, f"an unrecognised line does {app}"
        elif app or title_set:
            # a continuing path that is none of INDEX / TITLE / unknown and still changes the track: some other line kind is given a meaning
            ok_unknown, det_unknown = False, f"a line that is neither an INDEX nor a TITLE line changes the track ({app or 'title'}): it is not `recorded and skipped`"
        others_ = {m_.group(1) for c_, t_, _n in pr.conds for m_ in re.finditer(r"(\b[A-Za-z_][A-Za-z_0-9]*)\.(?:match|search|fullmatch)\(", c_)} - {"_INDEX_LINE_REGEX", "_TITLE_LINE_REGEX", "_TRACK_LINE_REGEX", "re"}
        if others_:
            ok_unknown, det_unknown = False, f"lines inside a track are also tried against {sorted(others_)}: such a line is interpreted instead of being recorded and skipped"
    ctx.ob("Q2", loop, "an unrecognised line inside a track is recorded and skipped (the loop continues)", ok_unknown and seen["unknown"] >= 1,
           det_unknown or ("" if seen["unknown"] else "no continuing path stores the unknown line"), inst="unknown-line-continues")
    ctx.ob("Q2", loop, "INDEX and TITLE lines are recognised inside a track", seen["index"] >= 1 and seen["title"] >= 1, f"{seen}", inst="index-title")
    ctx.ob("Q2", loop, "INDEX fields: number, minutes, seconds, frames from groups 1..4 in that order", ok_index and seen["index"] >= 1, det_index, inst="index-fields")
    icls = ctx.prog.klass(CS, "CueSheetIndex", "Q2")
    ok = [f[0] for f in ctx.prog.dataclass_fields(icls)] == ["number", "n_minutes", "n_seconds", "n_frames"]
    ctx.ob("Q2", icls, "CueSheetIndex field order: number, minutes, seconds, frames", ok, "", inst="index-class")
    ctx.ob("Q2", loop, "every INDEX is appended in order; TITLE is the quoted group of the TITLE line", ok_index and ok_title and seen["title"] >= 1, det_title or det_index,
           inst="index-append")
    # the track object is built from the TRACK line's groups
    okh, deth = False, "CueSheetTrack(...) construction not found before the loop"
    for p in run_paths(ctx, tp, rule="Q2", limit=4000):
        for c, e, st in calls_on(p, name="CueSheetTrack"):
            k = evaluator(ctx, tp, e).ev(c).key().replace("~", "")
            mtr = match_truth(p, "_TRACK_LINE_REGEX")
            T = mtr[1].replace("~", "") if mtr is not None and mtr[0] else None
            if T is not None:
                M = f"(_TRACK_LINE_REGEX.match({T})).groups()"
                okh = k == f"CueSheetTrack(int(sub({M},0)),sub({M},1))"
                deth = "" if okh else f"track built as `{k[:160]}`"
    ctx.ob("Q2", tp, "track number and mode come from the TRACK line's groups", okh, deth, inst="track-header")
    tcls = ctx.prog.klass(CS, "CueSheetTrack", "Q2")
    ok = [f[0] for f in ctx.prog.dataclass_fields(tcls)][:2] == ["number", "mode"]
    ctx.ob("Q2", tcls, "CueSheetTrack(number, mode, ...)", ok, "", inst="track-class")
    # file adapter and top level
    fp = ctx.fn(CS, "CueSheetFileAdapter.parse", "Q2")
    okf, detf = False, "no returning path found"
    track_list_names = set()
    n_ret = 0
    for p in run_paths(ctx, fp, rule="Q2", limit=4000):
        if p.end != "return":
            continue
        n_ret += 1
        cfs = [(c, e) for c, e, st in calls_on(p, name="CueSheetFile")]
        keys = [evaluator(ctx, fp, e).ev(c).key() for c, e in cfs]
        import re as _re
        from .util import call_parts as _cpq
        good = []
        for (c_, e_), k in zip(cfs, keys):
            fn_, pos_, kw_ = _cpq(k)
            name_arg = pos_[0] if pos_ else kw_.get("bin_file_name")
            if name_arg is not None and _re.fullmatch(r"sub\(\((?:ite\(.+,)?_FILE_LINE_REGEX\.match\(.+\)(?:,None\))?\)\.groups\(\),0\)", name_arg) and len(pos_) <= 2 \
                    and set(kw_) <= {"bin_file_name", "tracks"}:
                good.append(k)
                # a track list handed to the constructor must be the local list the loop fills
                targ = c_.args[1] if len(c_.args) > 1 else next((k_.value for k_ in c_.keywords if k_.arg == "tracks"), None)
                if targ is not None:
                    if isinstance(targ, ast.Name):
                        track_list_names.add(targ.id)
                    else:
                        good.pop()
        if len(keys) != 1 or not good:
            okf, detf = False, f"file object built as {keys}"
            break
        okf = True
    fcfg = ctx.cfg(fp, "Q2")
    fl = [w for w in own_nodes(fp) if isinstance(w, ast.While)]
    if okf and len(fl) == 1:
        flp = fcfg.loop_of(fl[0])
        n_tr = 0
        for kind, path, edge in fcfg.iteration_paths(flp):
            if kind != "back":
                continue
            pr = _walk(ctx, fp, fcfg, path)
            parses = [(c, e) for c, e, st in calls_on(pr) if norm(c.func) == "CueSheetTrackAdapter.parse"]
            apps = [(c, e) for c, e, st in calls_on(pr) if isinstance(c.func, ast.Attribute) and c.func.attr == "append"]
            if len(parses) != 1:
                okf, detf = False, "a continuing path does not hand the lines to the track parser exactly once"
                continue
            n_tr += 1
            tk = evaluator(ctx, fp, parses[0][1]).ev(parses[0][0]).key()
            for c, e in apps:
                ev_ = evaluator(ctx, fp, e)
                recv_ok = ev_.ev(c.func.value).key().endswith(".tracks") or (isinstance(c.func.value, ast.Name) and c.func.value.id in track_list_names)
                if not recv_ok or ev_.ev(c.args[0]).key() != f"sub({tk},0)":
                    okf, detf = False, f"`{norm(c)}` does not append the parsed track to the file's track list"
        okf = okf and n_tr >= 1
        # the list of tracks ends only when no non-empty line is left: the test that leaves the loop looks at the text
        # get_nonempty_entry returned (it skips blank lines and returns '' only when the lines are used up)
        oke, dete, n_exit = True, "", 0
        for kind, path, edge in fcfg.iteration_paths(flp):
            if kind != "exit" or len(path) == 1:
                continue
            if any(fcfg.nodes[x].kind == "raise" for x, _ in path):
                continue
            pr = _walk(ctx, fp, fcfg, path)
            last = pr.conds[-1][0].replace("~", "") if pr.conds else ""
            core = last
            while core.startswith("not(") and core.endswith(")"):
                core = core[4:-1]
            if re.fullmatch(r"(truthy\(len\(\w+\)\)|truthy\(\w+\)|len\(\w+\) (<=|>|==|!=) 0|-1 \+ len\(\w+\) (>=|<) 0)", core):
                continue  # the guard in another place: no line of any kind is left
            n_exit += 1
            if not core.startswith(("len(sub(get_nonempty_entry(", "truthy(sub(get_nonempty_entry(", "truthy(len(sub(get_nonempty_entry(", "-1 + len(sub(get_nonempty_entry(")):
                oke, dete = False, f"the track list ends on `{last[:100]}`: a blank line is taken for the end of the sheet (only get_nonempty_entry skips blank lines)"
        ctx.ob("Q2", fl[0], "the track list of a FILE ends only when no non-empty line is left", oke and n_exit >= 1, dete or ("" if n_exit else "no end-of-lines exit found"),
               inst="file-tracks-end")
    elif okf:
        okf, detf = False, "track loop not found"
    ctx.ob("Q2", fp, "FILE: bin name from the quoted group; tracks appended in order", okf, detf, inst="file-adapter")
    pc = ctx.fn(CS, "parse_cue_sheet", "Q2")
    pcfg = ctx.cfg(pc, "Q2")
    wl = [w for w in own_nodes(pc) if isinstance(w, ast.While)]
    ok = len(wl) == 1 and not any(isinstance(n, (ast.Break, ast.Raise, ast.Return)) for n in ast.walk(wl[0]))
    det = "scan loop not found, or it can stop at a non-FILE line"
    if ok:
        lp = pcfg.loop_of(wl[0])
        n_file = n_skip = 0
        for kind, path, edge in pcfg.iteration_paths(lp):
            if kind != "back":
                continue
            pr = _walk(ctx, pc, pcfg, path)
            names = [norm(c.func) for c, e, st in calls_on(pr)]
            matched = None
            for ctext, taken, node in pr.conds:
                if "_FILE_LINE_REGEX.match(" in ctext:
                    positive = not (ctext.startswith("Is(") or ctext.startswith("not("))
                    matched = taken if positive else not taken
            if matched is True:
                n_file += 1
                if names.count("CueSheetFileAdapter.parse") != 1:
                    ok, det = False, "a FILE line is not handed to the FILE parser"
            elif matched is False:
                n_skip += 1
                if "CueSheetFileAdapter.parse" in names:
                    ok, det = False, "a non-FILE line is handed to the FILE parser"
                # such a line is only consumed: apart from taking it off the list and trying regexes on it, the iteration does nothing
                for s_ in pr.steps:
                    st_ = s_.ast
                    if s_.kind != "stmt" or st_ is None or isinstance(st_, (ast.Pass, ast.Continue)):
                        continue
                    v_ = getattr(st_, "value", None)
                    fine = isinstance(st_, ast.Assign) and isinstance(v_, ast.Call) and (
                        norm(v_.func) == "get_nonempty_entry" or (isinstance(v_.func, ast.Attribute) and v_.func.attr in ("match", "fullmatch", "search")))
                    if not fine:
                        ok, det = False, f"a line before FILE that is not a FILE line has an effect: `{norm(st_)[:80]}`"
        ok = ok and n_file >= 1 and n_skip >= 1
    ctx.ob("Q2", pc, "lines before the FILE line that are not FILE lines are skipped (REM, PERFORMER, ...); FILE lines go to the FILE parser", ok, "" if ok else det, inst="skip-before-file")
    prs = run_paths(ctx, pc, rule="Q2")
    ok = False
    for p in prs:
        if p.end == "raise" and (p.raised or "").endswith("BadCueSheet"):
            for c, t, _n in p.conds:
                tst = getattr(_n, "test", _n)
                if isinstance(tst, ast.AST) and emptiness(pc, tst, "cue_sheet_files") is not None:
                    ok = ok or (emptiness(pc, tst, "cue_sheet_files") == t)
    for p in prs:
        if p.end == "return":
            # every return is on the non-empty side
            if not any(isinstance(getattr(_n, "test", _n), ast.AST) and emptiness(pc, getattr(_n, "test", _n), "cue_sheet_files") == (not t) for c, t, _n in p.conds):
                ok = False
    rc = return_canons(pc)
    ok_first = rc == ["cue_sheet_files[0]"]
    if not ok and not ok_first:
        # the same kept in a first-seen variable: V = None before the scan; a parsed FILE entry is stored only while V is still None;
        # V is None after the scan -> BadCueSheet; V is what is returned
        rets_ = [r_ for r_ in own_nodes(pc) if isinstance(r_, ast.Return) and r_.value is not None]
        V = rets_[0].value.id if rets_ and all(isinstance(r_.value, ast.Name) for r_ in rets_) and len({r_.value.id for r_ in rets_}) == 1 else None
        if V is not None:
            loops_ = [l_ for l_ in own_nodes(pc) if isinstance(l_, (ast.For, ast.While))]
            defs_ = [a_ for a_ in own_nodes(pc) if isinstance(a_, (ast.Assign, ast.AnnAssign)) and norm(a_.targets[0] if isinstance(a_, ast.Assign) else a_.target) == V]
            inits_ = [a_ for a_ in defs_ if not any(_inside_node(a_, l_) for l_ in loops_)]
            sets_ = [a_ for a_ in defs_ if any(_inside_node(a_, l_) for l_ in loops_)]
            okv = len(inits_) == 1 and isinstance(inits_[0].value, ast.Constant) and inits_[0].value.value is None and len(sets_) == 1
            if okv:
                g_ = getattr(sets_[0], "_parent", None)
                okv = isinstance(g_, ast.If) and sets_[0] in g_.body and norm(g_.test) in (f"{V} is None", f"not {V}") and not g_.orelse
                # what is stored is what the FILE parser returned for this FILE line
                src_ = sets_[0].value
                d2_ = [a_ for a_ in own_nodes(pc) if isinstance(a_, ast.Assign) and isinstance(src_, ast.Name) and any(isinstance(x_, ast.Name) and x_.id == src_.id for t_ in a_.targets for x_ in ast.walk(t_))]
                okv = okv and len(d2_) == 1 and "CueSheetFileAdapter.parse" in norm(d2_[0].value)
            n_raise = n_ret = 0
            for p in prs:
                facts_ = {c_.replace("~", ""): t_ for c_, t_, _n in p.conds}
                none_ = facts_.get(f"Is({V},None)")
                if none_ is None and f"IsNot({V},None)" in facts_:
                    none_ = not facts_[f"IsNot({V},None)"]
                if p.end == "raise" and (p.raised or "").endswith("BadCueSheet") and none_ is True:
                    n_raise += 1
                if p.end == "return":
                    n_ret += 1
                    okv = okv and none_ is False
            ok = ok_first = bool(okv and n_raise >= 1 and n_ret >= 1)
    ctx.ob("Q2", pc, "text without a FILE line is not a cue sheet (BadCueSheet)", ok, "", inst="no-file")
    ctx.ob("Q2", pc, "the first FILE entry is the cue sheet's meaning", ok_first, f"{rc}", inst="first-file")


def rule_Q5(ctx):
    """the cue sheet text handed to the parser is the whole file: every line, whatever the file's size"""
    pt = ctx.fn(ACT, "parse_text_file", "Q5")
    from .util import path_call_keys as _pk5, return_keys as _rk5
    opens = [c for c in own_nodes(pt) if isinstance(c, ast.Call) and norm(c.func) == "open"]
    withs = [w for w in own_nodes(pt) if isinstance(w, ast.With) and len(w.items) == 1 and w.items[0].context_expr in opens and isinstance(w.items[0].optional_vars, ast.Name)]
    fh = withs[0].items[0].optional_vars.id if withs else None
    if fh is None:
        fh_as = [a for a in own_nodes(pt) if isinstance(a, ast.Assign) and a.value in opens and isinstance(a.targets[0], ast.Name)]
        fh = fh_as[0].targets[0].id if fh_as else None
    if fh is None:
        raise AnalysisError("Q5", where(pt), "file handle of the text probe not found")
    whole = set()
    for h_ in (fh, "(" + evaluator(ctx, pt, {}).ev(opens[0]).key() + ")"):
        whole |= {f"{h_}.readlines()", f"list({h_})", f"({h_}.read()).splitlines()", f"({h_}.read()).splitlines(1)"}
    rks = _rk5(ctx, pt, "Q5")
    ok = bool(rks) and all(k_ in whole for k_ in rks)
    ctx.ob("Q5", pt, "the text probe returns every line of the file (no size limit on what is read)", ok,
           "" if ok else f"returns {sorted(str(k_) for k_ in rks)}: a size hint / partial read drops the lines - and the tracks - after it", inst="whole-file")


def rule_Q3(ctx):
    pt = ctx.fn(ACT, "parse_text_file", "Q3")
    opens = [c for c in own_nodes(pt) if isinstance(c, ast.Call) and norm(c.func) == "open"]
    ok = len(opens) == 1
    if ok:
        # canonical call term: keyword / positional spellings and module constants are folded
        from .util import call_parts
        fname_, pos, kw = call_parts(evaluator(ctx, pt, {}).ev(opens[0]).key())
        mode = pos[1] if len(pos) > 1 else kw.get("mode")
        ok = fname_ == "open" and kw.get("encoding") == "'ascii'" and mode in (None, "'r'", "'rt'") and kw.get("errors") in (None, "'strict'")
    ctx.ob("Q3", pt, "the text probe opens the file as strict ASCII text", ok, "", inst="ascii-open")
    rl = [c for c in own_nodes(pt) if isinstance(c, ast.Call) and isinstance(c.func, ast.Attribute) and c.func.attr in ("readlines", "read")]
    ok = len(rl) == 1
    if ok:
        h = find_try_handler(rl[0], pt, {"UnicodeDecodeError", "UnicodeError", "ValueError"})
        ok = h is not None and "BadTextFile" in raises_in(h.body)
    ctx.ob("Q3", pt, "non-ASCII content raises BadTextFile", ok, "", inst="non-ascii")
    di = ctx.fn(ACT, "determine_image_type", "Q3")
    calls = [c for c in own_nodes(di) if isinstance(c, ast.Call) and norm(c.func) == "parse_text_file"]
    ok = len(calls) == 1
    if ok:
        h = find_try_handler(calls[0], di, {"BadTextFile"})
        ok = h is not None and not any(isinstance(n, (ast.Raise, ast.Return)) for st in h.body for n in ast.walk(st))
        if ok:
            # paths through that handler skip the cue-sheet attempt and reach the binary cascade
            prs = [p for p in run_paths(ctx, di, include_exc=True, rule="Q3", limit=4000) if p.end == "return"]
            thr = [p for p in prs if any(s_.kind == "except" and s_.ast is h for s_ in p.steps)]
            feasible = []
            for p in thr:
                # drop paths contradicting a flag constant-folded from the handler (is_textfile = False; if is_textfile:)
                bad = False
                for c, t, _n in p.conds:
                    if c in ("truthy(0)",) and t:
                        bad = True
                    if c in ("truthy(1)",) and not t:
                        bad = True
                if not bad:
                    feasible.append(p)
            ok = bool(feasible) and all(not any(norm(c.func) == "attempt_parse_cue_sheet" for c, e, st in calls_on(p))
                                        and any(norm(c.func) == "is_mdf_image" for c, e, st in calls_on(p)) for p in feasible)
    ctx.ob("Q3", di, "a file that is not ASCII text falls back to the binary detection path", ok, "", inst="fallback-binary")
    calls = [c for c in own_nodes(di) if isinstance(c, ast.Call) and norm(c.func) == "attempt_parse_cue_sheet"]
    ok = len(calls) == 1
    if ok:
        h = find_try_handler(calls[0], di, {"BadCueSheet"})
        ok = h is not None and all(isinstance(s, ast.Pass) for s in h.body)
        if not ok and h is not None and not any(isinstance(n, (ast.Raise, ast.Return)) for st in h.body for n in ast.walk(st)):
            # the handler only notes the outcome: every path through it goes on to the binary cascade
            thr = [p for p in run_paths(ctx, di, include_exc=True, rule="Q3", limit=4000) if any(s_.kind == "except" and s_.ast is h for s_ in p.steps)]
            ok = bool(thr) and all(p.end == "return" and any(norm(c.func) == "is_mdf_image" for c, e, st in calls_on(p)) for p in thr
                                   if not any((c in ("truthy(0)",) and t) or (c in ("truthy(1)",) and not t) for c, t, _n in p.conds))
    ctx.ob("Q3", di, "text that is not a cue sheet (BadCueSheet) also falls back to the binary path", ok, "", inst="fallback-badcue")


def rule_Q4(ctx):
    n = 0
    for path, q in ((ACT, "attempt_parse_cue_sheet"), ("smpl_extract/cdda/image.py", "CompactDiskAudioImageAdapter.from_bin_cue")):
        fn = ctx.fn(path, q, "Q4")
        for c in own_nodes(fn):
            # every test that looks at a track's mode (==, !=, in, not in, whatever it is compared with)
            if isinstance(c, ast.Compare) and any(isinstance(x, ast.Attribute) and x.attr == "mode" for side in [c.left] + list(c.comparators) for x in ast.walk(side)):
                n += 1
                rhs = c.comparators[0] if len(c.comparators) == 1 else None
                try:
                    rv = ctx.folder.ev(rhs, fn._module) if rhs is not None else None
                except Exception:
                    rv = None
                ok = len(c.ops) == 1 and isinstance(c.ops[0], (ast.Eq, ast.NotEq)) and norm(c.left).endswith(".mode.lower()") and rv == "audio"
                ctx.ob("Q4", c, "track mode is compared case-insensitively with 'audio'", ok, norm(c), inst=f"{q}:{norm(c)}")
    if n < 2:
        raise AnalysisError("Q4", "-", f"{n} mode comparisons found (confirmed: 3; at least the data-track test and the CDDA track filter)")


def rule_C1(ctx):
    """detection order: text/cue -> MDF -> MDX -> Roland -> AKAI, on the unwrapped stream"""
    di = ctx.fn(ACT, "determine_image_type", "C1")
    CASC = ("parse_text_file", "attempt_parse_cue_sheet", "open", "is_mdf_image", "MdfStream", "is_mdx_image", "MdxStream", "is_roland_s7xx_image",
            "RolandSxxImageParser", "AkaiImageParser")
    farg = di.args.args[0].arg
    prs = [p for p in run_paths(ctx, di, include_exc=True, rule="C1", limit=8000) if p.end == "return"]
    # flags assigned constants in a handler fold to truthy(0)/truthy(1): drop the contradictory combinations
    prs = [p for p in prs if not any((c == "truthy(0)" and t) or (c == "truthy(1)" and not t) for c, t, _ in p.conds)]
    if not prs:
        raise AnalysisError("C1", where(di), "no return path")

    def truth_of(p, name):
        """(truth, argument key) of the test `name(arg)` on path p, or None"""
        for c, t, _ in p.conds:
            neg = False
            x = c
            while x.startswith("not(") and x.endswith(")"):
                x, neg = x[4:-1], not neg
            if x.startswith(f"truthy({name}(") and x.endswith("))"):
                return (t != neg), x[len(f"truthy({name}("):-2]
        return None

    seen = set()
    for p in prs:
        seq = []
        for c, e, st in calls_on(p):
            cn_ = c.func.id if isinstance(c.func, ast.Name) else None
            if cn_ is not None and cn_ not in CASC and cn_ in e and hasattr(e[cn_], "key") and e[cn_].key() in CASC:
                cn_ = e[cn_].key()  # a local holding the parser class
            if cn_ in CASC:
                ev = evaluator(ctx, di, e)
                seq.append((cn_, [ev.ev(a).key() for a in c.args], ev.ev(c).key(), c))
        names = [x[0] for x in seq]
        st_ = truth_of(p, "isinstance")
        is_str = st_[0] if st_ is not None and st_[1] == f"{farg},str" else None
        handlers = [set(handler_names(s_.ast)) for s_ in p.steps if s_.kind == "except"]
        via_badtext = any("BadTextFile" in h for h in handlers)
        via_badcue = any("BadCueSheet" in h for h in handlers)
        ret = p.ret.key() if p.ret is not None else "None"
        ok, det = True, ""
        pre = []
        if is_str is None:
            ok, det = False, f"the path (lines {p.lines()[:6]}..) does not branch on isinstance({farg}, str)"
        elif not is_str:
            F0 = farg
            if any(n in ("parse_text_file", "attempt_parse_cue_sheet", "open") for n in names):
                ok, det = False, "an already opened stream is probed as a text file / re-opened"
        else:
            F0 = f"open({farg},'rb')"
            cue = f"attempt_parse_cue_sheet(parse_text_file({farg}),os.path.dirname({farg}))"
            if not names or seq[0][0] != "parse_text_file" or seq[0][1] != [farg]:
                ok, det = False, "a path argument is not probed as a text file first"
            elif via_badtext:
                pre = ["parse_text_file"]
                if "attempt_parse_cue_sheet" in names:
                    ok, det = False, "a file that is not text is still handed to the cue-sheet parser"
            else:
                pre = ["parse_text_file", "attempt_parse_cue_sheet"]
                if names[:2] != pre or seq[1][2] != cue:
                    ok, det = False, f"text file: the cue-sheet attempt is not attempt_parse_cue_sheet(lines, dirname({farg})): {seq[1][2] if len(seq) > 1 else names}"
                elif ret == cue:
                    if len(names) != 2:
                        ok, det = False, "calls after the cue-sheet result was obtained"
                    key = "cue-result"
                    if key not in seen:
                        seen.add(key)
                        ctx.ob("C1", p.ret_node, "a text file that parses as a cue sheet is answered by the cue-sheet path", ok, det, inst="cascade:cue")
                    continue
                elif not via_badcue:
                    ok, det = False, "the cue-sheet result is dropped without a BadCueSheet"
            if ok:
                rest = seq[len(pre):]
                if not rest or rest[0][0] != "open" or rest[0][2] != F0:
                    ok, det = False, f"the image file is not opened as open({farg}, 'rb') after the text probe: {rest[0][2] if rest else '-'}"
                pre = pre + ["open"]
        if ok:
            rest = seq[len(pre):]
            want = [("is_mdf_image", F0)]
            mdf = truth_of(p, "is_mdf_image")
            mdx = truth_of(p, "is_mdx_image")
            F1 = F0
            if mdf is None or mdf[1] != F0:
                ok, det = False, "raw-sector probe missing or not on the opened stream"
            elif mdf[0]:
                want.append(("MdfStream", F0))
                F1 = f"MdfStream({F0})"
            else:
                want.append(("is_mdx_image", F0))
                if mdx is None or mdx[1] != F0:
                    ok, det = False, "MDX probe missing or not on the opened stream"
                elif mdx[0]:
                    want.append(("MdxStream", F0))
                    F1 = f"MdxStream({F0})"
            if ok:
                want.append(("is_roland_s7xx_image", F1))
                rol = truth_of(p, "is_roland_s7xx_image")
                if rol is None or rol[1] != F1:
                    ok, det = False, f"the Roland signature is not tested on the unwrapped stream `{F1}`"
                else:
                    parser = "RolandSxxImageParser" if rol[0] else "AkaiImageParser"
                    want.append((parser, F1))
                    got = [(n, a[0] if a else "") for n, a, k, c in rest]
                    if got != want:
                        ok, det = False, f"cascade on this path is {got}, expected {want}"
                    elif ret != f"{parser}({F1})":
                        ok, det = False, f"returns `{ret}`, expected {parser}({F1})"
        sig = f"{is_str}:{via_badtext}:{via_badcue}:" + ":".join(str(truth_of(p, n)[0]) if truth_of(p, n) else "-" for n in ("is_mdf_image", "is_mdx_image", "is_roland_s7xx_image"))
        if sig in seen and ok:
            continue
        seen.add(sig)
        ctx.ob("C1", p.ret_node or di, "detection cascade: text probe, cue sheet, raw sectors else MDX wrapper (unwrapped), Roland signature on the unwrapped stream, else AKAI", ok, det,
               inst=f"cascade:{sig}")
    # MDF / MDX signatures
    mh = ctx.prog.assigned("smpl_extract/alcohol/mdf.py", "MDF_SECTOR_HEADER_MAGIC", "C1")
    v = ctx.const("smpl_extract/alcohol/mdf.py", "MDF_SECTOR_HEADER_MAGIC", "C1")
    ok = v == b"\x00" + b"\xff" * 10 + b"\x00"
    ctx.ob("C1", mh, "raw-sector sync pattern 00 FF*10 00", ok, f"{v!r}", inst="mdf-magic", file="smpl_extract/alcohol/mdf.py", qualname="<module>")
    v = ctx.const("smpl_extract/alcohol/mdx.py", "MDX_SECTOR_HEADER_MAGIC", "C1")
    ctx.ob("C1", ctx.prog.assigned("smpl_extract/alcohol/mdx.py", "MDX_SECTOR_HEADER_MAGIC"), "MDX signature 'MEDIA DESCRIPTOR'", v == b"MEDIA DESCRIPTOR", f"{v!r}", inst="mdx-magic", file="smpl_extract/alcohol/mdx.py", qualname="<module>")
    for path, q, cons in (("smpl_extract/alcohol/mdf.py", "is_mdf_image", "MdfSectorHeaderConstruct"), ("smpl_extract/alcohol/mdx.py", "is_mdx_image", "MdxHeaderConstruct"),
                          ("smpl_extract/roland/s7xx/image.py", "is_roland_s7xx_image", "IdAreaAdapterParser")):
        f = ctx.fn(path, q, "C1")
        s = f.args.args[0].arg
        ok, det = True, ""
        n_true = n_false = 0
        for p in run_paths(ctx, f, include_exc=True, rule="C1", limit=2000):
            if p.end != "return":
                continue
            if any((c == "truthy(0)" and t) or (c == "truthy(1)" and not t) for c, t, _ in p.conds):
                continue
            ops = [(norm(c.func), evaluator(ctx, f, e).ev(c).key()) for c, e, st in calls_on(p)]
            parse_i = [i for i, (n_, k_) in enumerate(ops) if k_ == f"{cons}.parse_stream({s})"]
            seek0 = [i for i, (n_, k_) in enumerate(ops) if k_ in (f"{s}.seek(0,SEEK_SET)", f"{s}.seek(0,0)", f"{s}.seek(0)")]
            via_h = any(s_.kind == "except" and "ConstructError" in handler_names(s_.ast) for s_ in p.steps)
            ret = p.ret.key() if p.ret is not None else None
            if len(parse_i) != 1 or not [i for i in seek0 if i < parse_i[0]] or any(n_.endswith((".seek", ".read")) and seek0 and max(i2 for i2 in seek0 if i2 < parse_i[0]) < i < parse_i[0] for i, (n_, k_) in enumerate(ops)):
                ok, det = False, f"the signature struct is not parsed right after an absolute seek to offset 0: {[k_ for n_, k_ in ops][:6]}"
            elif via_h:
                n_false += 1
                if ret != "0":
                    ok, det = False, f"after a parse error the probe answers `{ret}`"
            else:
                n_true += 1
                if ret != "1":
                    ok, det = False, f"after a successful parse the probe answers `{ret}`"
        ok = ok and n_true >= 1 and n_false >= 1
        ctx.ob("C1", f, f"{q} parses its signature struct at offset 0 and answers False on a parse error", ok, det, inst=f"probe:{q}")
    # Roland id-area regexes
    ia = "smpl_extract/roland/s7xx/image.py"
    for nm, must in (("_S7XX_REGEX", "S7"), ("_VERSION_REGEX", "Ver"), ("_COPYRIGHT_REGEX", "Copyright")):
        node = ctx.prog.class_assigned(ia, "IdAreaAdapter", nm, "C1")
        pat, flg = regex_value(ctx, node, ctx.prog.module(ia), "C1", f"{ia}:{nm}")
        fl = bool(flg & re.I)
        ok = must in pat and fl
        try:
            rx.parse(pat, flg)
        except Exception:
            ok = False
        ctx.ob("C1", node, f"Roland signature regex {nm} is a valid case-insensitive pattern containing `{must}`", ok, pat[:60], inst=nm, file=ia, qualname="IdAreaAdapter")
    dec = ctx.fn(ia, "IdAreaAdapter._decode", "C1")
    import re as _re
    need = {("_S7XX_REGEX", "s7xx_str"), ("_VERSION_REGEX", "version_str"), ("_COPYRIGHT_REGEX", "copyright_str")}
    ok, det, n_ret = True, "", 0
    # table-driven form: for (string, regex) in <tuple of pairs>: if not regex.match(string): raise ConstructError
    table_pairs = set()
    from .sem import single_defs
    sd_ = single_defs(dec)
    dcfg = ctx.cfg(dec, "C1")
    for f_ in own_nodes(dec):
        if not (isinstance(f_, ast.For) and isinstance(f_.target, ast.Tuple) and len(f_.target.elts) == 2):
            continue
        it = f_.iter
        if isinstance(it, ast.Name) and it.id in sd_:
            it = sd_[it.id]
        if not (isinstance(it, (ast.Tuple, ast.List)) and all(isinstance(e, (ast.Tuple, ast.List)) and len(e.elts) == 2 for e in it.elts)):
            continue
        a_, b_ = f_.target.elts[0].id, f_.target.elts[1].id
        lp_ = dcfg.loop_of(f_)
        good = True
        seen_raise = False
        for kind, path, edge in dcfg.iteration_paths(lp_, skip_labels=("exc",)):
            if kind == "exit" and len(path) == 1:
                continue
            pr = _walk(ctx, dec, dcfg, path)
            mt_ = None
            for c, t, _n in pr.conds:
                x, ng = c, False
                while x.startswith("not(") and x.endswith(")"):
                    x, ng = x[4:-1], not ng
                for rv, sv in ((b_, a_), (a_, b_)):
                    if x in (f"truthy(({rv}~).match({sv}~))", f"truthy({rv}~.match({sv}~))"):
                        mt_ = ((t != ng), rv, sv)
            if mt_ is None:
                good = False
            elif mt_[0] and kind != "back":
                good = False
            elif not mt_[0]:
                raised = [s_ for s_ in pr.steps if s_.kind == "raise"]
                if kind == "back" or not raised or not norm(raised[-1].ast).endswith("ConstructError"):
                    good = False
                seen_raise = True
        if good and seen_raise:
            rv_first = mt_[1] == a_ if mt_ else False
            for e in it.elts:
                x0, x1 = norm(e.elts[0]), norm(e.elts[1])
                rg, st_ = (x0, x1) if rv_first else (x1, x0)
                table_pairs.add((rg.split(".")[-1], st_.split(".")[-1]))
    if need <= table_pairs:
        ctx.ob("C1", dec, "all three id-area strings must match their regex, else the image is not Roland", True, "", inst="id-verify")
        return
    for p in run_paths(ctx, dec, rule="C1", limit=4000):
        pos, neg_ = set(), set()
        for c, t, _n in p.conds:
            x, ng = c, False
            while x.startswith("not(") and x.endswith(")"):
                x, ng = x[4:-1], not ng
            m = _re.fullmatch(r"truthy\(self\.(_\w+_REGEX)\.match\(.*?\.?(\w+_str)\)\)", x)
            if m:
                (pos if (t != ng) else neg_).add((m.group(1), m.group(2)))
        if p.end == "return":
            n_ret += 1
            if not need <= pos:
                ok, det = False, f"a path returns an IdArea having verified only {sorted(pos)}"
        elif p.end == "raise" and neg_ and not (p.raised or "").endswith("ConstructError"):
            ok, det = False, f"a failed signature match raises {p.raised}"
    ok = ok and n_ret >= 1
    ctx.ob("C1", dec, "all three id-area strings must match their regex, else the image is not Roland", ok, det, inst="id-verify")


def rule_C2(ctx):
    """cue sheet -> image, decided per symbolic path on value-flow terms: a data track anywhere -> the bin is detected like a
    raw image; all tracks audio -> CDDA over the bin with the sheet's tracks; otherwise BadCueSheet"""
    fn = ctx.fn(ACT, "attempt_parse_cue_sheet", "C2")
    lines_p, dir_p = fn.args.args[0].arg, fn.args.args[1].arg
    SHEET = f"parse_cue_sheet({lines_p})"
    OPEN = f"open(os.path.join({dir_p},{SHEET}.bin_file_name),'rb')"

    def classify(test):
        """('exists' | 'all', polarity) for the two track-mode tests, else None"""
        neg = False
        while isinstance(test, ast.UnaryOp) and isinstance(test.op, ast.Not):
            test, neg = test.operand, not neg
        class _NE(ast.NodeTransformer):
            # `not x == "lit"` is `x != "lit"` for strings
            def visit_UnaryOp(self, node):
                self.generic_visit(node)
                o = node.operand
                if isinstance(node.op, ast.Not) and isinstance(o, ast.Compare) and len(o.ops) == 1 and isinstance(o.ops[0], (ast.Eq, ast.NotEq)) \
                        and any(isinstance(x, ast.Constant) and isinstance(x.value, str) for x in (o.left, o.comparators[0])):
                    return ast.copy_location(ast.Compare(left=o.left, ops=[ast.NotEq() if isinstance(o.ops[0], ast.Eq) else ast.Eq()], comparators=o.comparators), node)
                return node
        import copy as _copy
        test = ast.fix_missing_locations(_NE().visit(_copy.deepcopy(test)))
        t = canon_expr(fn, test)
        tr = f"{SHEET}.tracks"
        if t.endswith(" is not None"):
            t = t[:-len(" is not None")]
        elif t.endswith(" is None"):
            t, neg = t[:-len(" is None")], not neg
        ex = (f"next((_c0 for _c0 in {tr} if _c0.mode.lower() != 'audio'), None)", f"any((_c0.mode.lower() != 'audio' for _c0 in {tr}))",
              f"any([_c0.mode.lower() != 'audio' for _c0 in {tr}])")
        al = (f"all((_c0.mode.lower() == 'audio' for _c0 in {tr}))", f"all([_c0.mode.lower() == 'audio' for _c0 in {tr}])")
        if t in ex:
            return "exists", not neg
        if t in al:
            return "all", not neg
        return None

    seen = {}
    prs = run_paths(ctx, fn, rule="C2", limit=4000)
    unknown_tests = set()
    for p in prs:
        facts = {}
        contradictory = False
        for ctext, taken, node in p.conds:
            tst = getattr(node, "test", None)
            c = classify(tst) if tst is not None else None
            if c is None:
                if tst is not None:
                    unknown_tests.add(norm(tst)[:80])
                continue
            val = taken == c[1]
            if c[0] in facts and facts[c[0]] != val:
                contradictory = True
            facts[c[0]] = val
        if contradictory:
            continue
        # the two tests are complements element by element: no non-audio track means every track is audio
        if facts.get("exists") is False and "all" not in facts:
            facts["all"] = True
        if facts.get("exists") is True and facts.get("all") is True:
            continue  # both cannot hold for a non-empty... (exists non-audio excludes all-audio)
        calls = [(norm(c.func), evaluator(ctx, fn, e).ev(c).key()) for c, e, st in calls_on(p)
                 if norm(c.func) in ("determine_image_type", "CompactDiskAudioImageAdapter.from_bin_cue", "open")]
        ret = p.ret.key() if p.ret is not None else None
        if facts.get("exists") is True:
            case = "data"
            ok = p.end == "return" and ret == f"determine_image_type({OPEN})" and not any(n == "CompactDiskAudioImageAdapter.from_bin_cue" for n, k in calls)
        elif facts.get("exists") is False and facts.get("all") is True:
            case = "audio"
            ok = p.end == "return" and ret == f"CompactDiskAudioImageAdapter.from_bin_cue({OPEN},{SHEET})" and not any(n == "determine_image_type" for n, k in calls)
        elif facts.get("exists") is False and facts.get("all") is False:
            case = "neither"
            ok = p.end == "raise" and (p.raised or "").endswith("BadCueSheet") and not any(n in ("determine_image_type", "CompactDiskAudioImageAdapter.from_bin_cue") for n, k in calls)
        else:
            case = "undecided"
            ok = False
        prev = seen.get(case)
        seen[case] = (ok and (prev[0] if prev else True), f"end={p.end} returns `{(ret or '')[:140]}` under {facts}")
    ok_d, det_d = seen.get("data", (False, "no path for a cue sheet with a data track"))
    ctx.ob("C2", fn, "a cue sheet counts as a sampler image as soon as one track is not AUDIO", ok_d and "undecided" not in seen,
           "" if ok_d and "undecided" not in seen else (det_d if not ok_d else f"a path decides on neither track test: {seen.get('undecided')} (tests seen: {sorted(unknown_tests)})"),
           inst="exists-data-track")
    ctx.ob("C2", fn, "data-track cue: the bin file next to the cue sheet is opened and detected like a raw image", ok_d, "" if ok_d else det_d, inst="data-branch")
    ok_a, det_a = seen.get("audio", (False, "no path for an all-audio cue sheet"))
    ctx.ob("C2", fn, "all-audio cue: the bin is read as CDDA with the cue sheet's tracks", ok_a, "" if ok_a else det_a, inst="audio-branch")
    ok_n, det_n = seen.get("neither", (True, ""))
    ctx.ob("C2", fn, "a sheet that is neither (no tracks) is rejected with BadCueSheet", ok_n, "" if ok_n else det_n, inst="neither-branch")
    ctx.ob("C2", fn, "the decision is taken on the parsed cue sheet", ok_d or ok_a, "", inst="parse-first")
    di = ctx.fn(ACT, "determine_image_type", "C2")
    from .util import path_call_keys as _pkc
    fa_ = di.args.args[0].arg
    cues_ = [k_ for ks_ in _pkc(ctx, di, "C2", ends=("return", "fall", "raise"), include_exc=True, limit=8000) for k_ in ks_ if k_.startswith("attempt_parse_cue_sheet(")]
    ok = bool(cues_) and all(k_ == f"attempt_parse_cue_sheet(parse_text_file({fa_}),os.path.dirname({fa_}))" for k_ in cues_)
    ctx.ob("C2", di, "the bin file is resolved relative to the cue sheet's directory", ok, "", inst="relative-dir")
