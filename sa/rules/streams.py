"""S1..S9: chains and byte views (C01, C02, C07, C08, C09, C11, C15, C16)."""
import ast

from ..core.loader import AnalysisError, dotted, norm, own_nodes, where, enclosing_class
from ..core.terms import Evaluator, Term, cmp_struct, holds_at, same_cmp, NEG
from ..core.symexec import run_paths, calls_on
from .util import (evaluator, rdotted, path_conds_struct, cond_taken, find_try_handler, handler_names, raises_in,
                   is_super_call, single_return_term)

STREAM = "smpl_extract/util/stream.py"
SECTOR = "smpl_extract/util/sector.py"
FAT = "smpl_extract/util/fat.py"
MDF = "smpl_extract/alcohol/mdf.py"
MDX = "smpl_extract/alcohol/mdx.py"


def A(name):
    return Term.atom(name)


def C(v):
    return Term.const(v)


# ------------------------------------------------------------------------ S1
def rule_S1(ctx):
    """FileAllocationTable.get_path: the list is exactly the chain followed from the first sector."""
    fn = ctx.fn(FAT, "FileAllocationTable.get_path", "S1")
    cfg = ctx.cfg(fn, "S1")
    loops = [n for n in own_nodes(fn) if isinstance(n, (ast.While, ast.For))
             and any(isinstance(c, ast.Call) and isinstance(c.func, ast.Attribute) and c.func.attr == "append" for c in ast.walk(n))]
    if len(loops) != 1:
        raise AnalysisError("S1", where(fn), f"expected one chain-walk loop, found {len(loops)}")
    loop = loops[0]
    appends = [n for n in ast.walk(loop) if isinstance(n, ast.Call) and isinstance(n.func, ast.Attribute) and n.func.attr == "append"]
    ok = len(appends) == 1 and isinstance(appends[0].args[0], ast.Name) and isinstance(appends[0].func.value, ast.Name)
    ctx.ob("S1", loop, "the walk appends exactly one value per iteration, and it is a cursor variable", ok,
           "" if ok else f"{len(appends)} append call(s) / appended value is not a plain cursor", inst="append-cursor")
    if not ok:
        return
    cur = appends[0].args[0].id
    lst = appends[0].func.value.id
    param = [a.arg for a in fn.args.args if a.arg != "self"]
    prs = run_paths(ctx, fn, rule="S1")
    # initial cursor = the parameter; returned object = the list that is appended to, initialised empty
    init_ok = False
    for n in own_nodes(fn):
        if isinstance(n, ast.Assign) and any(isinstance(t, ast.Name) and t.id == cur for t in n.targets) and not _inside(n, loop):
            init_ok = isinstance(n.value, ast.Name) and n.value.id in param
    ctx.ob("S1", fn, f"cursor `{cur}` starts at the requested first sector", init_ok, "" if init_ok else "cursor is not initialised from the parameter", inst="cursor-init")
    lst_init = [n for n in own_nodes(fn) if isinstance(n, ast.Assign) and any(isinstance(t, ast.Name) and t.id == lst for t in n.targets)]
    li_ok = len(lst_init) == 1 and not _inside(lst_init[0], loop) and (
        (isinstance(lst_init[0].value, ast.List) and not lst_init[0].value.elts) or norm(lst_init[0].value) in ("list()",))
    ctx.ob("S1", fn, f"result list `{lst}` starts empty and is assigned once", li_ok, "" if li_ok else "result list is re-assigned or not initialised empty", inst="list-init")
    rets = [p for p in prs if p.end == "return"]
    r_ok = bool(rets) and all(isinstance(p.ret_node.value, ast.Name) and p.ret_node.value.id == lst for p in rets)
    ctx.ob("S1", fn, "every normal return yields the accumulated list unchanged", r_ok, "" if r_ok else "a return path yields something other than the accumulated list", inst="return-list")
    # per iteration path
    lp = cfg.loop_of(loop)
    dom = cfg.dominators(skip_labels=("exc",))
    # range test dominates the subscript by cursor
    subs = [n for n in ast.walk(loop) if isinstance(n, ast.Subscript) and isinstance(n.slice, ast.Name) and n.slice.id == cur]
    table = None
    for sb in subs:
        table = dotted(sb.value) or table
    rt = None
    for n in ast.walk(loop):
        if isinstance(n, ast.If) and isinstance(n.test, ast.Compare) and len(n.test.ops) == 1:
            l, op, r = n.test.left, n.test.ops[0], n.test.comparators[0]
            if isinstance(l, ast.Name) and l.id == cur and isinstance(op, ast.GtE) and norm(r) == f"len({table})" \
                    and n.body and isinstance(n.body[-1], ast.Raise):
                rt = n
            if isinstance(r, ast.Name) and r.id == cur and isinstance(op, ast.LtE) and norm(l) == f"len({table})" \
                    and n.body and isinstance(n.body[-1], ast.Raise):
                rt = n
    ok = rt is not None
    if ok:
        rid = cfg.nid(rt)
        for sb in subs:
            st = sb
            while id(st) not in cfg.node_of:
                st = st._parent
            if rid not in dom.get(cfg.node_of[id(st)], set()):
                ok = False
    ctx.ob("S1", loop, f"`{cur} >= len({table})` raises before the table is indexed (links beyond the table are reported)", ok,
           "" if ok else "the range test is missing, weaker than `>= len(table)`, or does not dominate the table access", inst="range-test")
    n_back = 0
    for kind, path, edge in cfg.iteration_paths(lp):
        pr = _walk(ctx, fn, cfg, path)
        idx_app = [i for i, s in enumerate(pr.steps) if s.kind == "stmt" and any(c is appends[0] for c in ast.walk(s.ast))]
        idx_asg = [i for i, s in enumerate(pr.steps) if s.kind == "stmt" and isinstance(s.ast, (ast.Assign, ast.AugAssign))
                   and any(isinstance(t, ast.Name) and t.id == cur for t in (s.ast.targets if isinstance(s.ast, ast.Assign) else [s.ast.target]))]
        lines = pr.lines()
        if kind == "back":
            n_back += 1
            # cursor's new value = table[cursor].next of the link just read ; append happened before
            newv = pr.env.get(cur)
            want = A(f"sub({table},{cur}~).next")
            ok1 = newv == want and len(idx_asg) == 1
            ctx.ob("S1", loop, f"on a continuing iteration the cursor becomes `{table}[{cur}].next` (and nothing else)", ok1,
                   "" if ok1 else f"cursor after the iteration is `{newv.key() if newv is not None else '?'}` on the path through lines {lines}",
                   inst=f"advance:{_pc(pr)}")
            ok2 = len(idx_app) == 1 and idx_asg and idx_app[0] < idx_asg[0]
            ctx.ob("S1", loop, "the sector is appended before the cursor advances, exactly once per continuing iteration", bool(ok2),
                   "" if ok2 else f"append/advance order broken on the path through lines {lines}", inst=f"order:{_pc(pr)}")
            # continuing requires .end false
            endc = [c for c in pr.conds if c[0] == f"truthy(sub({table},{cur}~).end)"]
            ok3 = bool(endc) and all(not t for _, t, _ in endc)
            ctx.ob("S1", loop, "the walk continues only when the link just read is not an end marker", ok3,
                   "" if ok3 else f"a back-edge path (lines {lines}) does not test `.end` of the link just read", inst=f"end-test:{_pc(pr)}")
        elif kind == "exit" and cfg.nodes[edge[1]].kind not in ("raise_exit",) and edge[2] != "raise":
            # normal exits of the loop: guard false (bound reached) or the break under .end
            endc = [c for c in pr.conds if c[0] == f"truthy(sub({table},{cur}~).end)"]
            if len(pr.steps) > 1:
                # the bound counter must not move between the loop guard and the end-of-chain exit: the post-loop
                # `counter >= size -> Broken FAT` test then contradicts the guard, so a well-formed chain that
                # fills the whole table is not rejected
                from .termination import delta_of
                gv = [n.id for n in ast.walk(loop.test) if isinstance(n, ast.Name)] if isinstance(loop, ast.While) else []
                for g in gv:
                    d = delta_of(g, [(s.kind, s.ast, s.label) for s in pr.steps if s.ast is not None], Evaluator())
                    okg = d is not None and d == Term.const(0)
                    ctx.ob("S1", loop, f"the walk bound `{g}` counts followed links: it is not advanced on the iteration that ends the chain", okg,
                           "" if okg else f"`{g}` changes by {d.key() if d is not None else '?'} before the end-of-chain exit: a chain occupying every table entry hits the broken-FAT error",
                           inst=f"bound-at-exit:{g}")
                ok4 = bool(endc) and all(t for _, t, _ in endc) and len(idx_app) == 1 and not idx_asg
                ctx.ob("S1", loop, "the loop is left from inside exactly when the link just read is an end marker, after appending that sector", ok4,
                       "" if ok4 else f"loop exit through lines {lines} is not the `.end` exit (or skips the append / moves the cursor)", inst=f"exit:{_pc(pr)}")
    if n_back == 0:
        raise AnalysisError("S1", where(loop), "no back-edge path found in the chain walk")
    if isinstance(loop, ast.For):
        it = loop.iter
        # every path on which the range runs out (the for statement is left through its exhausted edge) ends in a raise
        exhausted = [p_ for p_ in run_paths(ctx, fn, rule="S1", limit=4000) if any(s_.kind == "for" and s_.ast is loop and s_.label == "false" for s_ in p_.steps)]
        okb = isinstance(it, ast.Call) and norm(it.func) == "range" and len(it.args) == 1 and norm(it.args[0]) == "self.size" \
            and bool(exhausted) and all(p_.end == "raise" and (p_.raised or "").endswith("InvalidFatDefinition") for p_ in exhausted)
        ctx.ob("S1", loop, "the walk is bounded by the table size and running out of steps is reported as a broken table", okb, "", inst="for-bound")


def _pc(pr):
    return pr.cond_key()[:160]


def _inside(node, root):
    return any(n is node for n in ast.walk(root))


def _walk(ctx, fn, cfg, path, env0=None, keep=()):
    """evaluate one CFG path (list of (node id, label)) with havoc of loop-assigned names at heads; names in `keep` are not
    havoced at the first node of the path (their value on entry comes from env0: the first iteration)"""
    from ..core.symexec import PathResult, Step, loop_assigned
    from ..core.terms import Evaluator
    const_of = ctx.folder.const_of(fn._module)
    pr = PathResult()
    env = dict(env0 or {})
    for pos_, (n, lab) in enumerate(path):
        node = cfg.nodes[n]
        if node.kind in ("test", "for") and isinstance(node.ast, (ast.While, ast.For)):
            for v in loop_assigned(node.ast):
                if pos_ == 0 and v in keep:
                    continue
                env[v] = Term.atom(v + "~")
        if node.kind == "for" and isinstance(node.ast, ast.For):
            for sub in ast.walk(node.ast.target):
                if isinstance(sub, ast.Name):
                    env[sub.id] = Term.atom(sub.id + "~")
        snap = dict(env)
        ev = Evaluator(env=env, const_of=const_of)
        st = node.ast
        root = getattr(st, "test", None) if node.kind == "test" else (getattr(st, "value", None) if node.kind in ("stmt", "return") else None)
        if root is not None:
            for nx in reversed([n_ for n_ in ast.walk(root) if isinstance(n_, ast.NamedExpr) and isinstance(n_.target, ast.Name)]):
                env[nx.target.id] = Evaluator(env=env, const_of=const_of).ev(nx.value)
        if node.kind == "stmt":
            from ..core.symexec import dict_update_stmt
            if dict_update_stmt(st, env, ev):
                pass
            elif isinstance(st, ast.Assign) and len(st.targets) == 1 and isinstance(st.targets[0], (ast.Tuple, ast.List)) \
                    and isinstance(st.value, (ast.ListComp, ast.GeneratorExp)) and len(st.value.generators) == 1 \
                    and not st.value.generators[0].ifs and isinstance(st.value.generators[0].target, ast.Name):
                g_ = st.value.generators[0]
                it_ = ev.ev(g_.iter)
                for i_, t_ in enumerate(st.targets[0].elts):
                    d_ = dotted(t_) if isinstance(t_, (ast.Name, ast.Attribute)) else None
                    if d_:
                        e2_ = dict(env)
                        e2_[g_.target.id] = Term.atom(f"sub({it_.key()},{i_})")
                        env[d_] = Evaluator(env=e2_, const_of=const_of).ev(st.value.elt)
            elif isinstance(st, ast.Assign) and len(st.targets) == 1 and isinstance(st.targets[0], (ast.Tuple, ast.List)):
                v = ev.ev(st.value)
                for i_, t_ in enumerate(st.targets[0].elts):
                    d_ = dotted(t_) if isinstance(t_, (ast.Name, ast.Attribute)) else None
                    if d_:
                        from ..core.terms import elem_term as _et
                        env[d_] = _et(v.key(), i_)
            elif isinstance(st, ast.Assign):
                v = ev.ev(st.value)
                for t in st.targets:
                    d = dotted(t) if isinstance(t, (ast.Name, ast.Attribute)) else None
                    if d:
                        env[d] = v
            elif isinstance(st, ast.AugAssign):
                d = dotted(st.target) if isinstance(st.target, (ast.Name, ast.Attribute)) else None
                if d:
                    env[d] = ev.ev(ast.BinOp(left=st.target, op=st.op, right=st.value))
            elif isinstance(st, ast.Expr) and isinstance(st.value, ast.Call) and isinstance(st.value.func, ast.Attribute) and st.value.func.attr == "append" \
                    and isinstance(st.value.func.value, ast.Name) and len(st.value.args) == 1 and st.value.func.value.id in env:
                # a local list whose elements are known so far keeps being known after append
                cur = env[st.value.func.value.id]
                ck = cur.key() if hasattr(cur, "key") else ""
                if ck.startswith("[") and ck.endswith("]") and len(cur.p) == 1:
                    inner = ck[1:-1]
                    env[st.value.func.value.id] = Term.atom("[" + (inner + "," if inner else "") + ev.ev(st.value.args[0]).key() + "]")
        pr.steps.append(Step(node.kind, st, lab, snap))
        if node.kind == "test" and lab in ("true", "false") and st is not None:
            pr.conds.append((Evaluator(env=snap, const_of=const_of).cond(st.test), lab == "true", st))
    pr.env = env
    return pr


# ------------------------------------------------------------------------ S2
def rule_S2(ctx):
    fn = ctx.fn(FAT, "add_to_sector_links", "S2")
    stores = [n for n in own_nodes(fn) if isinstance(n, ast.Assign) and any(isinstance(t, ast.Subscript) for t in n.targets)]
    if not stores:
        raise AnalysisError("S2", where(fn), "no link store found")
    for st in stores:
        h = find_try_handler(st, fn, {"IndexError", "LookupError", "Exception"})
        ok = h is not None and "InvalidFatDefinition" in raises_in(h.body)
        ctx.ob("S2", st, "link store beyond the table end is reported as InvalidFatDefinition", ok,
               "" if ok else "store is not inside a try whose IndexError handler raises InvalidFatDefinition")
    # the last element is installed as end-of-chain, all others link to their successor
    prs = [p for p in run_paths(ctx, fn, rule="S2") if p.end in ("fall", "return")]
    kinds = set()
    from .util import call_parts
    for p in run_paths(ctx, fn, rule="S2", include_exc=False):
        for s_ in p.steps:
            if s_.kind == "stmt" and s_.ast in stores:
                ev_ = evaluator(ctx, fn, s_.env)
                fname, pos, kw = call_parts(ev_.ev(s_.ast.value).key())
                if fname == "SectorLink":
                    nx = kw.get("next", pos[0] if pos else None)
                    en = kw.get("end", pos[1] if len(pos) > 1 else None)
                    tgt = [t for t in s_.ast.targets if isinstance(t, ast.Subscript)][0]
                    kinds.add((nx, en, ev_.ev(tgt.slice).key()))
    # every link of the walk is installed: the loop over the links has no way out but the end of the list (an index outside the
    # table leaves through the exception), and each turn stores one interior entry and moves on to the successor
    cfg2 = ctx.cfg(fn, "S2")
    floops = [l_ for l_ in own_nodes(fn) if isinstance(l_, (ast.For, ast.While)) and any(st_ in stores for st_ in ast.walk(l_))]
    okw, detw = len(floops) == 1, "link loop not found"
    if okw:
        lp2 = cfg2.loop_of(floops[0])
        nb = 0
        for kind, path, edge in cfg2.iteration_paths(lp2):
            if kind == "exit" and len(path) == 1:
                continue
            if kind != "back":
                lines_ = sorted({getattr(cfg2.nodes[n_].ast, "lineno", 0) for n_, _l in path if cfg2.nodes[n_].ast is not None})
                okw, detw = False, f"the walk can leave the loop before the last link (path through lines {lines_}): the rest of the chain is never installed"
                continue
            nb += 1
            pr = _walk(ctx, fn, cfg2, path)
            n_st = sum(1 for s_ in pr.steps if s_.kind == "stmt" and s_.ast in stores)
            if n_st != 1:
                okw, detw = False, f"a turn of the link loop stores {n_st} entries"
        okw = okw and nb >= 1
    ctx.ob("S2", floops[0] if floops else fn, "every link handed to add_to_sector_links is installed (no early way out of the walk)", okw, "" if okw else detw, inst="all-links")
    has_link = any(e == "0" and nx not in ("0", None) and nx != idx for nx, e, idx in kinds)
    has_end = any(e == "1" for nx, e, idx in kinds)
    ctx.ob("S2", fn, "interior sectors are stored as (next=successor, end=False) and the last one as end=True", has_link and has_end,
           "" if has_link and has_end else f"store shapes found: {sorted(kinds)}", inst="link-shapes")


# ------------------------------------------------------------------------ S3
def _method(ctx, path, cls, name, rule):
    return ctx.fn(path, f"{cls}.{name}", rule)


def _ret_terms(ctx, fn, rule, env0=None):
    prs = run_paths(ctx, fn, env0=env0, rule=rule)
    return [(p, p.ret) for p in prs if p.end == "return"], prs


def rule_S3(ctx):
    """address maps: index -> parent address is SECTOR(index)*STRIDE + HEADER + offset"""
    name = "_get_address_given_sector_index"
    base = _method(ctx, SECTOR, "SectorStream", name, "S3")
    params = [a.arg for a in base.args.args][1:]
    if len(params) != 2:
        raise AnalysisError("S3", where(base), "unexpected signature")
    rets, _ = _ret_terms(ctx, base, "S3")
    want = A(params[1]) + A(params[0]) * A("self.sector_length")
    ok = bool(rets) and all(r == want for _, r in rets)
    ctx.ob("S3", base, "SectorStream address = index*sector_length + offset on every path", ok,
           "" if ok else f"return term(s): {[r.key() if r is not None else None for _, r in rets]}", inst="SectorStream")
    # FileStream: sector = sector_list[index]; then base formula
    fs = _method(ctx, FAT, "FileStream", name, "S3")
    p2 = [a.arg for a in fs.args.args][1:]
    rets, prs = _ret_terms(ctx, fs, "S3")
    good = bool(rets)
    got = []
    for p, r in rets:
        # returned term is the super() call: inline it
        val = _inline_super(ctx, fs, p, base, "S3")
        got.append(val.key() if val is not None else (r.key() if r is not None else None))
        wantf = A(p2[1]) + A(f"sub(self.sector_list,{p2[0]})") * A("self.sector_length")
        if val != wantf:
            good = False
    ctx.ob("S3", fs, "FileStream address = sector_list[index]*sector_length + offset on every path (no other state involved)", good,
           "" if good else f"return term(s): {got}", inst="FileStream")
    # MdfStream
    ms = _method(ctx, MDF, "MdfStream", name, "S3")
    p3 = [a.arg for a in ms.args.args][1:]
    rets, _ = _ret_terms(ctx, ms, "S3")
    wantm = A(p3[1]) + A(p3[0]).scale(2352) + C(16)
    ok = bool(rets) and all(r == wantm for _, r in rets)
    ctx.ob("S3", ms, "MdfStream address = index*2352 + 16 + offset on every path", ok,
           "" if ok else f"return term(s): {[r.key() if r is not None else None for _, r in rets]}", inst="MdfStream")
    # no further override exists unnoticed
    sect = ctx.prog.klass(SECTOR, "SectorStream", "S3")
    known = {id(base), id(fs), id(ms)}
    for sub in ctx.prog.subclasses_of(sect):
        for st in sub.body:
            if isinstance(st, ast.FunctionDef) and st.name == name and id(st) not in known:
                ctx.ob("S3", st, "every override of the address map has a confirmed reference formula", False,
                       f"unreviewed override in {sub.name}", inst=f"override:{sub.name}")
    # constants and constructor wiring
    consts = {k: ctx.const(MDF, k, "S3") for k in ("MDF_SECTOR_SIZE", "MDF_SECTOR_HEADER_SIZE", "MDF_SECTOR_BODY_SIZE", "MDF_SECTOR_FOOTER_SIZE")}
    ok = consts["MDF_SECTOR_SIZE"] == 2352 and consts["MDF_SECTOR_HEADER_SIZE"] == 16 and consts["MDF_SECTOR_BODY_SIZE"] == 2048 \
        and consts["MDF_SECTOR_FOOTER_SIZE"] == 288 and 16 + 2048 + 288 == consts["MDF_SECTOR_SIZE"]
    node = ctx.prog.assigned(MDF, "MDF_SECTOR_SIZE")
    ctx.ob("S3", node, "raw sector geometry 2352 = 16 + 2048 + 288", ok, f"{consts}", inst="mdf-geometry", file=MDF, qualname="<module>")
    init = _method(ctx, MDF, "MdfStream", "__init__", "S3")
    _check_super_init(ctx, init, "S3", "MdfStream", {
        "size": lambda t: _is_floor_scaled(t, 2048, 2352),
        "sector_length": lambda t: t == C(2048),
    })
    finit = _method(ctx, FAT, "FileStream", "__init__", "S3")
    fparams = [a.arg for a in finit.args.args][1:]
    _check_super_init(ctx, finit, "S3", "FileStream", {
        "size": lambda t: t == A("sector_size") * A("len(sector_list)"),
        "sector_length": lambda t: t == A("sector_size"),
    })
    stores = [n for n in own_nodes(finit) if isinstance(n, ast.Assign) and dotted(n.targets[0]) == "self.sector_list"]
    ok = len(stores) == 1 and isinstance(stores[0].value, ast.Name) and stores[0].value.id == "sector_list"
    ctx.ob("S3", finit, "FileStream keeps the chain it was given (self.sector_list = sector_list, single writer)", ok, "", inst="FileStream.sector_list")
    writers = []
    for m, q, f in ctx.prog.all_functions():
        for n in own_nodes(f):
            if isinstance(n, (ast.Assign, ast.AugAssign)):
                for t in (n.targets if isinstance(n, ast.Assign) else [n.target]):
                    if isinstance(t, ast.Attribute) and t.attr in ("sector_list", "sector_length", "substream") and f is not finit \
                            and q not in ("SectorStream.__init__", "StreamWrapper.__init__"):
                        writers.append(f"{m.path}:{q}:{t.attr}")
    ctx.ob("S3", finit, "sector_list / sector_length / substream are written only by the constructors", not writers,
           "" if not writers else f"other writers: {writers}", inst="single-writer")
    for path, cls, const, val in (("smpl_extract/akai/sat.py", "Segment", "AKAI_SECTOR_SIZE", 8192),
                                  ("smpl_extract/roland/s7xx/fat.py", "RolandFile", "ROLAND_CLUSTER_SIZE", 9216)):
        ini = _method(ctx, path, cls, "__init__", "S3")
        m = ctx.prog.module(path)
        _check_super_init(ctx, ini, "S3", cls, {"sector_size": lambda t, v=val: t == C(v),
                                                "sector_list": lambda t: t == A("sector_list")})


def _is_floor_scaled(t, mul, div):
    # mul * floordiv(X, div)
    if len(t.p) != 1:
        return False
    (mono, coef), = t.p.items()
    return coef == mul and len(mono) == 1 and mono[0] == f"floordiv(parent_stream.tell(),{div})"


def _inline_super(ctx, fn, pr, base_fn, rule):
    """value of `return super().m(a, b)` (possibly through a local) with the base method inlined"""
    node = pr.ret_node.value
    call = None
    if isinstance(node, ast.Call) and is_super_call(node):
        call = node
        env = pr.steps[-1].env
    elif isinstance(node, ast.Name):
        for s in reversed(pr.steps):
            if s.kind == "stmt" and isinstance(s.ast, ast.Assign) and any(isinstance(t, ast.Name) and t.id == node.id for t in s.ast.targets):
                if isinstance(s.ast.value, ast.Call) and is_super_call(s.ast.value):
                    call, env = s.ast.value, s.env
                break
    if call is None:
        return pr.ret
    ev = evaluator(ctx, fn, env)
    params = [a.arg for a in base_fn.args.args][1:]
    env0 = {p: ev.ev(a) for p, a in zip(params, call.args)}
    for k in call.keywords:
        env0[k.arg] = ev.ev(k.value)
    return single_return_term(ctx, base_fn, env0, rule)


def _check_super_init(ctx, init, rule, label, wants):
    prs = [p for p in run_paths(ctx, init, rule=rule) if p.end in ("fall", "return")]
    if not prs:
        raise AnalysisError(rule, where(init), "constructor has no normal path")
    cls = enclosing_class(init)
    base_init = ctx.prog.find_method(cls, "__init__", skip_self=True)
    bparams = [a.arg for a in base_init.args.args][1:] if base_init is not None else []
    for p in prs:
        found = False
        for c, env, st in calls_on(p, attr="__init__"):
            if not is_super_call(c, "__init__"):
                continue
            found = True
            ev = evaluator(ctx, init, env)
            args = {}
            for i, a in enumerate(c.args):
                if i < len(bparams):
                    args[bparams[i]] = ev.ev(a)
            for k in c.keywords:
                if k.arg is not None:
                    args[k.arg] = ev.ev(k.value)
                else:
                    # super().__init__(**kwargs) with a dict built in steps: its entries are the keywords
                    from ..core.terms import dict_parts, parse_key
                    dp_ = dict_parts(ev.ev(k.value).key())
                    if dp_ is not None and not dp_[0]:
                        for kk_, vv_ in dp_[1].items():
                            args.setdefault(kk_, parse_key(vv_))
            for name, pred in wants.items():
                t = args.get(name)
                ok = t is not None and pred(t)
                ctx.ob(rule, c, f"{label} passes the right `{name}` to its base constructor", ok,
                       "" if ok else f"`{name}` = {t.key() if t is not None else 'missing'}", inst=f"{label}.__init__:{name}")
        if not found:
            ctx.ob(rule, init, f"{label} constructor reaches its base constructor", False, "no super().__init__ call on a path", inst=f"{label}.__init__")


# ------------------------------------------------------------------------ S4
def rule_S4(ctx):
    """full rule (C08: stream semantics, including the empty request at the end of a chain)"""
    _s4(ctx, True)


def rule_S4p(ctx):
    """export-relevant part (C01/C02/C15): everything except the empty-request guard, whose absence only turns
    read(0) at the end of a chain into SectorReadError - which the transcoders treat as end of data"""
    _s4(ctx, False)


def _s4(ctx, zero_guard):
    fn = _method(ctx, SECTOR, "SectorStream", "_read", "S4")
    size = [a.arg for a in fn.args.args][1]
    prs = run_paths(ctx, fn, rule="S4")
    SL = A("self.sector_length")
    first_idx = A("floordiv(self.position,self.sector_length)")
    first_off = A("mod(self.position,self.sector_length)")
    whiles = [n for n in own_nodes(fn) if isinstance(n, (ast.While, ast.For)) and any(
        isinstance(c, ast.Call) and isinstance(c.func, ast.Attribute) and c.func.attr == "_read_sector" for c in ast.walk(n))]
    if len(whiles) != 1:
        raise AnalysisError("S4", where(fn), f"expected one middle-sector loop, found {len(whiles)}")
    loop = whiles[0]
    for_form = isinstance(loop, ast.For)
    # the remaining-size counter is the variable compared in the middle-sector loop guard (while form) / the length of the tail piece (for form)
    rem = None
    if not for_form:
        g = loop.test
        if isinstance(g, ast.Compare) and len(g.ops) == 1:
            for side in (g.left, g.comparators[0]):
                if isinstance(side, ast.Name):
                    rem = side.id
    else:
        tails_ = [c for c in own_nodes(fn) if isinstance(c, ast.Call) and isinstance(c.func, ast.Attribute) and c.func.attr == "_read_sector"
                  and not _inside(c, loop) and c.lineno > loop.lineno and len(c.args) == 3 and isinstance(c.args[2], ast.Name)]
        if len(tails_) == 1:
            rem = tails_[0].args[2].id
    # third form: one loop `while remaining > 0` whose pieces are min(remaining, sector_length) long - whole sectors while more than one
    # sector remains, then the rest - and no separate tail read
    unified = False
    if not for_form and rem is not None and not any(isinstance(c, ast.Call) and isinstance(c.func, ast.Attribute) and c.func.attr == "_read_sector"
                                                    and not _inside(c, loop) and c.lineno > loop.lineno for c in own_nodes(fn)):
        cs_ = cmp_struct(evaluator(ctx, fn, {}), loop.test)
        unified = cs_ is not None and ((cs_[0] == A(rem) and cs_[1] == ">") or (cs_[0] == A(rem) - C(1) and cs_[1] == ">="))

    def _piece(cur):
        return A("min(" + ",".join(sorted([cur.key(), SL.key()])) + ")")

    n_calls_total = 0
    for p in prs:
        calls = list(calls_on(p, attr="_read_sector"))
        if not calls:
            if p.end == "return":
                conds = path_conds_struct(ctx, fn, p)
                # decided on the one-variable linear tests over `size`: for every size >= 1 some test on the path fails
                only = [(d, op if t else NEG[op]) for d, op, t, _ in conds if d.atoms() and d.atoms() <= {size}]
                pts = list(range(1, 4097)) + [1 << 20, 1 << 40]
                bad = [k for k in pts if all(holds_at(d, op, **{size: k}) is not False for d, op in only)]
                z = not bad
                ctx.ob("S4", p.ret_node, "a path without sector access is taken only for an empty request", z,
                       "" if z else f"a return path skips all sector reads for a request of {bad[0]} byte(s)", inst=f"noaccess:{_pc(p)}")
            continue
        n_calls_total += len(calls)
        conds = path_conds_struct(ctx, fn, p)
        guarded = any(d.atoms() <= {size} and d.atoms() and holds_at(d, op if t else NEG[op], **{size: 0}) is False for d, op, t, _ in conds)
        if zero_guard:
            ctx.ob("S4", calls[0][0], "(d) every sector access is preceded by a test that excludes an empty request", guarded,
                   "" if guarded else f"path through lines {p.lines()} reaches _read_sector with size == 0 possible: addresses one sector past the chain at its end",
                   inst=f"zero-guard:{_pc(p)}")
        # (c) first piece
        c0, env0, st0 = calls[0]
        ev = evaluator(ctx, fn, env0)
        a = [ev.ev(x) for x in c0.args]
        okc = len(a) == 3 and a[0] == first_idx and a[1] == first_off
        n0 = a[2] if len(a) == 3 else None
        rest = SL - first_off
        fits = (first_off + A(size) - SL, "<=")
        minform = A("min(" + ",".join(sorted([A(size).key(), rest.key()])) + ")")
        if n0 == A(size):
            okc = okc and cond_taken(conds, *fits)
        elif n0 == rest:
            okc = okc and cond_taken(conds, fits[0], ">")
        elif n0 == minform:
            pass
        else:
            okc = False
        ctx.ob("S4", c0, "(c) first piece starts at position//sector_length, offset position%sector_length, length = size if it fits else the rest of the sector", okc,
               "" if okc else f"first _read_sector({', '.join(x.key() for x in a)}) under [{_pc(p)}]", inst=f"first:{_pc(p)}")
        # (a) accounting
        oka, det = True, ""
        if rem is None:
            oka, det = False, "no remaining-size counter (variable of the middle-sector loop guard) found"
        else:
            val = _value_before_loop(ctx, fn, p, rem, loop)
            if val is None or n0 is None or val != A(size) - n0:
                oka, det = False, f"after the first piece `{rem}` is {val.key() if val is not None else '?'}, not size - (first piece length)"
            for c, env, st in calls[1:]:
                if not _inside(c, loop):
                    e2 = evaluator(ctx, fn, env)
                    n = e2.ev(c.args[2])
                    cur = e2.ev(ast.Name(id=rem, ctx=ast.Load()))
                    if n != cur:
                        oka, det = False, f"final piece has length {n.key()}, not the remaining size `{rem}` ({cur.key()})"
        ctx.ob("S4", c0, "(a) the remaining size is (size - first piece) after the first read and the last piece takes all that remains", oka, det, inst=f"pairing:{_pc(p)}")
        okb, detb = True, ""
        for c, env, st in calls[1:]:
            e2 = evaluator(ctx, fn, env)
            aa = [e2.ev(x) for x in c.args]
            if aa[1] != C(0):
                okb, detb = False, f"_read_sector({', '.join(x.key() for x in aa)}) at line {c.lineno}: later piece does not start at offset 0"
            if _inside(c, loop) and unified:
                cur_ = e2.ev(ast.Name(id=rem, ctx=ast.Load()))
                if aa[2] != _piece(cur_):
                    okb, detb = False, f"piece length {aa[2].key()} is not min(remaining, sector_length)"
            elif _inside(c, loop) and aa[2] != SL:
                okb, detb = False, f"middle piece length {aa[2].key()} is not sector_length"
        ctx.ob("S4", c0, "(b) later pieces start at offset 0; middle pieces are whole sectors", okb, detb, inst=f"offsets:{_pc(p)}")
        if p.end == "return":
            oke = False
            for c_txt, taken, node in p.conds:
                if not taken and c_txt.startswith("-1*len(") and c_txt.endswith(f") + {size} != 0"):
                    inner = c_txt[len("-1*len("):-len(f") + {size} != 0")]
                    if p.ret is not None and inner == p.ret.key() and "SectorReadError" in raises_in(node.body):
                        oke = True
            ctx.ob("S4", p.ret_node, "(e) the bytes returned were checked to have the requested length (short sector read raises SectorReadError)", oke,
                   "" if oke else f"return at line {p.ret_node.lineno} is not dominated by `len(result) != size -> raise SectorReadError`", inst=f"lencheck:{_pc(p)}")
    if n_calls_total == 0:
        raise AnalysisError("S4", where(fn), "no _read_sector call found")
    # loop-level obligations
    cfg = ctx.cfg(fn, "S4")
    lp = cfg.loop_of(loop)
    loop_calls = [c for c in ast.walk(loop) if isinstance(c, ast.Call) and isinstance(c.func, ast.Attribute) and c.func.attr == "_read_sector"]
    tail_calls = [c for c in own_nodes(fn) if isinstance(c, ast.Call) and isinstance(c.func, ast.Attribute) and c.func.attr == "_read_sector"
                  and not _inside(c, loop) and c.lineno > loop.lineno]
    okl, det = len(loop_calls) == 1 and (len(tail_calls) == 1 or (unified and not tail_calls)), ""
    oka2, deta2 = True, ""
    if not okl:
        det = f"{len(loop_calls)} reads inside the middle-sector loop, {len(tail_calls)} tail reads"
    else:
        idx_expr = loop_calls[0].args[0]
        for path, end, lab in cfg.paths(cfg.entry, lambda s_, l_, n_: s_ == lp.head):
            if end != lp.head:
                continue
            pr0 = _walk(ctx, fn, cfg, path)
            if not any(c in loop_calls or True for c in []):
                pass
            v0 = evaluator(ctx, fn, pr0.env).ev(idx_expr)
            reads_first = any(s_.kind == "stmt" and any(isinstance(c, ast.Call) and isinstance(c.func, ast.Attribute) and c.func.attr == "_read_sector" for c in ast.walk(s_.ast)) for s_ in pr0.steps)
            if reads_first and v0 != first_idx + C(1):
                okl, det = False, f"first middle sector index is {v0.key()}, expected first + 1"
        ivar = loop.target.id if for_form and isinstance(loop.target, ast.Name) else None
        rng = None
        if for_form:
            it_ = loop.iter
            if ivar is None or not (isinstance(it_, ast.Call) and isinstance(it_.func, ast.Name) and it_.func.id == "range" and 1 <= len(it_.args) <= 2 and not it_.keywords) \
                    or loop.orelse or any(isinstance(n_, ast.Name) and n_.id == ivar and isinstance(n_.ctx, ast.Store) for st_ in loop.body for n_ in ast.walk(st_)):
                okl, det = False, "the middle-sector loop is not a plain `for i in range(a, b)` whose body leaves i alone"
            else:
                rng = (it_.args[0] if len(it_.args) == 2 else ast.Constant(value=0), it_.args[-1])
        if for_form and rng is not None:
            # the loop variable takes a, a+1, ..., b-1: the first middle sector is idx(a), each iteration moves on by idx(i+1) - idx(i)
            for path, end, lab in cfg.paths(cfg.entry, lambda s_, l_, n_: s_ == lp.head):
                if end != lp.head:
                    continue
                pr0 = _walk(ctx, fn, cfg, path)
                ev0 = evaluator(ctx, fn, {**pr0.env, ivar: evaluator(ctx, fn, pr0.env).ev(rng[0])})
                reads_first = any(s_.kind == "stmt" and any(isinstance(c, ast.Call) and isinstance(c.func, ast.Attribute) and c.func.attr == "_read_sector" for c in ast.walk(s_.ast)) for s_ in pr0.steps)
                if reads_first and ev0.ev(idx_expr) != first_idx + C(1):
                    okl, det = False, f"first middle sector index is {ev0.ev(idx_expr).key()}, expected first + 1"
                # number of middle sectors: floor((remaining - 1) / sector_length), so that 1 <= tail <= sector_length
                if rem is not None and reads_first:
                    cnt = evaluator(ctx, fn, pr0.env).ev(rng[1]) - evaluator(ctx, fn, pr0.env).ev(rng[0])
                    forms = [evaluator(ctx, fn, pr0.env).ev(ast.parse(t_, mode="eval").body) for t_ in
                             (f"max({rem} - 1, 0) // self.sector_length", f"({rem} - 1) // self.sector_length")]
                    if cnt not in forms:
                        oka2, deta2 = False, f"the loop reads {cnt.key()} middle sectors; (remaining - 1) // sector_length are needed to leave a tail of 1..sector_length bytes"
        for kind, path, edge in cfg.iteration_paths(lp):
            if kind != "back":
                continue
            pr1 = _walk(ctx, fn, cfg, path)
            env_in = pr1.steps[1].env if len(pr1.steps) > 1 else pr1.steps[0].env
            before = evaluator(ctx, fn, env_in).ev(idx_expr)
            after = evaluator(ctx, fn, pr1.env).ev(idx_expr)
            if for_form and ivar is not None:
                after = evaluator(ctx, fn, {**pr1.env, ivar: Term.atom(ivar + "~") + C(1)}).ev(idx_expr)
            ncalls = sum(1 for s_ in pr1.steps if s_.kind == "stmt" for c in ast.walk(s_.ast) if c in loop_calls)
            if after - before != C(1) or ncalls != 1:
                okl, det = False, f"an iteration moves the sector index by {(after - before).key()} and performs {ncalls} sector read(s)"
            if rem is not None:
                rb = evaluator(ctx, fn, env_in).ev(ast.Name(id=rem, ctx=ast.Load()))
                ra = evaluator(ctx, fn, pr1.env).ev(ast.Name(id=rem, ctx=ast.Load()))
                if rb - ra != (_piece(rb) if unified else SL):
                    oka2, deta2 = False, f"an iteration reads {'min(remaining, sector_length) bytes' if unified else 'a whole sector'} but changes `{rem}` by {(ra - rb).key()}"
        for p in prs:
            for c, env, st in calls_on(p, attr="_read_sector"):
                if tail_calls and c is tail_calls[0]:
                    e2 = evaluator(ctx, fn, env)
                    if not for_form:
                        if e2.ev(c.args[0]) != e2.ev(idx_expr):
                            okl, det = False, f"tail piece reads sector {e2.ev(c.args[0]).key()}, the running index is {e2.ev(idx_expr).key()}"
                    elif ivar is not None and rng is not None:
                        # after a `for`, i is the LAST value it took (b - 1); when the loop did not run it is what it was before and the
                        # range was empty (count = 0).  The tail piece must read the next unread sector.
                        entered = any(s_.kind == "for" and s_.ast is loop and s_.label == "true" for s_ in p.steps)
                        head_env = next((s_.env for s_ in p.steps if s_.kind == "for" and s_.ast is loop), None)
                        if head_env is None:
                            continue
                        a_t, b_t = evaluator(ctx, fn, head_env).ev(rng[0]), evaluator(ctx, fn, head_env).ev(rng[1])
                        if entered:
                            env2 = {**env, ivar: b_t - C(1)}
                            got = evaluator(ctx, fn, env2).ev(c.args[0]).subst({ivar + "~": b_t - C(1)})
                            want_t = evaluator(ctx, fn, env2).ev(idx_expr).subst({ivar + "~": b_t - C(1)}) + C(1)
                            if got != want_t:
                                okl, det = False, (f"tail piece reads sector {got.key()}, but after the loop `{ivar}` is the number of the last middle sector: "
                                                   f"the next unread sector is {want_t.key()}")
                        else:
                            pre = _value_before_loop(ctx, fn, p, ivar, loop)
                            cnt_t = b_t - a_t
                            zero = {}
                            if len(cnt_t.p) == 1 and list(cnt_t.p.values())[0] == 1 and len(list(cnt_t.p)[0]) == 1:
                                zero = {list(cnt_t.p)[0][0]: C(0)}
                            env2 = dict(env)
                            if pre is not None:
                                env2[ivar] = pre
                            else:
                                env2.pop(ivar, None)
                            raw = evaluator(ctx, fn, env).ev(c.args[0])
                            uses_i = any(isinstance(n_, ast.Name) and n_.id == ivar for n_ in ast.walk(c.args[0])) or (ivar + "~") in raw.atoms()
                            if uses_i and pre is None:
                                okl, det = False, f"`{ivar}` is unbound after a loop that did not run"
                                continue
                            got = evaluator(ctx, fn, env2).ev(c.args[0])
                            if pre is not None:
                                got = got.subst({ivar + "~": pre})
                            got = got.subst(zero)
                            if got != first_idx + C(1):
                                okl, det = False, f"with no middle sector the tail piece reads sector {got.key()}, not first + 1"
    ctx.ob("S4", loop, "(b) sector indices: first middle sector = first+1, +1 per sector read, the tail piece continues with the same running index", okl, det, inst="index-progression")
    ctx.ob("S4", loop, "(a) every middle sector read is deducted from the remaining size", oka2, deta2, inst="loop-accounting")
    rs = _method(ctx, SECTOR, "SectorStream", "_read_sector", "S4")
    prs2 = run_paths(ctx, rs, rule="S4")
    pr = [a.arg for a in rs.args.args][1:]
    ok = any(p.end == "raise" and p.raised and p.raised.endswith("AttemptToReadBeyondBuffer") and
             cond_taken(path_conds_struct(ctx, rs, p), A(pr[1]) + A(pr[2]) - SL, ">") for p in prs2)
    ctx.ob("S4", rs, "a piece never extends past its sector (offset + size > sector_length raises)", ok, "", inst="piece-bound")


def _value_before_loop(ctx, fn, p, name, loop):
    """value of local `name` when the path first reaches the loop head (before havoc), or at the end of the
    straight-line prefix if the path never reaches it"""
    val = None
    for s in p.steps:
        if s.kind in ("test", "for") and s.ast is loop:
            break
        if s.kind == "stmt" and isinstance(s.ast, (ast.Assign, ast.AugAssign)):
            tgts = s.ast.targets if isinstance(s.ast, ast.Assign) else [s.ast.target]
            if any(isinstance(t, ast.Name) and t.id == name for t in tgts):
                ev = evaluator(ctx, fn, s.env)
                if isinstance(s.ast, ast.Assign):
                    val = ev.ev(s.ast.value)
                else:
                    val = ev.ev(ast.BinOp(left=s.ast.target, op=s.ast.op, right=s.ast.value))
    return val


def _events(ctx, fn, p, size):
    """ordered events on a path: ('call', n_term, node) | ('sub', var, amount, old value)"""
    out = []
    for s in p.steps:
        if s.kind not in ("stmt", "return"):
            continue
        ev = evaluator(ctx, fn, s.env)
        for c in ast.walk(s.ast):
            if isinstance(c, ast.Call) and isinstance(c.func, ast.Attribute) and c.func.attr == "_read_sector" and len(c.args) == 3:
                out.append(("call", ev.ev(c.args[2]), c))
        if isinstance(s.ast, ast.AugAssign) and isinstance(s.ast.op, ast.Sub) and isinstance(s.ast.target, ast.Name):
            out.append(("sub", s.ast.target.id, ev.ev(s.ast.value), ev.ev(s.ast.target)))
        elif isinstance(s.ast, ast.Assign) and len(s.ast.targets) == 1 and isinstance(s.ast.targets[0], ast.Name):
            t = s.ast.targets[0].id
            if t in s.env:
                old = ev.ev(s.ast.targets[0])
                new = ev.ev(s.ast.value)
                d = old - new
                if old != new and not (t in {a for a in new.atoms()}):
                    # x = x - k written out
                    e2 = Evaluator(env={**s.env, t: Term.atom("@old")}, const_of=ev.const_of)
                    nd = Term.atom("@old") - e2.ev(s.ast.value)
                    if "@old" not in nd.atoms():
                        out.append(("sub", t, nd, old))
    return out


def _pairing(evs, size_term=None):
    subs = [e for e in evs if e[0] == "sub"]
    calls = [e for e in evs if e[0] == "call"]
    if not subs:
        if len(calls) == 1:
            return False, "the piece read is never deducted from a remaining-size counter"
        return False, "no remaining-size counter is maintained"
    rem = subs[0][1]
    if size_term is not None and subs[0][3] != size_term:
        return False, f"remaining-size counter `{rem}` does not start at the requested size (is {subs[0][3].key()} at its first deduction)"
    pending = None
    for e in evs:
        if e[0] == "call":
            if pending is not None:
                return False, f"piece of length {pending.key()} is not deducted from `{rem}` before the next read"
            pending = e[1]
        elif e[0] == "sub" and e[1] == rem:
            if pending is None or e[2] != pending:
                return False, f"`{rem} -= {e[2].key()}` does not match the piece just read ({pending.key() if pending is not None else 'none'})"
            pending = None
    if pending is not None:
        want = {Term.atom(rem), Term.atom(rem + "~")}
        if pending not in want:
            return False, f"final piece has length {pending.key()}, not the remaining size `{rem}`"
    return True, ""


# ------------------------------------------------------------------------ S5
def _commit_after(ctx, fn, callee, label, inst):
    """on every path of fn the logical cursor (self.position) is stored only after the call of `self.<callee>` - the underlying
    operation can refuse (BadAlign, SectorReadError) and must then leave the cursor where it was"""
    ok, det, n = True, "", 0
    for p in run_paths(ctx, fn, rule="S5"):
        idx_call = [i for i, s_ in enumerate(p.steps) if s_.kind in ("stmt", "return") and s_.ast is not None and any(
            isinstance(c, ast.Call) and dotted(c.func) == f"self.{callee}" for c in ast.walk(s_.ast))]
        idx_store = [i for i, s_ in enumerate(p.steps) if s_.kind == "stmt" and isinstance(s_.ast, (ast.Assign, ast.AugAssign, ast.AnnAssign)) and any(
            dotted(t) == "self.position" for t in (s_.ast.targets if isinstance(s_.ast, ast.Assign) else [s_.ast.target]))]
        if not idx_call:
            continue
        n += 1
        # stores on paths that re-sync first (read: `_seek(self.position)`) are judged against the LAST such call
        if any(i < max(idx_call) for i in idx_store):
            ok, det = False, f"self.position is stored before self.{callee}(...) has succeeded: a refused operation leaves the cursor moved"
    ctx.ob("S5", fn, label, ok and n >= 1, det, inst=inst)


# (class, method) pairs that re-define an inherited method and are covered by S3 / S4 / S6 / S7 obligations of their own
S5_CONFIRMED_OVERRIDES = {
    ("StreamOffset", "__init__"), ("StreamOffset", "_translate_addr"),
    ("StreamReversed", "__init__"), ("StreamReversed", "_translate_addr"), ("StreamReversed", "_read"),
    ("SectorStream", "__init__"), ("SectorStream", "_read"),
    ("FileStream", "__init__"), ("FileStream", "_get_address_given_sector_index"),
    ("MdfStream", "__init__"), ("MdfStream", "_get_address_given_sector_index"),
    ("Segment", "__init__"), ("RolandFile", "__init__"),
}


def rule_S5(ctx):
    _s5(ctx, False)


def rule_S5z(ctx):
    """termination (C13): a view whose declared size is zero or negative (a damaged header can say so) reads as empty - the request is
    clipped whenever the view has an end at all, not only when that end is positive; otherwise a read-until-empty loop over such a view
    (a reversed Roland sample whose end lies before its start) never sees an empty block"""
    before = len(ctx.obs)
    _s5(ctx, True)
    keep = [o for o in ctx.obs[before:] if o.inst.startswith(("clip:", "clip-exists"))]
    for o in keep:
        o.rule = "S5z"
    ctx.obs[before:] = keep


def _s5(ctx, strict):
    read = _method(ctx, STREAM, "StreamWrapper", "read", "S5")
    _commit_after(ctx, _method(ctx, STREAM, "StreamWrapper", "seek", "S5"), "_seek", "seek moves the cursor only after the underlying seek was accepted", "seek-commit-order")
    _commit_after(ctx, read, "_read", "read advances the cursor only after the underlying read returned", "read-commit-order")
    size = [a.arg for a in read.args.args][1]
    prs = [p for p in run_paths(ctx, read, rule="S5") if p.end == "return"]
    if not prs:
        raise AnalysisError("S5", where(read), "no return path")
    POS, EOF, SZ = A("self.position"), A("self.end_of_file"), A(size)
    clip = A("min(" + ",".join(sorted([(EOF - POS).key(), SZ.key()])) + ")")
    n_clip = 0
    for p in prs:
        r = p.ret
        if r is not None and r == A("self.readall()"):
            ok = any(t and ("Is(" + size + ",None)" in c or f"{size} < 0" in c) for c, t, _ in p.conds)
            ctx.ob("S5", p.ret_node, "read(None) / read(<0) delegates to readall", ok, "", inst="readall-branch")
            continue
        # which A was read?
        reads = list(calls_on(p, attr="_read"))
        reads = [x for x in reads if dotted(x[0].func) == "self._read"]
        ok = len(reads) == 1
        amount = None
        if ok:
            c, env, st = reads[0]
            amount = evaluator(ctx, read, env).ev(c.args[0])
        # does the view have an end on this path?  (`end_of_file is not None`; None = a view of unknown length, read through unclipped)
        from .util import atomic_facts as _af5
        facts5 = dict(_af5(p))
        has_end = facts5.get("IsNot(self.end_of_file,None)")
        if has_end is None and "Is(self.end_of_file,None)" in facts5:
            has_end = not facts5["Is(self.end_of_file,None)"]
        eof_pos = has_end is True or any(t and "self.end_of_file > 0" in c for c, t, _ in p.conds)
        conds = path_conds_struct(ctx, read, p)
        clamp = lambda t: A("max(" + ",".join(sorted(["0", t.key()])) + ")")  # noqa: E731
        if ok and strict and has_end is None:
            ok = False  # the view may have an end (zero, negative) and the request is not compared with it on this path
        if ok and eof_pos:
            if amount == clip or amount == clamp(clip):
                n_clip += 1
            elif amount == C(0):
                ok = cond_taken(conds, clip, "<")
            else:
                ok = False
        elif ok:
            ok = amount in (SZ, C(0), clamp(SZ))
        ctx.ob("S5", p.ret_node, "the amount read is min(end_of_file - position, size) (0 when that is negative)", bool(ok),
               "" if ok else f"amount read on [{_pc(p)}] is {amount.key() if amount is not None else '?'}", inst=f"clip:{_pc(p)}")
        if amount is not None:
            adv = p.env.get("self.position", POS) - POS
            ok2 = adv == amount
            ctx.ob("S5", p.ret_node, "position advances by exactly the amount read", ok2,
                   "" if ok2 else f"position changes by {adv.key()} while {amount.key()} bytes are requested from the lower layer", inst=f"advance:{_pc(p)}")
            ok3 = p.env.get("self.true_size") == amount
            ctx.ob("S5", p.ret_node, "true_size (used by the translators) equals the amount read", ok3, "", inst=f"true_size:{_pc(p)}")
            # returned bytes are the lower layer's bytes
            ok4 = p.ret is not None and p.ret == A(f"self._read({amount.key()})")
            ctx.ob("S5", p.ret_node, "read returns exactly what _read returned", ok4, "" if ok4 else f"returns {p.ret.key() if p.ret is not None else None}", inst=f"ret:{_pc(p)}")
    if n_clip == 0:
        ctx.ob("S5", read, "some path clips the request to the logical end", False, "no path reads min(end_of_file - position, size)", inst="clip-exists")
    # seek
    seek = _method(ctx, STREAM, "StreamWrapper", "seek", "S5")
    sp = [a.arg for a in seek.args.args][1:]
    off, wh = A(sp[0]), sp[1]
    default = seek.args.defaults[-1] if seek.args.defaults else None
    prs = [p for p in run_paths(ctx, seek, rule="S5") if p.end == "return"]
    seen_base = set()
    for p in prs:
        cur = any(t and c == f"-1*SEEK_CUR + {wh} == 0" for c, t, _ in p.conds)
        end = any(t and c == f"-1*SEEK_END + {wh} == 0" for c, t, _ in p.conds)
        notcur = any((not t) and c == f"-1*SEEK_CUR + {wh} == 0" for c, t, _ in p.conds)
        notend = any((not t) and c == f"-1*SEEK_END + {wh} == 0" for c, t, _ in p.conds)
        if cur:
            base = POS
        elif end and notcur:
            base = EOF
        elif notcur and notend:
            base = C(0)
        else:
            base = None
        tgt = (base + off) if base is not None else None
        conds = path_conds_struct(ctx, seek, p)
        newpos = p.env.get("self.position")
        ok = tgt is not None and newpos is not None
        det = ""
        if ok:
            seen_base.add(base.key())
            if newpos == EOF:
                ok = cond_taken(conds, tgt - EOF, ">") or cond_taken(conds, tgt - EOF, ">=")
            elif newpos == C(0) and tgt != C(0):
                ok = cond_taken(conds, tgt, "<") or cond_taken(conds, tgt, "<=")
            elif newpos == tgt:
                ok = (cond_taken(conds, tgt - EOF, "<=") or cond_taken(conds, tgt - EOF, "<")) and \
                     (cond_taken(conds, tgt, ">=") or cond_taken(conds, tgt, ">"))
            elif newpos.key().startswith(("min(", "max(")):
                k = newpos.key()
                mx = "max(" + ",".join(sorted(["0", tgt.key()])) + ")"
                mn = "min(" + ",".join(sorted([EOF.key(), tgt.key()])) + ")"
                both = (f"max({','.join(sorted(['0', mn]))})", f"min({','.join(sorted([EOF.key(), mx]))})")
                if k in both:
                    ok = True
                elif k == mx:   # lower clamp by max(); the upper side must have been excluded by a test
                    ok = cond_taken(conds, tgt - EOF, "<=") or cond_taken(conds, tgt - EOF, "<")
                elif k == mn:   # upper clamp by min(); the lower side must have been excluded by a test
                    ok = cond_taken(conds, tgt, ">=") or cond_taken(conds, tgt, ">")
                else:
                    ok = False
            else:
                ok = False
            det = "" if ok else f"new position {newpos.key()} under [{_pc(p)}] is not clamp(base+offset, 0, end_of_file)"
        else:
            det = f"whence dispatch not recognised on [{_pc(p)}]"
        ctx.ob("S5", p.ret_node, "seek stores clamp(base(whence) + offset, 0, end_of_file)", bool(ok), det, inst=f"seek:{_pc(p)}")
        ok2 = p.ret is not None and newpos is not None and p.ret == newpos
        seeks = [x for x in calls_on(p, attr="_seek")]
        ok3 = len(seeks) == 1 and newpos is not None and evaluator(ctx, seek, seeks[0][1]).ev(seeks[0][0].args[0]) == newpos
        ctx.ob("S5", p.ret_node, "seek returns the stored position and moves the lower layer to it", bool(ok2 and ok3), "", inst=f"seek-ret:{_pc(p)}")
    ok = seen_base == {POS.key(), EOF.key(), "0"}
    ctx.ob("S5", seek, "the three whence bases (0, position, end_of_file) are all dispatched", ok, f"bases seen: {sorted(seen_base)}", inst="whence-bases")
    okd = default is not None
    ctx.ob("S5", seek, "seek has a default whence", okd, "", inst="whence-default")
    tell = _method(ctx, STREAM, "StreamWrapper", "tell", "S5")
    t = single_return_term(ctx, tell, {}, "S5")
    ctx.ob("S5", tell, "tell returns the logical position", t == POS, f"returns {t.key() if t else None}", inst="tell")
    # who-overrides
    base = ctx.prog.klass(STREAM, "StreamWrapper", "S5")
    subs = ctx.prog.subclasses_of(base)
    ctx.fact("S5", "stream_subclasses", sorted(c.name for c in subs))
    for c in subs:
        bad = [st.name for st in c.body if isinstance(st, ast.FunctionDef) and st.name in ("read", "seek", "tell", "readall", "_seek")]
        ctx.ob("S5", c, f"{c.name} does not override read/seek/tell/readall/_seek (base-class obligations apply to it)", not bad,
               "" if not bad else f"overrides {bad}", inst=f"overrides:{c.name}")
        # every other override of an inherited method is one whose behaviour the S3/S4/S6/S7 obligations describe
        anc = [k for k in ctx.prog.mro(c)[1:]]
        inherited = {st.name for k in anc for st in k.body if isinstance(st, ast.FunctionDef)}
        extra = [st.name for st in c.body if isinstance(st, ast.FunctionDef) and st.name in inherited and (c.name, st.name) not in S5_CONFIRMED_OVERRIDES
                 and st.name not in ("read", "seek", "tell", "readall", "_seek")]
        ctx.ob("S5", c, f"{c.name} overrides only the methods whose obligations are stated", not extra,
               "" if not extra else f"{c.name} also overrides {extra}: the base-class obligations (addressing, split accounting, re-sync, short-read detection) no longer describe what it reads",
               inst=f"confirmed-overrides:{c.name}")
    # constructor initial state
    init = _method(ctx, STREAM, "StreamWrapper", "__init__", "S5")
    prs = [p for p in run_paths(ctx, init, rule="S5") if p.end in ("fall", "return")]
    ip = [a.arg for a in init.args.args][1:]
    ok = all(p.env.get("self.end_of_file") == A(ip[1]) and p.env.get("self.position") == A(ip[2]) and p.env.get("self.substream") == A(ip[0]) for p in prs)
    ctx.ob("S5", init, "constructor stores substream, size -> end_of_file, position", ok, "", inst="init")


# ------------------------------------------------------------------------ S6
def rule_S6(ctx):
    """every read of an underlying stream re-establishes that stream's cursor first"""
    read = _method(ctx, STREAM, "StreamWrapper", "read", "S6")
    prs = [p for p in run_paths(ctx, read, rule="S6") if p.end == "return"]
    n = 0
    for p in prs:
        reads = [x for x in calls_on(p, attr="_read") if dotted(x[0].func) == "self._read"]
        for c, env, st in reads:
            n += 1
            pos_at_read = evaluator(ctx, read, env).ev(ast.parse("self.position", mode="eval").body)
            ok, det = False, "no comparison of the substream cursor with the expected address, and no unconditional re-seek"
            idx_read = p.steps.index(st)
            seeks = [(cc, e, s) for cc, e, s in calls_on(p, attr="_seek") if p.steps.index(s) < idx_read]
            for i, s in enumerate(p.steps[:idx_read]):
                if s.kind == "test" and s.label in ("true", "false"):
                    cs = cmp_struct(evaluator(ctx, read, s.env), s.ast.test)
                    if cs is None:
                        continue
                    d, op = cs
                    want = A("self._translate_addr(self.position)") - A("self.substream.tell()")
                    if op in ("!=", "==") and (d == want or d == -want):
                        differs = (s.label == "true") == (op == "!=")
                        if not differs:
                            ok, det = True, ""
                        else:
                            later = [x for x in seeks if p.steps.index(x[2]) > i]
                            if later and evaluator(ctx, read, later[-1][1]).ev(later[-1][0].args[0]) == pos_at_read:
                                ok, det = True, ""
                            else:
                                det = "cursor mismatch detected but no `_seek(position)` follows before the read"
            if not ok and seeks and evaluator(ctx, read, seeks[-1][1]).ev(seeks[-1][0].args[0]) == pos_at_read:
                # unconditional re-seek
                ok, det = True, ""
            # the expected address must be computed after true_size is final (StreamReversed depends on it)
            ctx.ob("S6", c, "StreamWrapper.read re-syncs the shared substream cursor with this view's position before reading", ok,
                   det if not ok else "", inst=f"read:{_pc(p)}")
    if n == 0:
        raise AnalysisError("S6", where(read), "no self._read call found")
    # ordering: the tell/translate comparison happens after true_size was fixed
    for p in prs:
        ts_idx = [i for i, s in enumerate(p.steps) if s.kind == "stmt" and isinstance(s.ast, ast.Assign) and dotted(s.ast.targets[0]) == "self.true_size"]
        tr_idx = [i for i, s in enumerate(p.steps) if s.kind == "stmt" and any(isinstance(c, ast.Call) and dotted(c.func) == "self._translate_addr" for c in ast.walk(s.ast))]
        if tr_idx and ts_idx:
            ok = max(ts_idx) < min(tr_idx)
            ctx.ob("S6", p.ret_node, "the expected address is translated after true_size is final (reversed views translate by true_size)", ok,
                   "" if ok else "true_size is assigned after the address translation", inst=f"order:{_pc(p)}")
    # _seek
    sk = _method(ctx, STREAM, "StreamWrapper", "_seek", "S6")
    for p in [p for p in run_paths(ctx, sk, rule="S6") if p.end == "return"]:
        cs = [x for x in calls_on(p, attr="seek") if dotted(x[0].func) == "self.substream.seek"]
        ok = len(cs) == 1
        if ok:
            ev = evaluator(ctx, sk, cs[0][1])
            a = [ev.ev(x) for x in cs[0][0].args]
            ok = len(a) == 2 and a[0] == A(f"self._translate_addr({sk.args.args[1].arg})") and a[1] in (A("SEEK_SET"), C(0))
        ctx.ob("S6", sk, "_seek positions the substream absolutely at the translated address", ok, "", inst="_seek")
    # SectorStream._read_sector
    rs = _method(ctx, SECTOR, "SectorStream", "_read_sector", "S6")
    rp = [a.arg for a in rs.args.args][1:]
    for p in [p for p in run_paths(ctx, rs, rule="S6") if p.end == "return"]:
        subs = [(c, e, s) for c, e, s in calls_on(p) if (rdotted(c, e) or "").startswith("self.substream.")]
        reads = [i for i, x in enumerate(subs) if rdotted(x[0], x[1]) == "self.substream.read"]
        for i in reads:
            ok = i > 0 and rdotted(subs[i - 1][0], subs[i - 1][1]) == "self.substream.seek"
            det = "the substream read is not immediately preceded by a substream seek"
            if ok:
                ev = evaluator(ctx, rs, subs[i - 1][1])
                a = [ev.ev(x) for x in subs[i - 1][0].args]
                want = A(f"self._get_address_given_sector_index({rp[0]},{rp[1]})")
                ok = len(a) == 2 and a[0] == want and a[1] in (A("SEEK_SET"), C(0))
                det = "" if ok else f"seek({', '.join(x.key() for x in a)}) is not an absolute seek to the sector address"
                ev2 = evaluator(ctx, rs, subs[i][1])
                n_ok = ev2.ev(subs[i][0].args[0]) == A(rp[2])
                ok = ok and n_ok
            ctx.ob("S6", subs[i][0], "SectorStream reads a sector piece only right after an absolute seek to its address", ok, "" if ok else det, inst="read_sector")
        if reads:
            # what _read_sector hands back is what the medium returned for this very request (no remembered bytes): a short
            # medium read therefore reaches the caller's length check
            want_ret = evaluator(ctx, rs, subs[reads[-1]][1]).ev(subs[reads[-1]][0]).key()
            okr = p.ret is not None and p.ret.key() == want_ret
            ctx.ob("S6", p.ret_node, "_read_sector returns exactly the bytes the substream returned for this request", okr,
                   "" if okr else f"returns `{p.ret.key()[:120] if p.ret is not None else None}`", inst="read_sector-returns")
        if not reads:
            ctx.ob("S6", rs, "SectorStream._read_sector reads the substream", False, "no substream read on a return path", inst="read_sector")
    # who may call the raw readers
    callers = {}
    for m, q, f in ctx.prog.all_functions():
        for node in own_nodes(f):
            if isinstance(node, ast.Call) and isinstance(node.func, ast.Attribute) and node.func.attr in ("_read", "_read_sector"):
                callers.setdefault(node.func.attr, []).append((f"{m.path}:{q}", node))
    allowed = {"_read": {f"{STREAM}:StreamWrapper.read", f"{STREAM}:StreamReversed._read"},
               "_read_sector": {f"{SECTOR}:SectorStream._read"}}
    for name, lst in callers.items():
        for who, node in lst:
            ok = who in allowed[name]
            ctx.ob("S6", node, f"raw reader `{name}` is called only from the layer that re-syncs the cursor", ok,
                   "" if ok else f"called from {who}", inst=f"who-calls:{name}:{who}")
    # raw base reader
    br = _method(ctx, STREAM, "StreamWrapper", "_read", "S6")
    t = single_return_term(ctx, br, {}, "S6")
    ok = t == A(f"self.substream.read({br.args.args[1].arg})")
    ctx.ob("S6", br, "StreamWrapper._read reads exactly `size` bytes from the substream", ok, f"{t.key() if t else None}", inst="base-_read")


# ------------------------------------------------------------------------ S7
def rule_S7(ctx):
    so = _method(ctx, STREAM, "StreamOffset", "_translate_addr", "S7")
    a = so.args.args[1].arg
    t = single_return_term(ctx, so, {}, "S7")
    ok = t == A("self.offset") + A(a)
    ctx.ob("S7", so, "StreamOffset translates address -> offset + address on every path", ok, f"returns {t.key() if t else 'differing terms'}", inst="offset")
    init = _method(ctx, STREAM, "StreamOffset", "__init__", "S7")
    prs = [p for p in run_paths(ctx, init, rule="S7") if p.end in ("fall", "return")]
    ok = bool(prs) and all(p.env.get("self.offset") == A("offset") for p in prs)
    ctx.ob("S7", init, "StreamOffset stores the offset it was given", ok, "", inst="offset-init")
    _check_super_init(ctx, init, "S7", "StreamOffset", {"size": lambda t: t == A("size")})
    sr = _method(ctx, STREAM, "StreamReversed", "_translate_addr", "S7")
    a = sr.args.args[1].arg
    TS, SW, EOF = A("self.true_size"), "self.sample_width", A("self.end_of_file")
    prs = run_paths(ctx, sr, rule="S7")
    want = EOF - A(a) - TS
    got_size = got_align = False
    for p in prs:
        if p.end == "raise" and (p.raised or "").endswith("BadReadSize"):
            got_size = any(t and c == f"mod(self.true_size,{SW}) != 0" for c, t, _ in p.conds)
        if p.end == "raise" and (p.raised or "").endswith("BadAlign"):
            got_align = any(t and c == f"mod({want.key()},{SW}) != 0" for c, t, _ in p.conds)
        if p.end == "return":
            ok = p.ret == want and any((not t) and c == f"mod(self.true_size,{SW}) != 0" for c, t, _ in p.conds) \
                and any((not t) and c == f"mod({want.key()},{SW}) != 0" for c, t, _ in p.conds)
            ctx.ob("S7", p.ret_node, "reversed view maps address -> end_of_file - (address + true_size), only for aligned size and position", ok,
                   "" if ok else f"returns {p.ret.key() if p.ret else None} under [{_pc(p)}]", inst=f"reversed:{_pc(p)}")
    ctx.ob("S7", sr, "unaligned read size raises BadReadSize", got_size, "", inst="BadReadSize")
    ctx.ob("S7", sr, "unaligned position raises BadAlign", got_align, "", inst="BadAlign")
    rr = _method(ctx, STREAM, "StreamReversed", "_read", "S7")
    sz = rr.args.args[1].arg
    prs = [p for p in run_paths(ctx, rr, rule="S7") if p.end == "return"]
    from .sem import path_return_ast
    for p in prs:
        # the returned value as one expression (locals substituted), read as a pipeline of array operations whatever the spelling:
        # np.flip(a, 0) / np.flipud(a) / a[::-1]; a.flatten() / a.ravel() / a.reshape(-1); np.reshape(a, s) / a.reshape(s)
        e = path_return_ast(p)
        ops, det, ok = [], [], True
        ev0 = evaluator(ctx, rr, {})

        def is_np(f, name):
            return isinstance(f, ast.Attribute) and f.attr == name and isinstance(f.value, ast.Name) and f.value.id in ("np", "numpy")

        cur = e
        for _ in range(12):
            if cur is None:
                break
            if isinstance(cur, ast.Call):
                f = cur.func
                kws = {k.arg: k.value for k in cur.keywords if k.arg}
                if isinstance(f, ast.Attribute) and f.attr == "tobytes" and len(cur.args) <= 1:
                    o = kws.get("order", cur.args[0] if cur.args else None)
                    ops.append(("tobytes", None if o is None else (o.value if isinstance(o, ast.Constant) else "?")))
                    cur = f.value
                    continue
                if isinstance(f, ast.Name) and f.id == "bytes" and len(cur.args) == 1 and not kws:
                    ops.append(("tobytes",))
                    cur = cur.args[0]
                    continue
                if isinstance(f, ast.Attribute) and f.attr in ("flatten", "ravel") and not is_np(f, f.attr):
                    o = kws.get("order", cur.args[0] if cur.args else None)
                    ops.append(("flat", None if o is None else (o.value if isinstance(o, ast.Constant) else "?")))
                    cur = f.value
                    continue
                if is_np(f, "ravel") and cur.args:
                    o = kws.get("order", cur.args[1] if len(cur.args) > 1 else None)
                    ops.append(("flat", None if o is None else (o.value if isinstance(o, ast.Constant) else "?")))
                    cur = cur.args[0]
                    continue
                if (isinstance(f, ast.Attribute) and f.attr == "reshape") :
                    if is_np(f, "reshape"):
                        arr, shape = cur.args[0], (cur.args[1] if len(cur.args) > 1 else kws.get("newshape", kws.get("shape")))
                        shape_args = [shape]
                    else:
                        arr, shape_args = f.value, list(cur.args)
                    sk = [ev0.ev(x).key() for x in shape_args if x is not None]
                    if sk in (["-1"], ["tuple(-1)"], ["[-1]"]):
                        ops.append(("flat", kws.get("order").value if isinstance(kws.get("order"), ast.Constant) else None))
                    else:
                        ops.append(("reshape", ",".join(sk)))
                    cur = arr
                    continue
                if is_np(f, "flipud") and len(cur.args) == 1:
                    ops.append(("flip", 0))
                    cur = cur.args[0]
                    continue
                if is_np(f, "flip") and cur.args:
                    ax = kws.get("axis", cur.args[1] if len(cur.args) > 1 else None)
                    ops.append(("flip", ax.value if isinstance(ax, ast.Constant) else "?"))
                    cur = cur.args[0]
                    continue
                if is_np(f, "frombuffer") and cur.args:
                    dt = kws.get("dtype", cur.args[1] if len(cur.args) > 1 else None)
                    ops.append(("frombuffer", norm(dt) if dt is not None else "float"))
                    cur = cur.args[0]
                    continue
                if is_super_call(cur, "_read"):
                    ops.append(("read", ev0.ev(cur.args[0]).key() if cur.args else "?"))
                    cur = None
                    continue
            if isinstance(cur, ast.Subscript):
                sl = cur.slice
                first = sl.elts[0] if isinstance(sl, ast.Tuple) and sl.elts else sl
                rest = sl.elts[1:] if isinstance(sl, ast.Tuple) else []
                full_ = lambda x: isinstance(x, ast.Slice) and x.lower is None and x.upper is None and (x.step is None or (isinstance(x.step, ast.Constant) and x.step.value == 1))  # noqa: E731
                if isinstance(first, ast.Slice) and first.lower is None and first.upper is None and isinstance(first.step, ast.UnaryOp) and isinstance(first.step.op, ast.USub) \
                        and isinstance(first.step.operand, ast.Constant) and first.step.operand.value == 1 and all(full_(x) for x in rest):
                    ops.append(("flip", 0))
                    cur = cur.value
                    continue
            ops.append(("?", norm(cur)[:60]))
            break
        ops.reverse()
        if [o[0] for o in ops] == ["read", "frombuffer", "reshape", "flip", "tobytes"]:
            # tobytes() of the two-dimensional array lays the rows out one after the other itself (C order unless told otherwise)
            ops.insert(4, ("flat", ops[4][1] if len(ops[4]) > 1 else None))
        kinds = [o[0] for o in ops]
        if kinds != ["read", "frombuffer", "reshape", "flip", "flat", "tobytes"]:
            ok = False
            det.append(f"pipeline is {kinds}")
        else:
            rd, fb, rs, fl, ft, tb = ops
            if rd[1] != sz:
                ok = False
                det.append("does not read exactly `size` bytes through the base reader")
            if not any(t in fb[1] for t in ("int8", "uint8", "'b'", "'B'", "byte")):
                ok = False
                det.append(f"bytes are reinterpreted as {fb[1]}, not single bytes")
            if rs[1] not in (f"[floordiv({sz},self.sample_width),self.sample_width]", f"tuple(floordiv({sz},self.sample_width),self.sample_width)",
                             "tuple(-1,self.sample_width)", "[-1,self.sample_width]", f"floordiv({sz},self.sample_width),self.sample_width", "-1,self.sample_width"):
                ok = False
                det.append(f"reshape to {rs[1]} is not rows of sample_width bytes")
            if fl[1] != 0:
                ok = False
                det.append("flip is not along axis 0 (sample order)")
            if ft[1] not in (None, "C") or (len(tb) > 1 and tb[1] not in (None, "C")):
                ok = False
                det.append("flatten order is not row-major")
        ctx.ob("S7", rr, "reversed read = base read of `size` bytes, reshaped to sample_width-byte rows, rows flipped, flattened row-major", ok, "; ".join(det), inst="reversed-read")
    ri = _method(ctx, STREAM, "StreamReversed", "__init__", "S7")
    prs = [p for p in run_paths(ctx, ri, rule="S7") if p.end in ("fall", "return")]
    ok = bool(prs) and all(p.env.get("self.sample_width") == A("sample_width") for p in prs)
    ctx.ob("S7", ri, "StreamReversed stores the sample width it was given", ok, "", inst="reversed-init")


# ------------------------------------------------------------------------ S8
S8_EXCEPTIONS = {
    # (path, qualname, normalised return) -> reason
    ("smpl_extract/akai/file_entry.py", "FileEntriesAdapter._parse.is_table_end", "return True"):
        "after StreamError the table scan stops (the caller breaks); the stream is re-positioned by nobody because nothing reads it afterwards",
}


def rule_S8(ctx):
    """a function that saves tell() of a borrowed stream and then moves it restores it on every normal exit"""
    n = 0
    for m, q, fn in sorted(ctx.prog.all_functions(), key=lambda x: (x[0].path, x[2].lineno)):
        params = {a.arg for a in fn.args.args} - {"self", "cls"}
        saves = {}
        for node in own_nodes(fn):
            if isinstance(node, ast.Assign) and len(node.targets) == 1 and isinstance(node.targets[0], ast.Name) and isinstance(node.value, ast.Call) \
                    and isinstance(node.value.func, ast.Attribute) and node.value.func.attr == "tell" and isinstance(node.value.func.value, ast.Name) \
                    and node.value.func.value.id in params:
                saves.setdefault(node.value.func.value.id, []).append(node)
        for stream, nodes in saves.items():
            first_save = min(nodes, key=lambda x: x.lineno)
            moves = [c for c in own_nodes(fn) if isinstance(c, ast.Call) and isinstance(c.func, ast.Attribute)
                     and isinstance(c.func.value, ast.Name) and c.func.value.id == stream and c.func.attr in ("seek", "read")]
            parses = [c for c in own_nodes(fn) if isinstance(c, ast.Call) and isinstance(c.func, ast.Attribute) and c.func.attr in ("parse_stream", "_parse", "_parsereport")
                      and c.args and isinstance(c.args[0], ast.Name) and c.args[0].id == stream]
            if not moves and not parses:
                continue
            if any(c.lineno < first_save.lineno for c in moves + parses):
                continue  # the stream is moved before tell(): a size probe of an owned stream, not a position save
            saved = first_save.targets[0].id
            # a construct `_parse(self, stream, context, path)` consumes its stream by contract; when it remembers where an element began
            # only to step over that element (every use of the saved position is `saved + <size>` inside a seek), it is not a probe
            uses_ = [x for x in own_nodes(fn) if isinstance(x, ast.Name) and x.id == saved and isinstance(x.ctx, ast.Load)]
            if fn.name == "_parse" and [a.arg for a in fn.args.args][:4] == ["self", stream, "context", "path"] and uses_ \
                    and all(isinstance(getattr(x, "_parent", None), ast.BinOp) and isinstance(x._parent.op, ast.Add) for x in uses_):
                continue
            # is the saved value used to restore at all? (a size probe that re-saves is still a probe)
            prs = run_paths(ctx, fn, include_exc=True, rule="S8", limit=2000)
            for p in prs:
                if p.end not in ("return", "fall"):
                    continue
                # only paths on which the stream was moved after the first save
                idx_save = [i for i, s in enumerate(p.steps) if s.ast is first_save]
                if not idx_save:
                    continue
                moved = False
                restored = False
                for s in p.steps[idx_save[0] + 1:]:
                    if s.ast is None or s.kind not in ("stmt", "return", "test"):
                        continue
                    for c in ast.walk(s.ast if s.kind != "test" else s.ast.test):
                        if not isinstance(c, ast.Call):
                            continue
                        if c in parses or (c in moves and c.func.attr == "read"):
                            moved, restored = True, False
                        elif c in moves and c.func.attr == "seek":
                            a0 = c.args[0] if c.args else None
                            wh = c.args[1] if len(c.args) > 1 else None
                            if isinstance(a0, ast.Name) and a0.id == saved and wh is not None and norm(wh) in ("SEEK_SET", "0", "io.SEEK_SET", "os.SEEK_SET"):
                                restored = True
                            else:
                                moved, restored = True, False
                if not moved:
                    continue
                n += 1
                rtxt = norm(p.ret_node) if p.ret_node is not None else "<fall>"
                exc = S8_EXCEPTIONS.get((m.path, q, rtxt))
                in_handler = p.ret_node is not None and _in_except(p.ret_node, fn)
                ok = restored or (exc is not None and in_handler)
                ctx.ob("S8", p.ret_node or fn, f"`{stream}` is moved after its position was saved in `{saved}`: every normal exit seeks back to it", ok,
                       "" if ok else f"exit `{rtxt}` (path lines {p.lines()[-6:]}) leaves `{stream}` displaced",
                       inst=f"{stream}:{rtxt}:{'restored' if restored else 'displaced'}", file=m.path, qualname=q)
    ctx.fact("S8", "probe_exit_paths", n)


def _in_except(node, fn):
    t = node
    while t is not None and t is not fn:
        if isinstance(t, ast.ExceptHandler):
            return True
        t = getattr(t, "_parent", None)
    return False


# ------------------------------------------------------------------------ S10
def _os_size_uses(tree):
    """calls that ask the operating system about the file behind a stream, and definitions of fileno()"""
    out = []
    for n in ast.walk(tree):
        if isinstance(n, ast.Call):
            d = dotted(n.func) if isinstance(n.func, (ast.Attribute, ast.Name)) else None
            if d in ("os.fstat", "os.stat", "os.path.getsize", "os.lstat", "fstat", "getsize") or (isinstance(n.func, ast.Attribute) and n.func.attr == "fileno"):
                out.append(n)
        if isinstance(n, (ast.FunctionDef, ast.AsyncFunctionDef)) and n.name == "fileno":
            out.append(n)
    return out


def rule_S10(ctx):
    """a view's length is what the view says (seek to its end, tell): the operating system only knows the size of the raw file at the
    bottom of the stack - not of an offset window, a 2048-of-2352 sector view or an MDX payload laid over it"""
    sp = ctx.fn(STREAM, "StreamSizeConstruct._parse", "S10")
    st = sp.args.args[1].arg
    n_ret = 0
    ok, det = True, ""
    for p in run_paths(ctx, sp, rule="S10", include_exc=True, limit=2000):
        if p.end != "return":
            continue
        n_ret += 1
        keys = [evaluator(ctx, sp, e).ev(c).key() for c, e, s_ in calls_on(p)]
        want = [f"{st}.tell()", f"{st}.seek(0,SEEK_END)", f"{st}.tell()", f"{st}.seek({st}.tell(),SEEK_SET)"]
        if keys != want or p.ret is None or p.ret.key() != f"{st}.tell()":
            ok, det = False, f"a returning path does {keys[:6]} and returns {p.ret.key() if p.ret is not None else None}"
    ctx.ob("S10", sp, "the stream size handed to the parsers is measured on the stream itself: tell, seek to the end, tell, seek back", ok and n_ret >= 1, det, inst="stream-size")
    hits = []
    for m in ctx.prog.modules.values():
        for n in _os_size_uses(m.tree):
            hits.append((m.path, n))
    ctx.ob("S10", hits[0][1] if hits else sp, "no stream of the package exposes, and no code asks for, the size of the operating-system file behind a view", not hits,
           "" if not hits else f"{hits[0][0]}:{hits[0][1].lineno} `{norm(hits[0][1])[:60]}`", inst="no-os-size", **({"file": hits[0][0], "qualname": "<module>"} if hits else {}))
    if len(_os_size_uses(ast.parse("import os\nclass V:\n    def fileno(self):\n        return self.s.fileno()\ndef f(s):\n    return os.fstat(s.fileno()).st_size\n"))) < 3:
        raise AnalysisError("S10", "positive-control", "operating-system size queries are not recognised")


# ------------------------------------------------------------------------ S9
def rule_S9(ctx):
    tp = "smpl_extract/transcoder.py"
    for cls in ("PassthroughTranscoder", "PipelineTranscoder"):
        fn = ctx.fn(tp, f"{cls}.__next__", "S9")
        reads = []
        for c in own_nodes(fn):
            if isinstance(c, ast.Call) and isinstance(c.func, ast.Attribute) and (c.func.attr == "read" or c.func.attr == "f_decode"):
                reads.append(c)
        if not reads:
            raise AnalysisError("S9", where(fn), "no stream read found in __next__")
        for c in reads:
            h = find_try_handler(c, fn, {"SectorReadError", "Exception"})
            ok = h is not None and "StopIteration" in raises_in(h.body)
            ctx.ob("S9", c, f"{cls}: a short sector read ends the data stream (SectorReadError -> StopIteration)", ok,
                   "" if ok else "stream read is not inside try/except SectorReadError raising StopIteration", inst=f"{cls}:{norm(c)}")
    df = ctx.fn(tp, "decode_frame", "S9")
    # decode_frame reads are reached only through f_decode
    callers = []
    for m, q, f in ctx.prog.all_functions():
        for node in own_nodes(f):
            if isinstance(node, ast.Call) and isinstance(node.func, ast.Name) and node.func.id == "decode_frame" and m.path == tp:
                callers.append((q, node))
    ok = all(isinstance(getattr(node, "_parent", None), ast.Lambda) and q == "make_transcoder" for q, node in callers) and callers
    ctx.ob("S9", df, "decode_frame (which reads the streams) is installed only as the pipeline's f_decode", bool(ok),
           "" if ok else f"callers: {[q for q, _ in callers]}", inst="decode_frame-callers")
