"""T1 LOOP-VARIANT, T2 FOR-STABLE, T3 RECURSION, T4 DATA-BOUNDED  (C07, C13, C17)."""
import ast

from ..core.loader import AnalysisError, dotted, norm, own_nodes, qual, where
from ..core.terms import Evaluator, Term
from ..core.consts import NotConst

# --------------------------------------------------------------------- helpers


def loop_stmts(loop):
    for st in loop.body:
        yield from ast.walk(st)


def assigned_names(nodes):
    """Names (and dotted attribute paths) assigned / mutated by a set of AST nodes."""
    out = set()
    for n in nodes:
        tgts = []
        if isinstance(n, ast.Assign):
            tgts = n.targets
        elif isinstance(n, (ast.AugAssign, ast.AnnAssign)):
            tgts = [n.target]
        elif isinstance(n, (ast.For, ast.AsyncFor)):
            tgts = [n.target]
        elif isinstance(n, ast.With):
            tgts = [i.optional_vars for i in n.items if i.optional_vars is not None]
        elif isinstance(n, ast.NamedExpr):
            tgts = [n.target]
        for t in tgts:
            for sub in ast.walk(t):
                if isinstance(sub, ast.Name) and isinstance(sub.ctx, ast.Store):
                    out.add(sub.id)
                if isinstance(sub, ast.Attribute) and isinstance(sub.ctx, ast.Store):
                    d = dotted(sub)
                    if d:
                        out.add(d)
                if isinstance(sub, ast.Subscript) and isinstance(sub.ctx, ast.Store):
                    d = dotted(sub.value)
                    if d:
                        out.add(d + "[]")
        if isinstance(n, ast.Call) and isinstance(n.func, ast.Attribute) and n.func.attr in (
                "append", "extend", "insert", "pop", "remove", "clear", "add", "discard", "update", "setdefault", "popitem", "sort", "reverse"):
            d = dotted(n.func.value)
            if d:
                out.add(d + "." + "<mutate>")
    return out


def names_in(expr):
    s = set()
    for n in ast.walk(expr):
        if isinstance(n, ast.Name):
            s.add(n.id)
        d = dotted(n) if isinstance(n, ast.Attribute) else None
        if d:
            s.add(d)
    return s


def invariant_in_loop(expr, loop):
    """No name / attribute path / container used by expr is assigned or mutated inside the loop."""
    assigned = assigned_names(loop_stmts(loop))
    for nm in names_in(expr):
        if nm in assigned or (nm + "[]") in assigned or (nm + ".<mutate>") in assigned:
            return False
    return True


def guard_atoms(test):
    """conjuncts of the loop guard"""
    if isinstance(test, ast.BoolOp) and isinstance(test.op, ast.And):
        out = []
        for v in test.values:
            out += guard_atoms(v)
        return out
    return [test]


def path_stmts(cfg, path):
    return [cfg.nodes[n].ast for n, _ in path if cfg.nodes[n].ast is not None]


def simple_stmts_of(cfg, path):
    """The simple statements (and test expressions) executed along a path, in order, as
    (kind, ast, label_taken)."""
    out = []
    for n, lab in path:
        node = cfg.nodes[n]
        if node.ast is None:
            continue
        out.append((node.kind, node.ast, lab))
    return out


def delta_of(name, stmts, ev):
    """Net change of local `name` along a statement list as a Term, or None if `name` is
    assigned something that is not `name +/- term`."""
    total = Term.const(0)
    loc = {}  # other locals given a value earlier on this path, in terms of the values at the loop head

    def _ev_loc(node):
        if not loc:
            return ev.ev(node)
        e3 = Evaluator(env={**getattr(ev, "env", {}), **loc}, const_of=ev.const_of)
        return e3.ev(node)

    for kind, st, lab in stmts:
        if kind not in ("stmt",):
            continue
        if isinstance(st, ast.Assign) and len(st.targets) == 1 and isinstance(st.targets[0], ast.Name) and st.targets[0].id != name:
            if total == Term.const(0):
                try:
                    loc[st.targets[0].id] = _ev_loc(st.value)
                except Exception:
                    loc.pop(st.targets[0].id, None)
            else:
                loc.pop(st.targets[0].id, None)  # would mention a stale value of the counter
            continue
        if isinstance(st, ast.AugAssign) and isinstance(st.target, ast.Name) and st.target.id == name:
            t = _ev_loc(st.value)
            if isinstance(st.op, ast.Add):
                total = total + t
            elif isinstance(st.op, ast.Sub):
                total = total - t
            else:
                return None
        elif isinstance(st, ast.Assign) and any(isinstance(t, ast.Name) and t.id == name for t in st.targets):
            e2 = Evaluator(env={name: Term.atom("@old")}, const_of=ev.const_of)
            t = e2.ev(st.value)
            d = t - Term.atom("@old")
            if "@old" in d.atoms():
                return None
            total = total + d
        elif isinstance(st, (ast.Assign, ast.AnnAssign)):
            for t in (st.targets if isinstance(st, ast.Assign) else [st.target]):
                for sub in ast.walk(t):
                    if isinstance(sub, ast.Name) and sub.id == name:
                        return None
    return total


def _min_step_positive(step, var, op, bterm, loop):
    """step is c*min(a, b, ..) with c > 0, where every argument is positive inside the loop: the counter itself when the guard is
    `var > k` (k >= 0) / `var >= k` (k >= 1), or a size attribute of the stream that the loop leaves alone (the same assumption the
    `while remaining > self.sector_length` form rests on: a sector length is positive)"""
    from ..core.terms import _split_top
    if len(step.p) != 1:
        return False
    (mono, c), = step.p.items()
    if c <= 0 or len(mono) != 1 or not (mono[0].startswith("min(") and mono[0].endswith(")")):
        return False
    strict = isinstance(op, (ast.Gt, ast.Lt))  # the caller established that the guard keeps var above the bound
    guard_pos = bterm.is_const() and ((strict and bterm.value() >= 0) or (not strict and bterm.value() >= 1))
    assigned = assigned_names(loop_stmts(loop))
    for a in _split_top(mono[0][4:-1], ","):
        if a == var:
            if not guard_pos:
                return False
        elif a in ("self.sector_length", "self.buffer_length") and a not in assigned:
            continue
        else:
            return False
    return True


# --------------------------------------------------------------------- schemas

def schema_counter(ctx, fn, cfg, lp, ev):
    """guard compares local v with invariant bound; every back path moves v strictly towards it."""
    loop = lp.stmt
    for g in guard_atoms(loop.test):
        if not (isinstance(g, ast.Compare) and len(g.ops) == 1):
            continue
        l, op, r = g.left, g.ops[0], g.comparators[0]
        for var, bound, direction in ((l, r, +1), (r, l, -1)):
            if not isinstance(var, ast.Name):
                continue
            # var OP bound ; direction +1 means var on the left
            if isinstance(op, (ast.Lt, ast.LtE)):
                need = +1 * direction  # var must increase if on the left of <
            elif isinstance(op, (ast.Gt, ast.GtE)):
                need = -1 * direction
            else:
                continue
            if not invariant_in_loop(bound, loop):
                continue
            bterm = ev.ev(bound)
            paths = cfg.iteration_paths(lp)
            ok, why = True, ""
            nback = 0
            for kind, path, edge in paths:
                if kind != "back":
                    continue
                nback += 1
                d = delta_of(var.id, simple_stmts_of(cfg, path), ev)
                if d is None:
                    ok, why = False, f"`{var.id}` is reassigned to a non-affine value on a back-edge path"
                    break
                good = False
                if d.is_const():
                    good = (d.value() > 0) if need > 0 else (d.value() < 0)
                elif need < 0 and d == -bterm and not bterm.is_const():
                    good = "positive-bound"
                elif need < 0 and (-d).p and all(c > 0 for c in (-d).p.values()) and (-d).atoms() <= bterm.atoms():
                    good = "positive-bound"
                elif need < 0 and _min_step_positive(-d, var.id, op, bterm, loop):
                    good = "positive-min"
                if not good:
                    ln = [getattr(s, "lineno", 0) for _, s, _ in simple_stmts_of(cfg, path)]
                    ok, why = False, (f"`{var.id}` does not move strictly {'up' if need > 0 else 'down'} on the back-edge path through lines "
                                      f"{sorted(set(ln))} (net change {d.key()})")
                    break
            if nback == 0:
                continue
            if ok:
                return True, "COUNTER", f"`{var.id}` vs invariant bound `{norm(bound)}`; {nback} back-edge paths move it strictly"
            return False, "COUNTER", why
    return None


def schema_bounded_raise(ctx, fn, cfg, lp, ev):
    """a local counter strictly increases on every back path and every back path passes a
    test `counter > invariant` whose true edge raises."""
    loop = lp.stmt
    cands = set()
    for n in loop_stmts(loop):
        if isinstance(n, ast.AugAssign) and isinstance(n.target, ast.Name) and isinstance(n.op, ast.Add):
            cands.add(n.target.id)
    paths = [p for p in cfg.iteration_paths(lp)]
    backs = [p for p in paths if p[0] == "back"]
    if not backs:
        return None
    for j in sorted(cands):
        good = True
        for kind, path, edge in backs:
            stmts = simple_stmts_of(cfg, path)
            d = delta_of(j, stmts, ev)
            if d is None or not d.is_const() or d.value() <= 0:
                good = False
                break
            found = False
            for k, st, lab in stmts:
                if k == "test" and isinstance(st, ast.If) and lab == "false":
                    t = st.test
                    if isinstance(t, ast.Compare) and len(t.ops) == 1:
                        l, op, r = t.left, t.ops[0], t.comparators[0]
                        if isinstance(l, ast.Name) and l.id == j and isinstance(op, (ast.Gt, ast.GtE)):
                            bound = r
                        elif isinstance(r, ast.Name) and r.id == j and isinstance(op, (ast.Lt, ast.LtE)):
                            bound = l
                        else:
                            continue
                        if not invariant_in_loop(bound, loop):
                            continue
                        # true branch must raise on all its paths
                        if st.body and all_paths_raise(st.body):
                            found = True
            if not found:
                good = False
                break
        if good:
            return True, "BOUNDED-RAISE", f"counter `{j}` increases on every back-edge path and is checked against an invariant bound on a raising branch"
    return None


def all_paths_raise(body):
    last = body[-1]
    if isinstance(last, ast.Raise):
        return True
    if isinstance(last, ast.If) and last.orelse:
        return all_paths_raise(last.body) and all_paths_raise(last.orelse)
    return False


def _is_len_guard(test, name=None):
    """`len(L)` / `len(L) > 0` / `len(L) >= 1` / `L` -> returns L's name"""
    t = test
    if isinstance(t, ast.Compare) and len(t.ops) == 1:
        l, op, r = t.left, t.ops[0], t.comparators[0]
        if isinstance(op, ast.Gt) and isinstance(r, ast.Constant) and r.value == 0:
            t = l
        elif isinstance(op, ast.GtE) and isinstance(r, ast.Constant) and r.value == 1:
            t = l
        elif isinstance(op, ast.NotEq) and isinstance(r, ast.Constant) and r.value == 0:
            t = l
        else:
            return None
    if isinstance(t, ast.Call) and isinstance(t.func, ast.Name) and t.func.id == "len" and len(t.args) == 1 and isinstance(t.args[0], ast.Name):
        return t.args[0].id
    if isinstance(t, ast.Name) and test is t:
        return t.id
    return None


def _len_guard_conjunct(test, L=None):
    """name of a list whose non-emptiness is a conjunct of the guard (the given one if it is among them, else the first)"""
    names = [x for x in (_is_len_guard(a) for a in guard_atoms(test)) if x is not None]
    if L is not None:
        return L if L in names else None
    return names[0] if names else None


class ListNet:
    """Lower bound on the net number of elements removed from a list variable along paths
    (LEN-CONSUME).  Events: L.pop(..) = +1 removed; `X, L = g(L)` with summary k (valid only when
    L is known non-empty) = +k; `L = [x] + L` = -1 and makes L non-empty."""

    def __init__(self, ctx):
        self.ctx = ctx
        self.summaries = {}  # id(fn) -> int | None
        self.in_progress = set()

    def resolve_callee(self, call, mod):
        f = call.func
        prog = self.ctx.prog
        if isinstance(f, ast.Name):
            r = prog.resolve(mod, f.id)
            if r and r[0] == "func":
                return r[1]
        if isinstance(f, ast.Attribute) and isinstance(f.value, ast.Name):
            r = prog.resolve(mod, f.value.id)
            if r and r[0] == "class":
                return prog.find_method(r[1], f.attr)
            if f.value.id == "cls":
                from ..core.loader import enclosing_class
                c = enclosing_class(call)
                if c is not None:
                    return prog.find_method(c, f.attr)
        return None

    def events(self, st, L, mod, nonempty):
        """-> (removed_delta, nonempty_after) or None if L is rebound in an unknown way.
        `st` is a simple statement."""
        removed = 0
        # pops anywhere in the statement
        for c in ast.walk(st):
            if isinstance(c, ast.Call) and isinstance(c.func, ast.Attribute) and c.func.attr == "pop" \
                    and isinstance(c.func.value, ast.Name) and c.func.value.id == L:
                removed += 1
                nonempty = False
            if isinstance(c, ast.Call) and isinstance(c.func, ast.Attribute) and c.func.attr in ("append", "insert", "extend") \
                    and isinstance(c.func.value, ast.Name) and c.func.value.id == L:
                return None
        if isinstance(st, ast.Assign):
            tnames = []
            for t in st.targets:
                if isinstance(t, ast.Name):
                    tnames.append((t.id, None))
                elif isinstance(t, ast.Tuple):
                    for i, e in enumerate(t.elts):
                        if isinstance(e, ast.Name):
                            tnames.append((e.id, i))
            for nm, idx in tnames:
                if nm != L:
                    continue
                v = st.value
                # push back:  L = [x] + L
                if idx is None and isinstance(v, ast.BinOp) and isinstance(v.op, ast.Add) and isinstance(v.left, ast.List) \
                        and isinstance(v.right, ast.Name) and v.right.id == L:
                    removed -= len(v.left.elts)
                    nonempty = len(v.left.elts) > 0 or nonempty
                    continue
                # X, L = g(L)   /   X, L = g([x] + L)  (push back, then hand over)
                def _is_L(a):
                    return isinstance(a, ast.Name) and a.id == L

                def _pushed(a):
                    if isinstance(a, ast.BinOp) and isinstance(a.op, ast.Add) and isinstance(a.left, ast.List) and _is_L(a.right):
                        return len(a.left.elts)
                    return None

                if idx is not None and isinstance(v, ast.Call) and any(_is_L(a) or _pushed(a) is not None for a in v.args):
                    callee = self.resolve_callee(v, mod)
                    if callee is None:
                        return None
                    argpos = [i for i, a in enumerate(v.args) if _is_L(a) or _pushed(a) is not None][0]
                    pushed = _pushed(v.args[argpos])
                    if pushed:
                        removed -= pushed
                        nonempty = True
                    k = self.summary(callee, argpos, idx)
                    if k is None:
                        return None
                    if nonempty:
                        removed += k
                    else:
                        removed += min(k, 0)
                    nonempty = False
                    continue
                return None
        return removed, nonempty

    def summary(self, fn, argpos, retidx):
        """min net removed from param #argpos (skipping cls/self) between entry and any normal
        return, assuming the list is non-empty at entry and is returned at tuple index retidx."""
        key = (id(fn), argpos, retidx)
        if key in self.summaries:
            return self.summaries[key]
        if key in self.in_progress:
            return None
        self.in_progress.add(key)
        try:
            params = [a.arg for a in fn.args.args]
            if params and params[0] in ("self", "cls"):
                params = params[1:]
            if argpos >= len(params):
                res = None
            else:
                L = params[argpos]
                res = self._min_net(fn, L, retidx)
        finally:
            self.in_progress.discard(key)
        self.summaries[key] = res
        return res

    def _min_net(self, fn, L, retidx):
        cfg = self.ctx.cfg(fn, "T1")
        mod = fn._module
        # every inner while loop touching L must have per-iteration net >= 0
        for lp in cfg.loops.values():
            if isinstance(lp.stmt, ast.While):
                touches = any(isinstance(n, ast.Name) and n.id == L for n in loop_stmts(lp.stmt))
                if touches:
                    g = _len_guard_conjunct(lp.stmt.test, L)
                    r = self.iteration_min(cfg, lp, L, mod, nonempty=(g == L))
                    if r is None or r < 0:
                        return None
            else:
                if any(isinstance(n, ast.Name) and n.id == L and isinstance(n.ctx, ast.Store) for n in loop_stmts(lp.stmt)):
                    return None
        best = [None]
        limit = [0]

        def dfs(n, removed, nonempty, heads, onpath):
            limit[0] += 1
            if limit[0] > 20000:
                raise AnalysisError("T1", where(fn), "LEN-CONSUME summary exploration exceeded its bound")
            node = cfg.nodes[n]
            if node.kind == "return":
                rv = node.ast.value
                ok = False
                if retidx is None and isinstance(rv, ast.Name) and rv.id == L:
                    ok = True
                if retidx is not None and isinstance(rv, ast.Tuple) and retidx < len(rv.elts) \
                        and isinstance(rv.elts[retidx], ast.Name) and rv.elts[retidx].id == L:
                    ok = True
                if not ok:
                    best[0] = "bad"
                    return
                if best[0] != "bad":
                    best[0] = removed if best[0] is None else min(best[0], removed)
                return
            if node.kind in ("raise",):
                return
            succ = [(s, lab) for s, lab in node.succ if lab != "exc"]
            if node.kind == "stmt":
                r = self.events(node.ast, L, mod, nonempty)
                if r is None:
                    best[0] = "bad"
                    return
                removed += r[0]
                nonempty = r[1]
            if node.kind == "test" and isinstance(node.ast, ast.While):
                g = _len_guard_conjunct(node.ast.test, L)
                others_true = True
                if g == L and len(guard_atoms(node.ast.test)) > 1:
                    # the other conjuncts must hold on entry for the loop to be entered for sure: decided on the constants assigned
                    # by the straight-line statements before the loop (e.g. text = "" makes len(text) == 0 true)
                    from .sem import Mini
                    mi = Mini(self.ctx, mod)
                    pre = []
                    for st_ in fn.body:
                        if st_ is node.ast:
                            break
                        pre.append(st_)
                    if node.ast in fn.body:
                        mi.run([s_ for s_ in pre if isinstance(s_, (ast.Assign, ast.AnnAssign))])
                        others_true = all(mi.truth(a_) is True for a_ in guard_atoms(node.ast.test) if _is_len_guard(a_) != L)
                    else:
                        others_true = False
                if n in heads:
                    succ = [(s, lab) for s, lab in succ if lab != "true"]
                    nonempty = False
                else:
                    if g == L and nonempty and others_true:
                        succ = [(s, lab) for s, lab in succ if lab == "true"]
                    elif g == L:
                        pass
                    heads = heads | {n}
                    for s, lab in succ:
                        ne = True if (g == L and lab == "true") else (False if g == L else nonempty)
                        dfs(s, removed, ne, heads, onpath)
                    return
            if node.kind == "test" and isinstance(node.ast, ast.If):
                e = _emptiness(fn, node.ast.test, L)
                if e is not None:
                    for s, lab in succ:
                        if s == cfg.exit:
                            best[0] = "bad"
                            return
                        if (s, lab) in onpath and cfg.nodes[s].kind != "test":
                            continue
                        ne2 = ((lab == "true") != e) if lab in ("true", "false") else nonempty
                        dfs(s, removed, ne2, heads, onpath | {(s, lab)})
                    return
            for s, lab in succ:
                if s == cfg.exit:
                    # falling off the end returns None
                    best[0] = "bad"
                    return
                if (s, lab) in onpath and cfg.nodes[s].kind != "test":
                    continue
                dfs(s, removed, nonempty, heads, onpath | {(s, lab)})

        dfs(cfg.entry, 0, True, frozenset(), frozenset())
        if best[0] is None or best[0] == "bad":
            return None
        return best[0]

    def iteration_min(self, cfg, lp, L, mod, nonempty=True):
        """min net removed from L over the back-edge paths of one iteration (None = unknown)."""
        worst = None
        for kind, path, edge in cfg.iteration_paths(lp):
            if kind != "back":
                continue
            removed, ne = 0, nonempty
            for k, st, lab in simple_stmts_of(cfg, path):
                if k == "stmt":
                    r = self.events(st, L, mod, ne)
                    if r is None:
                        return None
                    removed += r[0]
                    ne = r[1]
                elif k == "test" and isinstance(st, ast.While) and st is not lp.stmt:
                    return None
                elif k == "test" and isinstance(st, ast.If) and lab in ("true", "false"):
                    from .sem import emptiness as _em
                    e = _em(None, st.test, L)
                    if e is not None:
                        ne = (lab == "true") != e
            worst = removed if worst is None else min(worst, removed)
        return worst if worst is not None else 0


def _emptiness(fn, test, L):
    from .sem import emptiness
    return emptiness(fn, test, L)


def _loop_len_guards(fn, loop):
    """[(L, guard is the loop test)]: `while len(L)` style guards, or - for `while True` - lists whose emptiness is tested by
    an `if` in the body whose empty side leaves the loop"""
    names = [x for x in (_is_len_guard(a) for a in guard_atoms(loop.test)) if x is not None]
    if names:
        return [(x, True) for x in names]
    out = []
    if isinstance(loop.test, ast.Constant) and loop.test.value is True:
        for n in loop_stmts(loop):
            if isinstance(n, ast.If):
                for nm in {x.id for x in ast.walk(n.test) if isinstance(x, ast.Name)}:
                    e = _emptiness(fn, n.test, nm)
                    side = n.body if e is True else (n.orelse if e is False else None)
                    if side and isinstance(side[-1], (ast.Return, ast.Break, ast.Raise)) and (nm, False) not in out:
                        out.append((nm, False))
    return out


def schema_len_consume(ctx, fn, cfg, lp, ev):
    res = None
    for L, in_test in _loop_len_guards(fn, lp.stmt):
        res = _len_consume_for(ctx, fn, cfg, lp, ev, L, in_test)
        if res is not None and res[0]:
            return res
    return res


def _len_consume_for(ctx, fn, cfg, lp, ev, L, guard_in_test):
    ln = ListNet(ctx)
    worst = None
    detail = []
    for kind, path, edge in cfg.iteration_paths(lp):
        if kind != "back":
            continue
        removed, ne = 0, guard_in_test
        bad = False
        for k, st, lab in simple_stmts_of(cfg, path):
            if k == "stmt":
                r = ln.events(st, L, fn._module, ne)
                if r is None:
                    bad = True
                    break
                removed += r[0]
                ne = r[1]
            elif k == "test" and isinstance(st, ast.While) and st is not lp.stmt:
                bad = True
                break
            elif k == "test" and isinstance(st, ast.If) and lab in ("true", "false"):
                e = _emptiness(fn, st.test, L)
                if e is not None:
                    ne = (lab == "true") != e
        if bad:
            return False, "LEN-CONSUME", f"`{L}` is rebound or mutated in a way the element-count analysis does not model"
        lines = sorted({getattr(s, "lineno", 0) for _, s, _ in simple_stmts_of(cfg, path)})
        if removed < 1:
            return False, "LEN-CONSUME", f"a back-edge path (lines {lines}) removes net {removed} element(s) from `{L}`: no progress"
        worst = removed if worst is None else min(worst, removed)
    if worst is None:
        return None
    return True, "LEN-CONSUME", f"every back-edge path removes >= {worst} element(s) net from `{L}`"


def schema_iterator(ctx, fn, cfg, lp, ev):
    """every back-edge path executes next(it) on an iterator created outside the loop, inside a try
    whose StopIteration handler leaves the loop."""
    loop = lp.stmt
    nexts = []
    for n in loop_stmts(loop):
        if isinstance(n, ast.Call) and isinstance(n.func, ast.Name) and n.func.id == "next" and n.args and isinstance(n.args[0], ast.Name) \
                and len(n.args) == 1:
            nexts.append(n)
    if not nexts:
        return None
    its = {n.args[0].id for n in nexts}
    for it in sorted(its):
        if it in assigned_names(loop_stmts(loop)):
            continue
        # created from iter(...) outside the loop
        src = None
        for n in own_nodes(fn):
            if isinstance(n, ast.Assign) and any(isinstance(t, ast.Name) and t.id == it for t in n.targets):
                src = n.value
        if not (isinstance(src, ast.Call) and isinstance(src.func, ast.Name) and src.func.id == "iter"):
            continue
        base = src.args[0] if src.args else None
        if base is not None and not invariant_in_loop(base, loop):
            return False, "ITERATOR", f"the collection `{norm(base)}` behind `{it}` is mutated inside the loop"
        ok = True
        why = ""
        for kind, path, edge in cfg.iteration_paths(lp):
            if kind != "back":
                continue
            hit = False
            for k, st, lab in simple_stmts_of(cfg, path):
                for c in ast.walk(st) if k == "stmt" else []:
                    if c in nexts and c.args[0].id == it:
                        # must be inside try with StopIteration handler leaving the loop
                        t = c
                        while t is not None and t is not loop:
                            par = getattr(t, "_parent", None)
                            if isinstance(par, ast.Try) and any(t is b or _contains(b, t) for b in par.body):
                                for h in par.handlers:
                                    if _handler_catches(h, "StopIteration") and _handler_leaves_loop(h):
                                        hit = True
                            t = par
            if not hit:
                lines = sorted({getattr(s, "lineno", 0) for _, s, _ in simple_stmts_of(cfg, path)})
                ok, why = False, f"a back-edge path (lines {lines}) does not advance `{it}` under a StopIteration handler that leaves the loop"
                break
        if ok:
            return True, "ITERATOR", f"every back-edge path advances `{it}` (created outside the loop) under a StopIteration exit"
        return False, "ITERATOR", why
    return None


def _contains(root, node):
    return any(n is node for n in ast.walk(root))


def _handler_catches(h, name):
    if h.type is None:
        return True
    names = [h.type] if not isinstance(h.type, ast.Tuple) else h.type.elts
    return any((isinstance(n, ast.Name) and n.id in (name, "Exception", "BaseException")) for n in names)


def _handler_leaves_loop(h):
    last = h.body[-1]
    return isinstance(last, (ast.Break, ast.Return, ast.Raise))


def _cond_marks(cond, X, v_text):
    """positions in cond where membership of v in X is tested: returns list of ('pos'|'neg')"""
    out = []

    def is_member(n):
        if isinstance(n, ast.Subscript) and dotted(n.value) == X and norm(n.slice) == v_text:
            return True
        if isinstance(n, ast.Compare) and len(n.ops) == 1 and isinstance(n.ops[0], ast.In) and norm(n.left) == v_text \
                and dotted(n.comparators[0]) == X:
            return True
        return False

    def walk(n, pol):
        if is_member(n):
            out.append(pol)
        elif isinstance(n, ast.Compare) and len(n.ops) == 1 and isinstance(n.ops[0], ast.NotIn) and norm(n.left) == v_text \
                and dotted(n.comparators[0]) == X:
            out.append("neg" if pol == "pos" else "pos")
        elif isinstance(n, ast.BoolOp):
            for v in n.values:
                walk(v, pol)
        elif isinstance(n, ast.UnaryOp) and isinstance(n.op, ast.Not):
            walk(n.operand, "neg" if pol == "pos" else "pos")

    walk(cond, "pos")
    return out


def _false_implies_unmarked(cond, X, v_text, bounds=None, ev=None):
    """cond false  =>  (v not marked in X)  or  (v is at or beyond the bound of the loop's range exit)."""
    if isinstance(cond, ast.BoolOp) and isinstance(cond.op, ast.Or):
        return any(_false_implies_unmarked(d, X, v_text, bounds, ev) for d in cond.values)
    if isinstance(cond, ast.BoolOp) and isinstance(cond.op, ast.And):
        # not(A and M) = not A or not M : acceptable when not A sends the next iteration into the range exit,
        # i.e. A is `v < K` with K at least the range exit's bound (a smaller K leaves v in [K, N) unchecked)
        has = any(_false_implies_unmarked(d, X, v_text, bounds, ev) for d in cond.values)
        others_ok = all(_false_implies_unmarked(d, X, v_text, bounds, ev) or _range_conjunct(d, v_text, bounds, ev) for d in cond.values)
        return has and others_ok
    return _cond_marks(cond, X, v_text) == ["pos"] and not isinstance(cond, ast.BoolOp)


def _range_conjunct(d, v_text, bounds, ev):
    if not (isinstance(d, ast.Compare) and len(d.ops) == 1) or ev is None or not bounds:
        return False
    l, op, r = d.left, d.ops[0], d.comparators[0]
    K = None
    if norm(l) == v_text and isinstance(op, ast.Lt):
        K = ev.ev(r)
    elif norm(l) == v_text and isinstance(op, ast.LtE):
        K = ev.ev(r) + Term.const(1)
    elif norm(r) == v_text and isinstance(op, ast.Gt):
        K = ev.ev(l)
    elif norm(r) == v_text and isinstance(op, ast.GtE):
        K = ev.ev(l) + Term.const(1)
    if K is None:
        return False
    for N in bounds:
        diff = K - N
        if diff.is_const() and diff.value() >= 0:
            return True
    return False


def schema_visited_walk(ctx, fn, cfg, lp, ev):
    loop = lp.stmt
    body_nodes = list(loop_stmts(loop))
    # candidate cursors: local names that are reassigned in the loop and used as a subscript index
    assigned = {n.target.id for n in body_nodes if isinstance(n, ast.AugAssign) and isinstance(n.target, ast.Name)}
    for n in body_nodes:
        if isinstance(n, ast.Assign):
            for t in n.targets:
                if isinstance(t, ast.Name):
                    assigned.add(t.id)
    idx_names = {n.slice.id for n in body_nodes if isinstance(n, ast.Subscript) and isinstance(n.slice, ast.Name)}
    cursors = sorted(assigned & idx_names)
    if not cursors:
        return None
    results = []
    for c in cursors:
        r = _visited_walk_for(ctx, fn, cfg, lp, ev, c)
        if r is not None:
            results.append(r)
            if r[0]:
                return r
    return results[0] if results else None


def _visited_walk_for(ctx, fn, cfg, lp, ev, c):
    loop = lp.stmt
    body_nodes = list(loop_stmts(loop))
    # mark structures: X[c] = True   or  X.add(c)
    marks = []
    for n in body_nodes:
        if isinstance(n, ast.Assign) and len(n.targets) == 1 and isinstance(n.targets[0], ast.Subscript) \
                and isinstance(n.targets[0].slice, ast.Name) and n.targets[0].slice.id == c \
                and isinstance(n.value, ast.Constant) and n.value.value is True and dotted(n.targets[0].value):
            marks.append((dotted(n.targets[0].value), n))
        if isinstance(n, ast.Expr) and isinstance(n.value, ast.Call) and isinstance(n.value.func, ast.Attribute) \
                and n.value.func.attr == "add" and len(n.value.args) == 1 and isinstance(n.value.args[0], ast.Name) \
                and n.value.args[0].id == c and dotted(n.value.func.value):
            marks.append((dotted(n.value.func.value), n))
    if not marks:
        return None
    structures = sorted({m[0] for m in marks})
    dom = cfg.dominators(skip_labels=("exc",))
    # V1: range exit dominates every subscript by c
    range_tests = []
    for n in body_nodes:
        if isinstance(n, ast.If) and isinstance(n.test, ast.Compare) and len(n.test.ops) == 1:
            l, op, r = n.test.left, n.test.ops[0], n.test.comparators[0]
            if isinstance(l, ast.Name) and l.id == c and isinstance(op, (ast.GtE, ast.Gt)) and invariant_in_loop(r, loop):
                if n.body and isinstance(n.body[-1], (ast.Break, ast.Return, ast.Raise)):
                    range_tests.append(n)
    guard_range = False
    for gt in guard_atoms(loop.test):
        if isinstance(gt, ast.Compare) and len(gt.ops) == 1:
            l, op, r = gt.left, gt.ops[0], gt.comparators[0]
            if isinstance(l, ast.Name) and l.id == c and isinstance(op, ast.Lt) and invariant_in_loop(r, loop):
                guard_range = True
            if isinstance(r, ast.Name) and r.id == c and isinstance(op, ast.Gt) and invariant_in_loop(l, loop):
                guard_range = True
    range_bounds = []
    for n in range_tests:
        r, op = n.test.comparators[0], n.test.ops[0]
        range_bounds.append(ev.ev(r) + (Term.const(1) if isinstance(op, ast.Gt) else Term.const(0)))
    for gt in guard_atoms(loop.test):
        if isinstance(gt, ast.Compare) and len(gt.ops) == 1:
            l, op, r = gt.left, gt.ops[0], gt.comparators[0]
            if isinstance(l, ast.Name) and l.id == c and isinstance(op, ast.Lt) and invariant_in_loop(r, loop):
                range_bounds.append(ev.ev(r))
            if isinstance(r, ast.Name) and r.id == c and isinstance(op, ast.Gt) and invariant_in_loop(l, loop):
                range_bounds.append(ev.ev(l))
    if not range_tests and not guard_range:
        return False, "VISITED-WALK", f"cursor `{c}` indexes tables but no range exit (`{c} >= N` leaving the loop) exists"
    rt_ids = {cfg.nid(t) for t in range_tests}
    for n in body_nodes:
        if isinstance(n, ast.Subscript) and isinstance(n.slice, ast.Name) and n.slice.id == c:
            st = n
            while st is not None and id(st) not in cfg.node_of:
                st = getattr(st, "_parent", None)
            if st is None:
                continue
            nid = cfg.node_of[id(st)]
            if guard_range and not _reassigned_before(cfg, lp, c, nid):
                continue
            if not (dom.get(nid, set()) & rt_ids):
                return False, "VISITED-WALK", f"subscript `{norm(n)}` at line {n.lineno} is not dominated by the range exit on `{c}`"
    # head membership test:  if c in X / X[c] -> leave loop, dominating the marks (per structure)
    head_checked = set()
    for X in structures:
        for n in body_nodes:
            if isinstance(n, ast.If) and n.body and isinstance(n.body[-1], (ast.Break, ast.Return, ast.Raise)):
                if _cond_marks(n.test, X, c) == ["pos"] and not (isinstance(n.test, ast.BoolOp) and isinstance(n.test.op, ast.And)):
                    tid = cfg.nid(n)
                    if all(tid in dom.get(cfg.nid(m), set()) for x, m in marks if x == X):
                        head_checked.add(X)
    # per back path
    nback = 0
    for kind, path, edge in cfg.iteration_paths(lp):
        if kind != "back":
            continue
        nback += 1
        stmts = simple_stmts_of(cfg, path)
        lines = sorted({getattr(s, "lineno", 0) for _, s, _ in stmts})
        marked_struct = set()
        reassigned = False
        last_assign = None
        for k, st, lab in stmts:
            if k != "stmt":
                continue
            for X, m in marks:
                if st is m and not reassigned:
                    marked_struct.add(X)
            if isinstance(st, ast.AugAssign) and isinstance(st.target, ast.Name) and st.target.id == c:
                reassigned = True
                last_assign = st
            if isinstance(st, ast.Assign) and any(isinstance(t, ast.Name) and t.id == c for t in st.targets):
                reassigned = True
                last_assign = st
        if not marked_struct:
            return False, "VISITED-WALK", f"back-edge path through lines {lines} does not mark cursor `{c}` as visited (V2)"
        if last_assign is None:
            return False, "VISITED-WALK", f"back-edge path through lines {lines} does not advance cursor `{c}`"
        if isinstance(last_assign, ast.AugAssign):
            t = ev.ev(last_assign.value)
            if isinstance(last_assign.op, ast.Add) and t.is_const() and t.value() > 0:
                continue
            return False, "VISITED-WALK", f"cursor step `{norm(last_assign)}` is not a positive increment"
        try:
            step_ = ev.ev(last_assign.value) - Term.atom(c)
        except Exception:
            step_ = None
        if step_ is not None and step_.is_const() and step_.value() > 0:
            continue  # `c = c + k` is the increment `c += k`
        vtxt = norm(last_assign.value)
        fresh = False
        for X in marked_struct:
            if X in head_checked:
                fresh = True
        if not fresh:
            for k, st, lab in stmts:
                if k == "test" and isinstance(st, ast.If):
                    for X in marked_struct:
                        if lab == "false" and _false_implies_unmarked(st.test, X, vtxt, range_bounds, ev) and st.body \
                                and isinstance(st.body[-1], (ast.Break, ast.Return, ast.Raise)):
                            fresh = True
        if not fresh:
            return False, "VISITED-WALK", (f"back-edge path through lines {lines} sets `{c} = {vtxt}` without an exit taken when "
                                           f"`{vtxt}` is already marked in {sorted(marked_struct)} (V3): a cyclic table spins")
    if nback == 0:
        return None
    return True, "VISITED-WALK", f"cursor `{c}`, visited structure(s) {structures}, {nback} back-edge paths: range exit, mark and fresh-target test hold"


def _reassigned_before(cfg, lp, c, nid):
    """is cursor c reassigned on some path from the loop head to node nid (within one iteration)?"""
    def stop(s_, lab, n_):
        return s_ == nid or s_ == lp.head or s_ not in lp.body
    for path, end, lab in cfg.paths(lp.head, stop):
        if end != nid:
            continue
        for n, l in path:
            st = cfg.nodes[n].ast
            if cfg.nodes[n].kind == "stmt" and isinstance(st, (ast.Assign, ast.AugAssign)):
                tg = st.targets if isinstance(st, ast.Assign) else [st.target]
                if any(isinstance(t, ast.Name) and t.id == c for t in tg):
                    return True
    return False


def schema_stream_parse(ctx, fn, cfg, lp, ev):
    """guard `stream.tell() < size`; every back path completes a parse_stream(stream) of a struct whose
    total consumption is a term proven positive (static part + data-sized parts, with the guard that
    makes the data-sized part positive checked in the adapter)."""
    loop = lp.stmt
    g = loop.test
    if not (isinstance(g, ast.Compare) and len(g.ops) == 1 and isinstance(g.ops[0], (ast.Lt, ast.LtE))):
        return None
    l = g.left
    if not (isinstance(l, ast.Call) and isinstance(l.func, ast.Attribute) and l.func.attr == "tell"):
        return None
    stream = dotted(l.func.value)
    if stream is None or not invariant_in_loop(g.comparators[0], loop):
        return None
    for kind, path, edge in cfg.iteration_paths(lp):
        if kind != "back":
            continue
        hit = False
        why = "no parse_stream call on the path"
        for k, st, lab in simple_stmts_of(cfg, path):
            if k != "stmt":
                continue
            for c in ast.walk(st):
                if isinstance(c, ast.Call) and isinstance(c.func, ast.Attribute) and c.func.attr == "parse_stream" \
                        and c.args and dotted(c.args[0]) == stream and isinstance(c.func.value, ast.Name):
                    ok, why = _consumption_positive(ctx, fn._module, c.func.value.id)
                    if ok:
                        hit = True
        if not hit:
            lines = sorted({getattr(s, "lineno", 0) for _, s, _ in simple_stmts_of(cfg, path)})
            return False, "STREAM-PARSE", f"back-edge path through lines {lines} is not proven to advance `{stream}`: {why}"
    return True, "STREAM-PARSE", f"every back-edge path parses a record from `{stream}` whose consumption is a term proven positive"


def _consumption_positive(ctx, mod, name):
    """(ok, detail): the construct bound to `name` consumes a positive number of bytes whenever its
    parse returns normally."""
    from ..core.layout import Layouts, Unknown, Struct as LStruct, Wrap, Dyn, Zero, Prim
    from ..core.symexec import run_paths
    from .util import path_conds_struct
    from ..core.terms import holds_at, NEG
    L = Layouts(ctx)
    try:
        lay = L.of_name(mod, name)
    except Unknown as e:
        return False, f"layout of `{name}` cannot be evaluated: {e}"
    adapters = []
    cur = lay
    while isinstance(cur, Wrap):
        adapters.append(cur.tag)
        cur = cur.inner
    if not isinstance(cur, LStruct):
        return False, "parsed construct is not a struct"
    total = Term.const(0)
    for fname, f in cur.fields:
        z = f.size
        if isinstance(z, int):
            total = total + Term.const(z)
            continue
        core = f
        while isinstance(core, Wrap):
            core = core.inner
        if isinstance(core, Dyn) and core.tag == "Bytes" and core.node is not None:
            t = _size_term(ctx, L, core.node.args[0], core.env)
            if t is None:
                return False, f"size expression of field `{fname}` is not an affine term"
            total = total + t
            continue
        if isinstance(core, (Zero,)):
            continue
        # adapter around a data-sized part (e.g. VolumesAdapter(.., Lazy(Bytes(..)))): look inside
        inner = getattr(f, "inner", None)
        return False, f"field `{fname}` has an unknown size ({f.desc()})"
    # resolve Computed fields: this.a.b -> expression of struct a's Computed field b
    for _ in range(4):
        changed = False
        for atom in sorted(total.atoms()):
            if not atom.startswith("this."):
                continue
            parts = atom.split(".")[1:]
            node = cur
            prefix = []
            ok = True
            for pname in parts[:-1]:
                fld = node.field(pname) if hasattr(node, "field") else None
                if fld is None:
                    ok = False
                    break
                node = fld.core() if hasattr(fld, "core") else fld
                prefix.append(pname)
            if not ok or not hasattr(node, "field"):
                continue
            leaf = node.field(parts[-1])
            if isinstance(leaf, Zero) and leaf.tag == "Computed" and leaf.extra is not None:
                expr = leaf.extra
                t = _size_term(ctx, L, expr, leaf.env)
                if t is None:
                    continue
                # re-root atoms of the nested struct
                remap = {}
                for a in t.atoms():
                    if a.startswith("this."):
                        remap[a] = Term.atom("this." + ".".join(prefix + [a[5:]]))
                total = total.subst({atom: t.subst(remap)})
                changed = True
        if not changed:
            break
    if total.is_const():
        return (total.value() > 0), f"constant consumption {total.value()}"
    # positive multiple of one unsigned field that a guard keeps >= 1
    if len(total.p) == 1:
        (mono, coef), = total.p.items()
        if coef > 0 and len(mono) == 1 and mono[0].startswith("this."):
            field_path = mono[0][5:].split(".")
            node = cur
            for pname in field_path[:-1]:
                fld = node.field(pname)
                node = fld.core() if fld is not None else None
                if node is None:
                    return False, f"field {mono[0]} not found"
            leaf = node.field(field_path[-1])
            lc = leaf.core() if leaf is not None else None
            if not (isinstance(lc, Prim) and lc.kind == "int" and lc.signed is False):
                return False, f"consumption {total.key()} depends on `{mono[0]}` which is not an unsigned integer field"
            # guard in the adapter's _parse: normal returns exclude field == 0
            for tag in adapters:
                for m2, q2, c2 in ctx.prog.all_classes():
                    if c2.name != tag:
                        continue
                    pf = ctx.prog.find_method(c2, "_parse")
                    if pf is None or pf._module is not c2._module and False:
                        continue
                    if pf is None:
                        continue
                    rets = [p for p in run_paths(ctx, pf, rule="T1") if p.end == "return"]
                    if not rets:
                        continue
                    suffix = "." + ".".join(field_path)
                    allok = True
                    for p in rets:
                        conds = path_conds_struct(ctx, pf, p)
                        good = False
                        for d, op, taken, _ in conds:
                            ats = d.atoms()
                            if len(ats) == 1 and list(ats)[0].endswith(suffix):
                                if holds_at(d, op if taken else NEG[op], **{list(ats)[0]: 0}) is False:
                                    good = True
                        if not good:
                            allok = False
                    if allok:
                        return True, f"consumes {total.key()} bytes; `{tag}._parse` returns only when that field is >= 1"
                    return False, (f"consumes {total.key()} bytes but `{tag}._parse` has a normal return on which `{'.'.join(field_path)} == 0` is possible: "
                                   f"a record of size 0 is accepted and the scan does not advance")
            return False, f"consumes {total.key()} bytes and no adapter guards the field against 0"
    return False, f"consumption {total.key()} is not proven positive"


def _size_term(ctx, L, node, env):
    """Term of a size expression (lambda this: ... / this.a * K / X.sizeof()) in the layout's environment"""
    from ..core.layout import Unknown
    mod = env.mod if env is not None else None

    class Ev(Evaluator):
        def _call(self_inner, n):
            if isinstance(n.func, ast.Attribute) and n.func.attr == "sizeof" and not n.args:
                try:
                    v = L.const(n, env)
                except Unknown:
                    v = None
                if isinstance(v, int):
                    return Term.const(v)
            if isinstance(n.func, ast.Name) and n.func.id == "sum" and len(n.args) == 1 and not n.keywords:
                # a sum over a literal table of static sizes
                try:
                    v = L.const(n, env)
                except Unknown:
                    v = None
                if isinstance(v, int) and not isinstance(v, bool):
                    return Term.const(v)
            return Evaluator._call(self_inner, n)

        def child(self_inner, e, this_names=None):
            c = Ev(e, self_inner.const_of, self_inner.func_of, this_names or self_inner.this_names, self_inner.depth + 1)
            return c

    body = node
    names = {"this"}
    if isinstance(node, ast.Name) and env is not None:
        # a named function in the place of the lambda: the layout engine's canonical form of what it returns
        from ..core.terms import parse_key
        try:
            v = L.const(node, env)
        except Unknown:
            v = None
        nm_ = getattr(v, "name", None)
        if isinstance(nm_, str) and nm_.startswith("<") and nm_.endswith(">"):
            t = parse_key(nm_[1:-1])
            if t is not None and all(a.startswith("this.") for a in t.atoms()):
                return t
        elif isinstance(nm_, str) and nm_.startswith("this."):
            return Term.atom(nm_)
    if isinstance(node, ast.Lambda):
        body = node.body
        names = {a.arg for a in node.args.args} | {"this"}
    ev = Ev(const_of=L.const_of(mod) if mod is not None else None, this_names=names)
    t = ev.ev(body)
    for a in t.atoms():
        if not a.startswith("this."):
            return None
    return t


def schema_len_grow(ctx, fn, cfg, lp, ev):
    """`while len(X) < N` (N loop-invariant): every back-edge path appends to X at least once and nothing in the loop removes
    from or rebinds X, so len(X) is a strictly increasing counter bounded by N."""
    loop = lp.stmt
    t = loop.test
    X = N = None
    for g in guard_atoms(t):
        if isinstance(g, ast.Compare) and len(g.ops) == 1:
            l, op, r = g.left, g.ops[0], g.comparators[0]
            if isinstance(op, (ast.Lt, ast.LtE)) and isinstance(l, ast.Call) and isinstance(l.func, ast.Name) and l.func.id == "len" and len(l.args) == 1 \
                    and isinstance(l.args[0], ast.Name) and invariant_in_loop(r, loop):
                X, N = l.args[0].id, r
            if isinstance(op, (ast.Gt, ast.GtE)) and isinstance(r, ast.Call) and isinstance(r.func, ast.Name) and r.func.id == "len" and len(r.args) == 1 \
                    and isinstance(r.args[0], ast.Name) and invariant_in_loop(l, loop):
                X, N = r.args[0].id, l
    if X is None:
        return None
    for n in loop_stmts(loop):
        if isinstance(n, (ast.Assign, ast.AugAssign, ast.AnnAssign, ast.Delete, ast.For)):
            tg = n.targets if isinstance(n, (ast.Assign, ast.Delete)) else [n.target]
            for t_ in tg:
                for sub in ast.walk(t_):
                    if isinstance(sub, ast.Name) and sub.id == X:
                        return False, "LEN-GROW", f"`{X}` is rebound or cut inside the loop"
        if isinstance(n, ast.Call) and isinstance(n.func, ast.Attribute) and isinstance(n.func.value, ast.Name) and n.func.value.id == X \
                and n.func.attr in ("pop", "remove", "clear", "__delitem__"):
            return False, "LEN-GROW", f"`{X}.{n.func.attr}` inside the loop"
    nback = 0
    for kind, path, edge in cfg.iteration_paths(lp):
        if kind != "back":
            continue
        nback += 1
        grows = 0
        for k, st, lab in simple_stmts_of(cfg, path):
            if k == "stmt":
                for c in ast.walk(st):
                    if isinstance(c, ast.Call) and isinstance(c.func, ast.Attribute) and isinstance(c.func.value, ast.Name) and c.func.value.id == X \
                            and c.func.attr == "append":
                        grows += 1
        if grows < 1:
            lines = sorted({getattr(s_, "lineno", 0) for _, s_, _ in simple_stmts_of(cfg, path)})
            return False, "LEN-GROW", f"a back-edge path (lines {lines}) does not append to `{X}`"
    if nback == 0:
        return None
    return True, "LEN-GROW", f"len({X}) grows by >= 1 on each of the {nback} back-edge paths and is bounded by `{norm(N)}`"


def _guard_read(test):
    """`len(v := X.read(n)) >= 1` / `> 0` / bare walrus truthiness -> (v, read call) else None"""
    t = test
    if isinstance(t, ast.Compare) and len(t.ops) == 1:
        l, op, r = t.left, t.ops[0], t.comparators[0]
        if (isinstance(op, ast.GtE) and isinstance(r, ast.Constant) and r.value == 1) or (isinstance(op, (ast.Gt, ast.NotEq)) and isinstance(r, ast.Constant) and r.value == 0):
            t = l
        else:
            return None
    if isinstance(t, ast.Call) and isinstance(t.func, ast.Name) and t.func.id == "len" and len(t.args) == 1:
        t = t.args[0]
    if isinstance(t, ast.NamedExpr) and isinstance(t.value, ast.Call) and isinstance(t.value.func, ast.Attribute) and t.value.func.attr == "read":
        return t.target.id, t.value
    return None


def schema_read_until_empty(ctx, fn, cfg, lp, ev):
    loop = lp.stmt
    gr = _guard_read(loop.test)
    if gr is not None:
        var, call = gr
        size = call.args[0] if call.args else None
        if size is None:
            return False, "READ-UNTIL-EMPTY", "read() without a size would recurse into readall"
        t = ev.ev(size)
        if t.is_const() and t.value() <= 0:
            return False, "READ-UNTIL-EMPTY", "read size is not positive"
        return True, "READ-UNTIL-EMPTY", f"the guard itself reads and leaves when `{var}` is empty; relies on S5 (position advances by the clipped size) and a positive `{norm(size)}`"
    if not (isinstance(loop.test, ast.Constant) and loop.test.value is True):
        return None
    # x = self.read(<positive attr>) ; if len(x) < 1: break
    reads = [n for n in loop_stmts(loop) if isinstance(n, ast.Assign) and isinstance(n.value, ast.Call)
             and isinstance(n.value.func, ast.Attribute) and n.value.func.attr == "read" and len(n.targets) == 1
             and isinstance(n.targets[0], ast.Name)]
    if len(reads) != 1:
        return None
    var = reads[0].targets[0].id
    for kind, path, edge in cfg.iteration_paths(lp):
        if kind != "back":
            continue
        ok = False
        seen_read = False
        for k, st, lab in simple_stmts_of(cfg, path):
            if st is reads[0]:
                seen_read = True
            if k == "test" and isinstance(st, ast.If) and seen_read and lab == "false":
                t = st.test
                if isinstance(t, ast.Compare) and len(t.ops) == 1 and isinstance(t.left, ast.Call) and isinstance(t.left.func, ast.Name) \
                        and t.left.func.id == "len" and isinstance(t.left.args[0], ast.Name) and t.left.args[0].id == var:
                    op, r = t.ops[0], t.comparators[0]
                    if (isinstance(op, ast.Lt) and isinstance(r, ast.Constant) and r.value == 1) or \
                            (isinstance(op, ast.LtE) and isinstance(r, ast.Constant) and r.value == 0) or \
                            (isinstance(op, ast.Eq) and isinstance(r, ast.Constant) and r.value == 0):
                        if st.body and isinstance(st.body[-1], (ast.Break, ast.Return)):
                            ok = True
                if isinstance(t, ast.UnaryOp) and isinstance(t.op, ast.Not) and isinstance(t.operand, ast.Name) and t.operand.id == var:
                    if st.body and isinstance(st.body[-1], (ast.Break, ast.Return)):
                        ok = True
                if not ok:
                    # any other spelling of `var is empty` (negations, `len(var) >= 1` / `> 0` under `not`, ...)
                    from .sem import emptiness_by as _eb
                    if _eb(t, lambda e_: isinstance(e_, ast.Name) and e_.id == var) is True and st.body and isinstance(st.body[-1], (ast.Break, ast.Return)):
                        ok = True
        if not ok:
            return False, "READ-UNTIL-EMPTY", "a back-edge path does not pass the `read returned nothing -> leave` test after the read"
    # read size must be a positive quantity: an attribute with positive defaults at every constructor, or a positive constant
    size = reads[0].value.args[0] if reads[0].value.args else None
    if size is None:
        return False, "READ-UNTIL-EMPTY", "read() without a size would recurse into readall"
    t = ev.ev(size)
    if t.is_const() and t.value() <= 0:
        return False, "READ-UNTIL-EMPTY", "read size is not positive"
    return True, "READ-UNTIL-EMPTY", f"only exit is `{var}` empty; relies on S5 (position advances by the clipped size) and a positive `{norm(size)}`"


def _implies_not_none(test, c, truth):
    """does `test` evaluating to `truth` imply that the local `c` is not None?  (structural: and/or/not over `c is
    [not] None`, `c ==/!= None` and the bare name)"""
    if isinstance(test, ast.UnaryOp) and isinstance(test.op, ast.Not):
        return _implies_not_none(test.operand, c, not truth)
    if isinstance(test, ast.BoolOp):
        conj = isinstance(test.op, ast.And) == truth  # (A and B) true / (A or B) false: every operand has that value
        parts = [_implies_not_none(v, c, truth) for v in test.values]
        return any(parts) if conj else all(parts)
    if isinstance(test, ast.Name):
        return truth and test.id == c
    if isinstance(test, ast.Compare) and len(test.ops) == 1 and isinstance(test.left, ast.Name) and test.left.id == c \
            and isinstance(test.comparators[0], ast.Constant) and test.comparators[0].value is None:
        op = test.ops[0]
        if isinstance(op, (ast.IsNot, ast.NotEq)):
            return truth
        if isinstance(op, (ast.Is, ast.Eq)):
            return not truth
    return False


def schema_ancestor(ctx, fn, cfg, lp, ev):
    loop = lp.stmt
    # guard mentions a cursor; every back path reassigns cursor = cursor.parent and nothing else
    cands = set()
    for n in loop_stmts(loop):
        if isinstance(n, ast.Assign) and len(n.targets) == 1 and isinstance(n.targets[0], ast.Name):
            v = n.value
            if isinstance(v, ast.Attribute) and isinstance(v.value, ast.Name) and v.value.id == n.targets[0].id and v.attr in ("parent", "_parent"):
                cands.add(n.targets[0].id)
    for c in sorted(cands):
        if c not in names_in(loop.test):
            continue
        # guard must exit on None
        if not _implies_not_none(loop.test, c, True):
            continue
        ok = True
        for kind, path, edge in cfg.iteration_paths(lp):
            if kind != "back":
                continue
            n_assign = 0
            for k, st, lab in simple_stmts_of(cfg, path):
                if k == "stmt" and isinstance(st, ast.Assign) and any(isinstance(t, ast.Name) and t.id == c for t in st.targets):
                    v = st.value
                    if isinstance(v, ast.Attribute) and isinstance(v.value, ast.Name) and v.value.id == c and v.attr in ("parent", "_parent"):
                        n_assign += 1
                    else:
                        n_assign = -99
            if n_assign < 1:
                ok = False
        if ok:
            return True, "ANCESTOR", f"`{c}` is replaced by its parent on every back-edge path and the guard stops at None (parent relation assumed a tree: N2)"
        return False, "ANCESTOR", f"`{c}` is not replaced by `.parent` on every back-edge path"
    return None


SCHEMAS = [schema_counter, schema_bounded_raise, schema_len_consume, schema_len_grow, schema_iterator, schema_visited_walk,
           schema_stream_parse, schema_read_until_empty, schema_ancestor]


def rule_T1(ctx):
    """every `while` loop of the package carries a termination variant"""
    count = 0
    schemas_used = {}
    for m, q, fn in sorted(ctx.prog.all_functions(), key=lambda x: (x[0].path, x[2].lineno)):
        whiles = [n for n in own_nodes(fn) if isinstance(n, ast.While)]
        if not whiles:
            continue
        cfg = ctx.cfg(fn, "T1")
        ev = Evaluator(const_of=ctx.folder.const_of(m))
        for w in whiles:
            lp = cfg.loop_of(w)
            count += 1
            verdict = None
            failures = []
            for sch in SCHEMAS:
                r = sch(ctx, fn, cfg, lp, ev)
                if r is None:
                    continue
                if r[0]:
                    verdict = r
                    break
                failures.append(r)
            inst = f"while {norm(w.test)}"
            if verdict:
                # the schemas reason about the normal back-edge paths; a way back to the loop head through an exception handler
                # (`except ..: continue`, or a handler that falls through to the end of the body) is an extra back edge no schema
                # has looked at
                normal = {tuple(p_) for k_, p_, e_ in cfg.iteration_paths(lp) if k_ == "back"}
                extra = [p_ for k_, p_, e_ in cfg.iteration_paths(lp, skip_labels=()) if k_ == "back" and tuple(p_) not in normal and any(l_ == "exc" for n_, l_ in p_)]
                if extra and verdict[1] not in ("LEN-GROW",):
                    # the same schema, asked again with the handler paths among the back edges
                    class _WithExc:
                        def __init__(self, inner):
                            self._inner = inner

                        def __getattr__(self, name):
                            return getattr(self._inner, name)

                        def iteration_paths(self, lp_, skip_labels=()):
                            return self._inner.iteration_paths(lp_, skip_labels=())

                    again = None
                    if verdict[1] == "COUNTER":
                        # a counter moved by plain statements on the handler path is moved whether or not the guarded call failed; the
                        # other schemas count on what a call did (a record parsed, a block read) - a call that raised did nothing
                        try:
                            again = sch(ctx, fn, _WithExc(cfg), lp, ev)
                        except Exception:
                            again = None
                    if not (again and again[0]):
                        lines_ = sorted({getattr(cfg.nodes[n_].ast, "lineno", 0) for n_, l_ in extra[0] if cfg.nodes[n_].ast is not None})
                        verdict = None
                        failures.append((False, "HANDLER-BACK-EDGE", f"the loop is re-entered through an exception handler (lines {lines_}): on that path nothing is proven to advance"))
            if verdict:
                schemas_used[f"{m.path}:{w.lineno}"] = verdict[1]
                ctx.ob("T1", w, f"loop `{inst}` terminates: schema {verdict[1]}", True, verdict[2], inst=inst)
            else:
                det = "; ".join(f"{f[1]}: {f[2]}" for f in failures) or "no termination schema applies to this loop"
                ctx.ob("T1", w, f"loop `{inst}` terminates on every input", False, "termination unproven - " + det, inst=inst)
    ctx.fact("T1", "while_loops", count)
    ctx.fact("T1", "schemas", schemas_used)
    # positive control: a loop whose guard variable is never advanced must be rejected
    _t1_positive_control(ctx)


_T1_CONTROL = """
def f(self, k):
    n = 0
    out = []
    while n < self.size:
        out.append(k)
        if k > 3:
            break
    return out
"""


def _t1_positive_control(ctx):
    from ..core.cfg import CFG
    from ..core.loader import set_parents
    tree = ast.parse(_T1_CONTROL)
    set_parents(tree)
    fn = tree.body[0]
    cfg = CFG(fn, "T1")
    w = [n for n in ast.walk(fn) if isinstance(n, ast.While)][0]
    lp = cfg.loop_of(w)
    ev = Evaluator()
    for sch in SCHEMAS:
        try:
            r = sch(ctx, fn, cfg, lp, ev)
        except AnalysisError:
            r = None
        if r is not None and r[0]:
            raise AnalysisError("T1", "positive-control", f"schema {r[1]} accepted a loop whose guard variable never moves")


def rule_T2(ctx):
    """no `for` body grows the collection it iterates"""
    n = 0
    for m, q, fn in sorted(ctx.prog.all_functions(), key=lambda x: (x[0].path, x[2].lineno)):
        for node in own_nodes(fn):
            if isinstance(node, (ast.For, ast.comprehension)):
                it = node.iter
                d = dotted(it) if isinstance(it, (ast.Name, ast.Attribute)) else None
                if isinstance(node, ast.comprehension) or d is None:
                    continue
                n += 1
                bad = None
                for sub in loop_stmts(node):
                    if isinstance(sub, ast.Call) and isinstance(sub.func, ast.Attribute) and sub.func.attr in ("append", "extend", "insert") \
                            and dotted(sub.func.value) == d:
                        bad = sub
                    if isinstance(sub, ast.AugAssign) and dotted(sub.target) == d:
                        bad = sub
                ctx.ob("T2", node, f"for-loop over `{d}` does not grow `{d}`", bad is None,
                       "" if bad is None else f"`{norm(bad)}` at line {bad.lineno} grows the iterated collection", inst=f"for {norm(node.target)} in {d}")
    ctx.fact("T2", "for_loops_over_names", n)


# T3 ---------------------------------------------------------------------------

T3_ALLOWED = {
    # cycle (as a frozenset of qualified names) -> reason
    frozenset({"smpl_extract/info.py:InfoTree.print_tree.build_inner"}): "recursive call only on `value`, a strict sub-item of the argument",
    frozenset({"smpl_extract/util/dataclass.py:process_value", "smpl_extract/util/dataclass.py:itemize_general"}):
        "recursion only on members of the argument",
    frozenset({"smpl_extract/structural.py:Traversable.export_samples"}): "recursion only on elements of self.children (tree)",
    frozenset({"smpl_extract/actions.py:determine_image_type", "smpl_extract/actions.py:attempt_parse_cue_sheet"}):
        "edge into attempt_parse_cue_sheet is under isinstance(file, str); the recursive call passes an open()ed stream: depth <= 2",
    frozenset({"smpl_extract/util/stream.py:StreamWrapper.read", "smpl_extract/util/stream.py:StreamWrapper.readall"}):
        "readall calls read(self.buffer_length) with a positive size; read delegates to readall only for None/negative sizes",
}


def _local_callgraph(ctx):
    """Resolved intra-package call graph: plain names, self.m(), Class.m(), cls.m(), super().m()."""
    prog = ctx.prog
    edges = {}
    sites = {}
    from ..core.loader import enclosing_class
    for m, q, fn in prog.all_functions():
        src = f"{m.path}:{q}"
        edges.setdefault(src, set())
        cls = enclosing_class(fn)
        for node in own_nodes(fn):
            if not isinstance(node, ast.Call):
                continue
            f = node.func
            tgt = None
            if isinstance(f, ast.Name):
                # nested function of the same parent first
                parent_q = q.rsplit(".", 1)[0] if "." in q else None
                cand = None
                for pq in (q + "." + f.id, (parent_q + "." + f.id) if parent_q else None):
                    if pq and pq in m.functions:
                        cand = m.functions[pq]
                        break
                if cand is None:
                    r = prog.resolve(m, f.id)
                    if r and r[0] == "func":
                        cand = r[1]
                tgt = cand
            elif isinstance(f, ast.Attribute):
                if isinstance(f.value, ast.Name) and f.value.id in ("self", "cls") and cls is not None:
                    tgt = prog.find_method(cls, f.attr)
                    # overrides in subclasses are possible receivers as well
                    if tgt is not None:
                        for sub in prog.subclasses_of(cls):
                            for st in sub.body:
                                if isinstance(st, ast.FunctionDef) and st.name == f.attr:
                                    edges[src].add(f"{st._module.path}:{st._qualname}")
                elif isinstance(f.value, ast.Call) and isinstance(f.value.func, ast.Name) and f.value.func.id == "super" and cls is not None:
                    tgt = prog.find_method(cls, f.attr, skip_self=True)
                elif isinstance(f.value, ast.Name):
                    r = prog.resolve(m, f.value.id)
                    if r and r[0] == "class":
                        tgt = prog.find_method(r[1], f.attr)
                    elif f.attr == "export_samples" and f.value.id == "child":
                        # typed loop variable: `for child in self.children` / isinstance(child, Traversable)
                        c = prog.modules.get("smpl_extract.structural")
                        if c and "Traversable.export_samples" in c.functions:
                            tgt = c.functions["Traversable.export_samples"]
            if tgt is not None and hasattr(tgt, "_module"):
                dst = f"{tgt._module.path}:{tgt._qualname}"
                edges[src].add(dst)
                sites.setdefault((src, dst), node)
    return edges, sites


def _sccs(edges):
    index = {}
    low = {}
    stack = []
    on = set()
    res = []
    counter = [0]
    import sys
    sys.setrecursionlimit(10000)

    def strong(v):
        index[v] = low[v] = counter[0]
        counter[0] += 1
        stack.append(v)
        on.add(v)
        for w in edges.get(v, ()):
            if w not in index:
                strong(w)
                low[v] = min(low[v], low[w])
            elif w in on:
                low[v] = min(low[v], index[w])
        if low[v] == index[v]:
            comp = []
            while True:
                w = stack.pop()
                on.discard(w)
                comp.append(w)
                if w == v:
                    break
            res.append(comp)

    for v in sorted(edges):
        if v not in index:
            strong(v)
    return res


def rule_T3(ctx):
    """every cycle of the resolved call graph is in the confirmed table"""
    edges, sites = _local_callgraph(ctx)
    n_edges = sum(len(v) for v in edges.values())
    ctx.fact("T3", "functions", len(edges))
    ctx.fact("T3", "resolved_call_edges", n_edges)
    found = 0
    for comp in _sccs(edges):
        cyc = len(comp) > 1 or (comp[0] in edges.get(comp[0], ()))
        if not cyc:
            continue
        found += 1
        key = frozenset(comp)
        reason = T3_ALLOWED.get(key)
        path, qn = sorted(comp)[0].split(":", 1)
        fn = ctx.prog.by_path[path].functions[qn]
        ok = reason is not None
        det = reason or "recursion cycle not in the confirmed table: unbounded recursion is not excluded"
        if ok:
            ok, det2 = _t3_side_condition(ctx, key, edges, sites)
            if not ok:
                det = det2
        ctx.ob("T3", fn, f"call-graph cycle {{{', '.join(sorted(x.split(':')[1] for x in comp))}}} is bounded", ok, det,
               inst="cycle:" + ",".join(sorted(comp)))
    ctx.fact("T3", "cycles", found)
    if found == 0:
        raise AnalysisError("T3", "-", "no call-graph cycle found although the tree has confirmed ones (resolver broken)")


def _t3_side_condition(ctx, key, edges, sites):
    names = sorted(key)
    if any("build_inner" in n for n in names):
        n = names[0]
        site = sites.get((n, n))
        if site is None:
            return False, "recursive call site not found"
        arg0 = site.args[0] if site.args else None
        # must be a name bound by iterating over the parameter (kv_pair derived from item)
        fn = ctx.prog.by_path[n.split(":")[0]].functions[n.split(":")[1]]
        param = fn.args.args[0].arg
        if isinstance(arg0, ast.Name) and arg0.id != param:
            return True, ""
        return False, f"build_inner recurses on `{norm(arg0) if arg0 is not None else '?'}` which is not a strict sub-item of `{param}`"
    if any("export_samples" in n for n in names):
        n = names[0]
        site = sites.get((n, n))
        fn = ctx.prog.by_path[n.split(":")[0]].functions[n.split(":")[1]]
        # receiver must be the loop variable of `for child in children` where children = self.children
        if site is not None and isinstance(site.func, ast.Attribute) and isinstance(site.func.value, ast.Name):
            recv = site.func.value.id
            for node in own_nodes(fn):
                if isinstance(node, ast.For) and isinstance(node.target, ast.Name) and node.target.id == recv and _contains(node, site):
                    return True, ""
        return False, "export_samples recurses on something that is not an element of the iterated children"
    if any("determine_image_type" in n for n in names):
        d = [n for n in names if n.endswith("determine_image_type")][0]
        a = [n for n in names if n.endswith("attempt_parse_cue_sheet")][0]
        site_da = sites.get((d, a))
        site_ad = sites.get((a, d))
        if site_da is None or site_ad is None:
            return False, "expected mutual call sites not found"
        # d -> a is reached only on paths where isinstance(file, str) holds
        from .util import truth_of
        from ..core.symexec import run_paths, calls_on
        fn_d = ctx.prog.by_path[d.split(":")[0]].functions[d.split(":")[1]]
        farg = fn_d.args.args[0].arg if fn_d.args.args else "?"
        guarded, n_reach = True, 0
        for p in run_paths(ctx, fn_d, include_exc=True, rule="T3", limit=8000):
            if any(c is site_da for c, e, st in calls_on(p)):
                n_reach += 1
                tr = truth_of(p, "isinstance")
                if tr is None or tr[1] != f"{farg},str" or not tr[0]:
                    guarded = False
        guarded = guarded and n_reach > 0
        arg = site_ad.args[0] if site_ad.args else None
        fn_a = ctx.prog.by_path[a.split(":")[0]].functions[a.split(":")[1]]
        # the value handed to the recursive call, as a term on every path that makes the call: an opened file (not a path string)
        opened, n_call = True, 0
        from .util import evaluator as _evt
        for p in run_paths(ctx, fn_a, rule="T3", limit=8000):
            for c, e, st in calls_on(p):
                if c is site_ad:
                    n_call += 1
                    k_ = _evt(ctx, fn_a, e).ev(arg).key() if arg is not None else ""
                    if not k_.startswith("open("):
                        # one level of helper: a function of the module whose every return is an open(...) call
                        ok_h = False
                        if isinstance(arg, ast.Call) and isinstance(arg.func, ast.Name):
                            r = ctx.prog.resolve(fn_a._module, arg.func.id)
                            if r and r[0] == "func":
                                hp = [q for q in run_paths(ctx, r[1], rule="T3") if q.end == "return"]
                                ok_h = bool(hp) and all(q.ret is not None and q.ret.key().startswith("open(") for q in hp)
                        elif isinstance(arg, ast.Name):
                            v_ = e.get(arg.id)
                            if v_ is not None and "(" in v_.key():
                                hn = v_.key().split("(")[0]
                                r = ctx.prog.resolve(fn_a._module, hn) if hn.isidentifier() else None
                                if r and r[0] == "func":
                                    hp = [q for q in run_paths(ctx, r[1], rule="T3") if q.end == "return"]
                                    ok_h = bool(hp) and all(q.ret is not None and q.ret.key().startswith("open(") for q in hp)
                        opened = opened and ok_h
        opened = opened and n_call > 0
        if guarded and opened:
            return True, ""
        return False, "cue-sheet recursion is no longer bounded: the text branch is not guarded by isinstance(file, str) or the recursive call does not pass an opened stream"
    if any("readall" in n for n in names):
        ra = [n for n in names if n.endswith("readall")][0]
        rd = [n for n in names if n.endswith(".read")][0]
        site = sites.get((ra, rd))
        if site is None or not site.args:
            return False, "readall must call read with an explicit size"
        if norm(site.args[0]) in ("None",) or (isinstance(site.args[0], ast.UnaryOp)):
            return False, "readall calls read with None/negative size: infinite mutual recursion"
        return True, ""
    return True, ""


def _table_end_probe(ctx):
    from .util import handler_names
    """AKAI directory scan: the slot count comes from the length of the directory's sector chain, which a damaged table can link on
    through unreadable sectors.  The scan is proportional to the readable part only because the end-of-table probe takes a slot that
    cannot be read for the end of the table - and is not run under the handler that skips a bad entry and goes on."""
    fe = ctx.fn("smpl_extract/akai/file_entry.py", "FileEntriesAdapter._parse", "T4")
    mod = fe._module
    CATCH_ALL = {"StreamError", "ConstructError", "Exception", "BaseException"}
    # the probe: the try statement around the read of the end flag (Int16ul), in _parse itself, in a nested def or in a module-level helper
    scopes = [fe] + [f for f in mod.tree.body if isinstance(f, ast.FunctionDef)]
    probes = []
    for sc_ in scopes:
        for t in ast.walk(sc_):
            if isinstance(t, ast.Try) and any(isinstance(c, ast.Call) and norm(c.func) in ("Int16ul.parse_stream", "Int16ul.parse") for b in t.body for c in ast.walk(b)):
                probes.append((sc_, t))
    if not probes:
        ctx.ob("T4", fe, "the directory scan ends at the first slot whose end flag cannot be read", False,
               "no guarded read of the end flag found: an unreadable slot either aborts the listing or is skipped like a bad entry, up to the full slot count", inst="table-end-probe")
        return
    ok, det = True, ""
    for sc_, t in probes:
        hs = [h for h in t.handlers if h.type is None or (set(handler_names(h)) & CATCH_ALL)]
        if not hs:
            ok, det = False, "the end-flag read has no handler for StreamError: an unreadable slot is not taken for the end of the table"
        elif any(isinstance(x, ast.Raise) for h in hs for b in h.body for x in ast.walk(b)):
            ok, det = False, "the StreamError handler of the end-flag read raises"
        # where the probe runs: not under a handler of _parse that swallows the error and continues with the next slot
        sites = [t] if sc_ is fe and not any(isinstance(p_, ast.FunctionDef) and p_ is not fe for p_ in _parents(t, fe)) else \
            [c for c in ast.walk(fe) if isinstance(c, ast.Call) and isinstance(c.func, ast.Name) and c.func.id == _enclosing_fn(t, sc_).name]
        for site in sites:
            for par in _parents(site, fe):
                if isinstance(par, ast.Try) and any(any(x is site for x in ast.walk(b)) for b in par.body) and par is not t \
                        and any(h.type is None or (set(handler_names(h)) & CATCH_ALL) for h in par.handlers):
                    ok, det = False, "the end-of-table probe runs inside the try block whose handler skips a bad entry: an unreadable slot is skipped and the scan goes on to the full slot count"
    ctx.ob("T4", probes[0][1], "the directory scan ends at the first slot whose end flag cannot be read (the probe is not run under the skip-a-bad-entry handler)", ok, det, inst="table-end-probe")


def _parents(node, stop):
    out = []
    t = getattr(node, "_parent", None)
    while t is not None and t is not stop:
        out.append(t)
        t = getattr(t, "_parent", None)
    return out


def _enclosing_fn(node, default):
    t = node
    while t is not None:
        if isinstance(t, (ast.FunctionDef, ast.AsyncFunctionDef)):
            return t
        t = getattr(t, "_parent", None)
    return default


def rule_T4(ctx):
    """counts / eager sizes taken from image data are bounded by their field width or lazy"""
    from ..core.layout import Layouts, Unknown, find_construct_calls
    lay = Layouts(ctx)
    n = 0
    _table_end_probe(ctx)
    for m in ctx.prog.modules.values():
        for call, name in find_construct_calls(ctx, m, {"Bytes", "GreedyBytes", "GreedyRange"}):
            if name == "Bytes":
                a = call.args[0] if call.args else None
                if isinstance(a, ast.Lambda) or (isinstance(a, ast.Attribute) and (dotted(a) or "").startswith("this")):
                    n += 1
                    lazy = _wrapped_by(call, {"Lazy"})
                    ctx.ob("T4", call, "data-sized Bytes(...) is wrapped in Lazy (not read eagerly)", lazy,
                           "" if lazy else "an image-controlled byte count is read eagerly: memory proportional to a header field",
                           inst="Bytes(<dynamic>)")
            elif name == "GreedyBytes":
                n += 1
                ok = _wrapped_by(call if isinstance(call, ast.Call) else call, {"FixedSized", "Prefixed", "Lazy", "GreedyRange"})
                ctx.ob("T4", call, "GreedyBytes is bounded by an enclosing FixedSized/Prefixed/Lazy", ok,
                       "" if ok else "GreedyBytes without a bounding wrapper reads the rest of the image", inst="GreedyBytes")
    # keygroup chain length comes from a 1-byte field
    pm = ctx.prog.module("smpl_extract/akai/program.py")
    pp = ctx.prog.assigned("smpl_extract/akai/program.py", "ProgramParser", "T4")
    # decided on the evaluated layout (however the array is spelled: subcon[count], Array(count, subcon), through a named temporary)
    from ..core.layout import Arr, Sym
    try:
        PL = lay.of_name(pm, "ProgramParser")
        kg = PL.field("keygroups")
    except Unknown as e:
        raise AnalysisError("T4", "smpl_extract/akai/program.py:ProgramParser", f"layout: {e}")
    core = kg
    while core is not None and not isinstance(core, Arr) and hasattr(core, "inner"):
        core = core.inner
    if not isinstance(core, Arr):
        raise AnalysisError("T4", "smpl_extract/akai/program.py:ProgramParser", "KeygroupLinkConstruct[...] array not found")
    n += 1
    cnt = core.count
    ok, det = False, f"count expression `{cnt}` is not a header field"
    if isinstance(cnt, Sym) and cnt.name.startswith("header.") and cnt.name.count(".") == 1:
        fld = cnt.name.split(".")[1]
        try:
            f = lay.of_name(pm, "ProgramHeaderConstruct").field(fld)
        except Unknown as e:
            raise AnalysisError("T4", where(pp), f"layout: {e}")
        ok = f is not None and f.size == 1
        det = "" if ok else f"header field `{fld}` is {f.size if f else '?'} bytes wide: keygroup count no longer bounded by 255"
    ctx.ob("T4", pp, "keygroup chain length is a 1-byte header field (<= 255 keygroups)", ok, det, inst="KeygroupLinkConstruct[count]",
           file="smpl_extract/akai/program.py", qualname="<module>")
    # sample data windows: the stored quantities a window's offset / size are computed from are unsigned fields, so a window
    # cannot start before the image (a huge negative offset is clamped to 0 on every read and the same block comes back until
    # 2^32 bytes were "read": memory and time far beyond the image size)
    for wpath, sname in (("smpl_extract/akai/sample.py", "SampleHeaderConstruct"),):
        wm = ctx.prog.module(wpath)
        try:
            WL = lay.of_name(wm, sname)
        except Unknown as e:
            raise AnalysisError("T4", f"{wpath}:{sname}", f"layout: {e}")
        decl = ctx.prog.assigned(wpath, sname, "T4")
        wins = [c for c in ast.walk(decl) if isinstance(c, ast.Call) and isinstance(c.func, ast.Name) and c.func.id == "SubStreamConstruct"]
        if not wins:
            raise AnalysisError("T4", f"{wpath}:{sname}", "sample data window (SubStreamConstruct) not found")
        for wc in wins:
            used = set()
            for k in wc.keywords:
                if k.arg in ("size", "offset"):
                    from ..core.layout import this_path as _tp
                    for x in ast.walk(k.value):
                        tp_ = _tp(x, {"this"}) if isinstance(x, (ast.Attribute, ast.Subscript)) else None
                        if tp_ and "." not in tp_:
                            used.add(tp_)
            for fld in sorted(used):
                f = WL.field(fld)
                core = f
                while core is not None and hasattr(core, "inner") and getattr(core, "kind", None) is None:
                    core = core.inner
                if getattr(core, "kind", None) != "int":
                    continue  # Tell / computed values
                n += 1
                ok = core.signed is False
                ctx.ob("T4", wc, f"window quantity `{fld}` is an unsigned field", ok, "" if ok else f"`{fld}` is {core.desc()}: a stored value with the top bit set places the window before the image",
                       inst=f"window-unsigned:{sname}.{fld}", file=wpath, qualname="<module>")
    # transcoder default block size is a constant
    v = ctx.const("smpl_extract/transcoder.py", "_DEFAULT_BUFFER_SIZE", "T4")
    node = ctx.prog.assigned("smpl_extract/transcoder.py", "_DEFAULT_BUFFER_SIZE")
    ctx.ob("T4", node, "transcoder block size is a positive constant", isinstance(v, int) and 0 < v <= 1 << 20, f"value {v}",
           inst="_DEFAULT_BUFFER_SIZE", file="smpl_extract/transcoder.py", qualname="<module>")
    ctx.fact("T4", "sites", n + 1)


def _wrapped_by(node, names):
    t = getattr(node, "_parent", None)
    while t is not None and not isinstance(t, (ast.stmt,)):
        if isinstance(t, ast.Call) and isinstance(t.func, ast.Name) and t.func.id in names:
            return True
        t = getattr(t, "_parent", None)
    return False


# ------------------------------------------------------------------------ T5
_RE_FUNCS = {"compile", "match", "search", "fullmatch", "sub", "subn", "split", "findall", "finditer"}


def rule_T6(ctx):
    """table decoders visit every entry a bounded number of times (C13: time proportional to the table).  Both allocation-table
    decoders start a walk at every entry not yet marked and mark what they pass; the total work is linear in the table only if a walk
    also ENDS when it reaches an entry that an earlier walk has marked - otherwise a chain that is met from its far end (each start one
    link further from the end) is re-walked in full from every one of its entries."""
    for path, q in (("smpl_extract/akai/sat.py", "SegmentAllocationTableAdapter._decode"), ("smpl_extract/roland/s7xx/fat.py", "FatAreaAdapter._decode")):
        fn = ctx.fn(path, q, "T6")
        outer = [f for f in own_nodes(fn) if isinstance(f, ast.For) and any(isinstance(w, ast.While) for w in ast.walk(f))]
        if len(outer) != 1:
            raise AnalysisError("T6", where(fn), f"expected one scan loop over the table with a walk loop inside, found {len(outer)}")
        walks = [w for w in ast.walk(outer[0]) if isinstance(w, ast.While)]
        if len(walks) != 1:
            raise AnalysisError("T6", where(fn), f"expected one walk loop, found {len(walks)}")
        walk = walks[0]
        # marks kept across walks: subscript-stored True inside the walk, bound outside the scan loop
        inside = {n.value.id for a in ast.walk(walk) if isinstance(a, ast.Assign) and isinstance(a.value, ast.Constant) and a.value.value is True
                  for n in a.targets if isinstance(n, ast.Subscript) and isinstance(n.value, ast.Name)}
        bound_in_scan = {t.id for a in ast.walk(outer[0]) if isinstance(a, (ast.Assign, ast.AnnAssign)) for t in (a.targets if isinstance(a, ast.Assign) else [a.target]) if isinstance(t, ast.Name)}
        marks = sorted(inside - bound_in_scan)
        if not marks:
            raise AnalysisError("T6", where(fn), "no mark structure kept across walks found")
        # a decision inside the walk that reads the marks and leaves the walk
        tested = []
        for i in ast.walk(walk):
            if isinstance(i, ast.If) and any(isinstance(x, ast.Subscript) and isinstance(x.value, ast.Name) and x.value.id in marks and isinstance(x.ctx, ast.Load) for x in ast.walk(i.test)):
                if any(isinstance(x, (ast.Break, ast.Return, ast.Raise)) for b in i.body for x in ast.walk(b)):
                    tested.append(i)
        ok = bool(tested)
        ctx.ob("T6", walk, f"{q}: a walk ends when it reaches an entry that an earlier walk has already marked (every entry is walked a bounded number of times)", ok,
               "" if ok else f"the marks `{', '.join(marks)}` are written but never consulted inside the walk: a chain of n clusters stored in descending order is walked from each of its "
               "entries to its end - about n*n/2 steps for one pass over the table", inst="linear-walk")


def rule_T5(ctx):
    """every regular expression of the package is free of the constructs that make the backtracking matcher exponential
    (matching time is part of the CPU bound of C13: cue sheet lines, names and paths are input-controlled)"""
    from ..core import rx
    from ..core.consts import NotConst, RegexVal
    n = 0
    seen = set()

    def judge(node, pat, fl, m):
        nonlocal n
        key = (m.path, pat, fl)
        if key in seen:
            return
        seen.add(key)
        n += 1
        try:
            tree = rx.parse(pat if isinstance(pat, str) else pat.decode("latin-1"), fl & 0xFFFF)
        except Exception as e:
            raise AnalysisError("T5", where(node), f"pattern does not parse: {e}")
        hz = rx.backtracking_hazards(tree)
        ctx.ob("T5", node, "regex has no exponential-backtracking construct (nested unbounded repeats / overlapping alternatives under a repeat)", not hz,
               f"{pat!r}: {'; '.join(hz)}" if hz else "", inst=f"regex:{m.path}:{pat!r}"[:120], file=m.path)
        deg, _pos = rx.polynomial_degree(tree)
        if deg > 1 and bounded_input(node, m):
            deg = 1  # applied to a text of fixed, small width only: its cost is bounded by a constant
        ctx.ob("T5", node, "regex matches in time proportional to the text (at most one unbounded repeat can take the same run of characters before a point of failure)", deg <= 1,
               "" if deg <= 1 else f"{pat!r}: {deg} adjacent unbounded repeats can share one run of characters: on a run of n such characters that does not lead to a match the "
               f"matcher takes on the order of n^{deg} steps", inst=f"regex-linear:{m.path}:{label(node, pat)}"[:120], file=m.path)

    def label(node, pat):
        # a named regex is known by its name (a respelled pattern is the same construct)
        if isinstance(node, ast.Call) and isinstance(getattr(node, "_parent", None), (ast.Assign, ast.AnnAssign)) and node._parent.value is node:
            node = node._parent
        if isinstance(node, ast.Assign) and len(node.targets) == 1 and isinstance(node.targets[0], ast.Name):
            return node.targets[0].id
        if isinstance(node, ast.AnnAssign) and isinstance(node.target, ast.Name):
            return node.target.id
        return repr(pat)

    def bounded_input(node, m):
        """a class-level regex of an adapter that is only ever applied, inside that class, to fields of the decoded container which
        the struct declares as fixed-width strings of at most 64 bytes.  Uses are `R.match(E)`, a `(E, R)` row of a verification
        table, or a call that is handed both R and E; E is `<local>.<field>` or a local bound once to that."""
        if isinstance(node, ast.Call) and isinstance(getattr(node, "_parent", None), ast.Assign) and node._parent.value is node:
            node = node._parent  # the re.compile(..) call of a class-level assignment
        cls = getattr(node, "_parent", None)
        if not isinstance(cls, ast.ClassDef) or not isinstance(node, ast.Assign) or len(node.targets) != 1 or not isinstance(node.targets[0], ast.Name):
            return False
        nm = node.targets[0].id
        uses = [x for x in ast.walk(m.tree) if (isinstance(x, ast.Attribute) and x.attr == nm) or (isinstance(x, ast.Name) and x.id == nm and x is not node.targets[0])]
        if not uses or any(not (isinstance(x, ast.Attribute) and isinstance(x.value, ast.Name) and x.value.id in ("self", "cls", cls.name)) or not any(x is y for y in ast.walk(cls)) for x in uses):
            return False

        def field_of(e, fn_):
            if isinstance(e, ast.Attribute) and isinstance(e.value, ast.Name) and e.value.id not in ("self", "cls"):
                return e.attr
            if isinstance(e, ast.Name) and fn_ is not None:
                ds = [a_.value for a_ in ast.walk(fn_) if isinstance(a_, ast.Assign) and len(a_.targets) == 1 and isinstance(a_.targets[0], ast.Name) and a_.targets[0].id == e.id]
                if len(ds) == 1:
                    return field_of(ds[0], None)
            return None
        fields = set()
        for x in uses:
            par = getattr(x, "_parent", None)
            fn_ = x
            while fn_ is not None and not isinstance(fn_, (ast.FunctionDef, ast.AsyncFunctionDef)):
                fn_ = getattr(fn_, "_parent", None)
            cands = None
            if isinstance(par, ast.Tuple) and len(par.elts) == 2 and par.elts[1] is x:
                cands = [par.elts[0]]  # (container.field, self._REGEX) row of a verification table
            elif isinstance(par, ast.Attribute) and par.attr in ("match", "fullmatch") and isinstance(getattr(par, "_parent", None), ast.Call) and par._parent.args:
                cands = [par._parent.args[0]]
            elif isinstance(par, ast.Call) and any(a_ is x for a_ in par.args):
                cands = [a_ for a_ in par.args if a_ is not x]  # a helper that is handed the regex and the text
            if not cands:
                return False
            for c_ in cands:
                f_ = field_of(c_, fn_)
                if f_ is None:
                    return False
                fields.add(f_)
        # the struct: any module-level Struct of this module that declares all those fields with a fixed width of at most 64 bytes
        from ..core.layout import Layouts, Unknown, Struct as LStruct, Wrap
        L = Layouts(ctx)
        for st in m.tree.body:
            if isinstance(st, ast.Assign) and len(st.targets) == 1 and isinstance(st.targets[0], ast.Name) and isinstance(st.value, ast.Call):
                try:
                    lay = L.of_name(m, st.targets[0].id)
                except Exception:
                    continue
                cur = lay
                while isinstance(cur, Wrap):
                    cur = cur.inner
                if not isinstance(cur, LStruct):
                    continue
                sizes = {fn2_: f2_.size for fn2_, f2_ in cur.fields if fn2_}
                if fields and all(isinstance(sizes.get(f_), int) and 0 < sizes[f_] <= 64 for f_ in fields):
                    return True
        return False

    # (a) compiled regexes bound at module / class level (directly or through a pattern-building helper)
    helper_built = set()
    for m in ctx.prog.modules.values():
        holders = [m.tree] + [c for c in ast.walk(m.tree) if isinstance(c, ast.ClassDef)]
        for h in holders:
            for st in h.body:
                val = st.value if isinstance(st, (ast.Assign, ast.AnnAssign)) and getattr(st, "value", None) is not None else None
                if val is None:
                    continue
                try:
                    v = ctx.folder.ev(val, m)
                except Exception:
                    continue
                if isinstance(v, RegexVal):
                    judge(st, v.pattern, v.flags or 0, m)
                    if isinstance(val, ast.Call) and isinstance(val.func, ast.Name):
                        helper_built.add((m.path, val.func.id))
    # (b) re.<function>(pattern, ...) calls anywhere
    for m in ctx.prog.modules.values():
        for c in ast.walk(m.tree):
            if not (isinstance(c, ast.Call) and isinstance(c.func, ast.Attribute) and c.func.attr in _RE_FUNCS and isinstance(c.func.value, ast.Name) and c.func.value.id == "re"):
                continue
            r = ctx.prog.resolve(m, "re")
            if r is None or r[0] != "ext" or not c.args:
                continue
            try:
                pat = ctx.folder.ev(c.args[0], m)
            except NotConst as e:
                # inside a helper whose every use was folded to a constant regex in (a): judged there
                par = c
                while par is not None and not isinstance(par, (ast.FunctionDef, ast.AsyncFunctionDef)):
                    par = getattr(par, "_parent", None)
                uses = [u for u in ast.walk(m.tree) if isinstance(u, ast.Call) and isinstance(u.func, ast.Name) and par is not None and u.func.id == par.name]
                if par is not None and (m.path, par.name) in helper_built and uses and all(
                        isinstance(getattr(u, "_parent", None), (ast.Assign, ast.AnnAssign)) and isinstance(getattr(u._parent, "_parent", None), (ast.Module, ast.ClassDef)) for u in uses):
                    continue
                n += 1
                ctx.ob("T5", c, "regex pattern is a constant of the package (its matching cost can be judged)", False, f"`{norm(c.args[0])[:60]}`: {e}",
                       inst=f"regex-const:{m.path}:{norm(c.args[0])[:40]}", file=m.path)
                continue
            if not isinstance(pat, (str, bytes)):
                continue
            fl = 0
            fl_nodes = [k.value for k in c.keywords if k.arg == "flags"]
            if not fl_nodes and c.func.attr == "compile" and len(c.args) >= 2:
                fl_nodes = [c.args[1]]  # re.compile(pattern, flags)
            for fn_ in fl_nodes:
                try:
                    fl = int(ctx.folder.ev(fn_, m))
                except Exception:
                    fl = 0
            judge(c, pat, fl, m)
    ctx.fact("T5", "regexes", n)
