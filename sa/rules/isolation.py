"""I1 ISOLATE, I2 ONCE-GUARD, I3 WHO-MAY-WRITE, O1 ORPHAN-DEDUPE, R1 REWIND  (C02, C14, C15, C16)."""
import ast
import re

from ..core.loader import AnalysisError, dotted, norm, own_nodes, where, full, enclosing_class
from ..core.terms import Term, Evaluator
from ..core.symexec import run_paths, calls_on
from .util import evaluator, find_try_handler, handler_names, raises_in
from .streams import _walk

AK = "smpl_extract/akai/"
RO = "smpl_extract/roland/s7xx/"
A = Term.atom


def _infeasible(pr):
    """trivially contradictory path: `X is not X` taken, `X is X` refused (constant folding only)"""
    from ..core.symexec import _trivial
    for c, t, node in pr.conds:
        tv = _trivial(c)
        if tv is not None and tv != t:
            return True  # a condition with a constant truth value taken the other way
        if c.startswith("IsNot(") and t:
            a, b = _args(c)
            if a == b:
                return True
        if c.startswith("Is(") and not t:
            a, b = _args(c)
            if a == b:
                return True
    return False


def _args(c):
    inner = c[c.index("(") + 1:-1]
    depth = 0
    for i, ch in enumerate(inner):
        if ch == "(":
            depth += 1
        elif ch == ")":
            depth -= 1
        elif ch == "," and depth == 0:
            return inner[:i], inner[i + 1:]
    return inner, None


def rule_I5(ctx):
    """Roland partial -> sample references: the four slots are scanned independently (C02: every referenced sample is
    collected; C14/C15: an unused or damaged slot does not hide the later ones)"""
    from .sem import single_defs
    pa = ctx.fn(RO + "partial_entry.py", "PartialEntryAdapter._parse", "I5")
    cfg = ctx.cfg(pa, "I5")
    defs = single_defs(pa)

    def slots(e, depth=0):
        if isinstance(e, ast.Name) and e.id in defs and depth < 3:
            return slots(defs[e.id], depth + 1)
        if isinstance(e, ast.Call) and len(e.args) == 1 and not e.keywords and isinstance(e.func, ast.Name) and e.func.id in ("ListContainer", "list", "tuple"):
            return slots(e.args[0], depth + 1)
        if isinstance(e, (ast.List, ast.Tuple)):
            return [norm(x) for x in e.elts]
        return None

    want = [f"container.parameter.sample_{i}" for i in (1, 2, 3, 4)]
    loops = [f for f in own_nodes(pa) if isinstance(f, ast.For) and slots(f.iter) is not None]
    if len(loops) != 1:
        ctx.ob("I5", pa, "Roland partial: one loop visits the sample slots of the partial", False, f"{len(loops)} candidate loops", inst="partial:loop")
        return
    loop = loops[0]
    got = slots(loop.iter)
    ctx.ob("I5", loop, "Roland partial: the slots visited are sample_1..sample_4 in order", got == want, "" if got == want else f"{got}", inst="partial:four")
    # the list handed to PartialEntry(sample_entry_references=...)
    kw = [k for c in own_nodes(pa) if isinstance(c, ast.Call) for k in c.keywords if k.arg == "sample_entry_references"]
    ok = len(kw) == 1 and isinstance(kw[0].value, ast.Name)
    ctx.ob("I5", pa, "Roland partial: the collected references are what the partial carries", ok, "", inst="partial:carried")
    if not ok:
        return
    acc = kw[0].value.id
    tgt = norm(loop.target)
    lp = cfg.loop_of(loop)
    n_err = n_ok = 0
    for kind, path, edge in cfg.iteration_paths(lp, skip_labels=()):
        if kind == "exit" and len(path) == 1:
            continue  # the iterator is exhausted: all slots were visited
        pr = _walk(ctx, pa, cfg, path)
        if _infeasible(pr):
            continue
        appends = [s_ for s_ in pr.steps if s_.kind == "stmt" and isinstance(s_.ast, ast.Expr) and isinstance(s_.ast.value, ast.Call)
                   and norm(s_.ast.value.func) == f"{acc}.append"]
        through_handler = any(s_.kind == "except" for s_ in pr.steps)
        lines = pr.lines()
        if through_handler:
            n_err += 1
            if kind != "back":
                ctx.ob("I5", loop, "an unused or unresolvable slot does not end the scan of the later slots", False,
                       f"the error path through lines {lines} leaves the loop: samples referenced by later slots are never collected", inst=f"partial:continues:{kind}")
            else:
                ctx.ob("I5", loop, "an unused or unresolvable slot does not end the scan of the later slots", True, "", inst="partial:continues:back")
                ctx.ob("I5", loop, "an unresolvable slot contributes no reference", not appends, "" if not appends else f"error path through lines {lines} appends", inst="partial:no-append")
        else:
            if kind != "back":
                ctx.ob("I5", loop, "a resolved slot does not end the scan", False, f"path through lines {lines} leaves the loop", inst=f"partial:ok-continues:{kind}")
                continue
            n_ok += 1
            parses = [c for c, e, st in calls_on(pr) if isinstance(c.func, ast.Attribute) and c.func.attr in ("_parse", "parse_stream", "_parsereport")]
            good = len(appends) == 1 and len(parses) == 1
            if good:
                # what is appended is the value of this iteration's parse; the parse is given this iteration's slot
                arg = appends[0].ast.value.args[0] if appends[0].ast.value.args else None
                src = [s_ for s_ in pr.steps if s_.kind == "stmt" and isinstance(s_.ast, ast.Assign) and isinstance(arg, ast.Name)
                       and norm(s_.ast.targets[0]) == arg.id]
                good = (isinstance(arg, ast.Name) and len(src) == 1 and src[0].ast.value is parses[0]) or arg is parses[0]
                body = " ".join(norm(s_.ast) for s_ in pr.steps if s_.kind == "stmt")
                good = good and (f"['ref_container'] = {tgt}" in body)
            ctx.ob("I5", loop, "a resolved slot appends exactly its own reference (parsed with this slot as ref_container)", good,
                   "" if good else f"path through lines {lines}", inst="partial:append")
    ctx.ob("I5", loop, "slot errors are handled inside the loop (ConstructError swallowed per slot)", n_err >= 1 and n_ok >= 1, f"error paths={n_err} ok paths={n_ok}", inst="partial:handler")
    names = set()
    for t in ast.walk(loop):
        if isinstance(t, ast.Try):
            for h in t.handlers:
                names |= set(handler_names(h))
    ctx.ob("I5", loop, "the per-slot handler catches ConstructError (unused slot: index -1 fails the reference parse)", "ConstructError" in names, f"{sorted(names)}", inst="partial:exceptions")


def rule_I10(ctx):
    """truncation (C15): the AKAI file-table scan reads its stream only where a failed read is turned into a skipped / final entry"""
    fe = ctx.fn(AK + "file_entry.py", "FileEntriesAdapter._parse", "I10")
    PARSE = ("self.subcon.parse_stream", "self.subcon.parse")
    loops = [l_ for l_ in own_nodes(fe) if isinstance(l_, (ast.For, ast.While)) and any(isinstance(c, ast.Call) and norm(c.func) in PARSE for c in ast.walk(l_))]
    if len(loops) != 1:
        raise AnalysisError("I10", where(fe), f"entry loop not found ({len(loops)} candidates)")
    loop = loops[0]
    # the table stream is only read where a failure is turned into a skipped entry: through construct's stream parsing (which reports a
    # failed read as a ConstructError) or inside a try that handles the sector layer's own errors
    tstream = fe.args.args[1].arg
    raw = [c for c in ast.walk(loop) if isinstance(c, ast.Call) and isinstance(c.func, ast.Attribute) and c.func.attr in ("read", "readall", "readinto", "readline", "readlines")
           and norm(c.func.value) == tstream]
    bad_raw = [c for c in raw if find_try_handler(c, loop, {"SectorReadError", "Exception", "OSError", "IOError", "BaseException", "<bare>"}) is None]
    ctx.ob("I10", bad_raw[0] if bad_raw else loop, "AKAI file table: a read failure on the table stream ends or skips the entry, it never escapes the scan", not bad_raw,
           "" if not bad_raw else f"`{norm(bad_raw[0])}` reads the table stream directly, outside any handler for a failed sector read: on a truncated image the error "
           "aborts the whole directory", inst="akai-table:raw-read")
    _i10_volume_stream(ctx)
    _i10_partition_accept(ctx)



# exceptions that construct itself derives from ConstructError (construct 2.10 class hierarchy)
_CONSTRUCT_ERRORS = {"ConstructError", "SizeofError", "AdaptationError", "ValidationError", "CancelParsing", "CipherError", "RebufferedIOError", "MappingError", "IntegerError",
                     "StringError", "FormatFieldError", "StreamError", "RangeError", "RepeatError", "ConstError", "IndexFieldError", "CheckError", "ExplicitError",
                     "NamedTupleError", "TimestampError", "UnionError", "SelectError", "SwitchError", "StopFieldError", "PaddingError", "TerminatedError", "RawCopyError",
                     "RotationError", "ChecksumError", "CancelParsing"}
# raises on the Roland sample path that cannot fire there, confirmed by reading (frozen: a new raise is not covered)
I11_UNREACHABLE = {
    ("get_path", "RequestedInvalidSector"):
        "the Roland table has FAT_NUM_ENTRIES = 0x10000 entries and a chain starts at an Int16ul directory field / continues with stored 16-bit links: never past the table",
    ("get_path", "InvalidFatDefinition"):
        "the Roland decoder rejects looping chains when the table is decoded (D1r), so a stored chain ends within `size` steps",
    ("_decode_element", "FatNotPresent"):
        "the image parser parses the FAT area before the directory areas and hands it down in the context of every sample record",
}


def _i10_volume_stream(ctx):
    """the volume's file table is parsed straight from the sector stream of its segment: how much of a cut-off directory sector is
    readable is then decided entry by entry (a copy fetched in one piece is all or nothing)"""
    from .util import path_call_keys as _pk10, call_parts as _cp10
    va = ctx.fn(AK + "volume.py", "VolumesAdapter._decode_element", "I10")
    seen = set()
    for ks_ in _pk10(ctx, va, "I10", ends=("return", "fall", "raise"), limit=4000, include_exc=False):
        for k_ in ks_:
            if k_.startswith("VolumeBodyConstruct.parse_stream("):
                _n, pos_, kw_ = _cp10(k_.replace("~", ""))
                seen.add(pos_[0] if pos_ else "?")
    ok = bool(seen) and seen <= {"(self.sat(context)).get_segment(volume_entry.start)", "(self.sat).get_segment(volume_entry.start)"}
    ctx.ob("I10", va, "the volume's file table is parsed from its segment's sector stream itself", ok, "" if ok else f"parsed from {sorted(seen)}", inst="volume-body-stream")


def _i10_partition_accept(ctx):
    """a partition whose header parses is taken as it is, however much of it the (possibly cut) file still holds: the adapter refuses a
    header only for an undecodable name and for a non-positive size - what is missing shows up later, file by file"""
    pa = ctx.fn(AK + "partition.py", "PartitionAdapter._parse", "I10")
    ok, det, n_raise = True, "", 0
    for p in run_paths(ctx, pa, rule="I10", include_exc=True, limit=4000):
        if p.end != "raise":
            continue
        n_raise += 1
        via_handler = any(s_.kind == "except" for s_ in p.steps)
        conds = [(c_.replace("~", ""), t_) for c_, t_, _n in p.conds]
        size_guard = len(conds) == 1 and conds[0][1] and conds[0][0].endswith(".header.size <= 0")
        if not ((via_handler and not conds) or size_guard):
            ok, det = False, f"a header is also refused under [{' & '.join(('' if t_ else 'not ') + c_[-70:] for c_, t_ in conds)}]"
    ctx.ob("I10", pa, "a parsed partition header is refused only for an undecodable name or a non-positive size", ok and n_raise >= 2, det, inst="partition-accept")


def rule_I11(ctx):
    """damage (C14): realising one Roland sample can only fail with an exception that the tolerant record loops swallow - a failure
    of any other type would abort the whole listing / export instead of the one sample"""
    prog = ctx.prog
    # what the tolerant loops swallow: the handler around each reference in PartialEntryAdapter._parse and around each list element in
    # SafeListConstruct._parse (a sample is realised under one or the other)
    pa = ctx.fn(RO + "partial_entry.py", "PartialEntryAdapter._parse", "I11")
    sl = ctx.fn("smpl_extract/util/constructs.py", "SafeListConstruct._parse", "I11")
    handled = None
    for fn_ in (pa, sl):
        loops = [l_ for l_ in own_nodes(fn_) if isinstance(l_, (ast.For, ast.While))]
        names = set()
        for l_ in loops:
            for t_ in ast.walk(l_):
                if isinstance(t_, ast.Try) and any(isinstance(c_, ast.Call) and isinstance(c_.func, ast.Attribute) and c_.func.attr in ("_parse", "_parsereport", "parse_stream") for b_ in t_.body for c_ in ast.walk(b_)):
                    for h_ in t_.handlers:
                        if not any(isinstance(x_, ast.Raise) for st_ in h_.body for x_ in ast.walk(st_)):
                            names |= set(handler_names(h_))
        if not names:
            raise AnalysisError("I11", where(fn_), "tolerant record loop (try around the element parse) not found")
        handled = names if handled is None else (handled & names)
    ctx.fact("I11", "handled", sorted(handled))
    # side condition of the frozen entry (get_path, RequestedInvalidSector): the decoded Roland table covers every value a 16-bit
    # start cluster / link can take
    fd = ctx.fn(RO + "fat.py", "FatAreaAdapter._decode", "I11")
    sd_ = {}
    for a_ in own_nodes(fd):
        if isinstance(a_, ast.Assign) and len(a_.targets) == 1 and isinstance(a_.targets[0], ast.Name):
            sd_.setdefault(a_.targets[0].id, []).append(a_.value)

    def _fold11(e, depth=0):
        if isinstance(e, ast.Name) and len(sd_.get(e.id, [])) == 1 and depth < 4:
            return _fold11(sd_[e.id][0], depth + 1)
        if isinstance(e, ast.BinOp):
            l_, r_ = _fold11(e.left, depth + 1), _fold11(e.right, depth + 1)
            if isinstance(l_, int) and isinstance(r_, int):
                return {ast.Add: l_ + r_, ast.Sub: l_ - r_, ast.Mult: l_ * r_}.get(type(e.op))
            return None
        try:
            v_ = ctx.folder.ev(e, fd._module)
            return v_ if isinstance(v_, int) and not isinstance(v_, bool) else None
        except Exception:
            return None
    tc = [c for c in own_nodes(fd) if isinstance(c, ast.Call) and norm(c.func) == "RolandFileAllocationTable"]
    from .util import positional_args as _pa11
    tca = _pa11(ctx, fd._module, tc[0]) if len(tc) == 1 else []
    size_arg = _fold11(tca[1]) if len(tca) >= 2 else None
    lens = []
    for nm_, vs_ in sd_.items():
        for v_ in vs_:
            if isinstance(v_, ast.BinOp) and isinstance(v_.op, ast.Mult) and isinstance(v_.left, ast.List) and len(v_.left.elts) == 1 and norm(v_.left.elts[0]).startswith("SectorLink("):
                lens.append(_fold11(v_.right))
            elif isinstance(v_, ast.ListComp) and len(v_.generators) == 1 and not v_.generators[0].ifs and isinstance(v_.generators[0].iter, ast.Call) \
                    and norm(v_.generators[0].iter.func) == "range" and len(v_.generators[0].iter.args) == 1 \
                    and (norm(v_.elt).startswith("SectorLink(") or (isinstance(v_.elt, ast.Name) and len(sd_.get(v_.elt.id, [])) == 1 and norm(sd_[v_.elt.id][0]).startswith("SectorLink("))):
                # one placeholder link per table entry, written as a comprehension over range(N)
                lens.append(_fold11(v_.generators[0].iter.args[0]))
    ok = size_arg == 0x10000 and lens and all(x_ == 0x10000 for x_ in lens)
    ctx.ob("I11", tc[0] if tc else fd, "the decoded Roland cluster table has an entry for every 16-bit cluster number (a damaged start cluster is looked up, not out of range)", ok,
           "" if ok else f"table size {size_arg}, link list length(s) {lens}: a start cluster at or beyond the table raises RequestedInvalidSector, which no Roland record loop swallows",
           inst="roland-table-covers-16-bit")

    def covered(exc):
        if exc in handled or "<bare>" in handled or "Exception" in handled or "BaseException" in handled:
            return True
        if exc in _CONSTRUCT_ERRORS and "ConstructError" in handled:
            return True
        # package class: walk its bases
        for m_, q_, c_ in prog.all_classes():
            if c_.name == exc:
                for b_ in c_.bases:
                    bn = (dotted(b_) or "").split(".")[-1]
                    if bn and bn != exc and covered(bn):
                        return True
        builtin_parents = {"KeyError": "LookupError", "IndexError": "LookupError", "UnicodeDecodeError": "UnicodeError", "UnicodeError": "ValueError",
                           "FileNotFoundError": "OSError", "NotImplementedError": "RuntimeError"}
        par = builtin_parents.get(exc)
        return covered(par) if par else False

    root_cls = prog.klass(RO + "fat.py", "RolandFileAllocationTable", "I11")
    root = prog.find_method(root_cls, "get_file")
    if root is None:
        raise AnalysisError("I11", RO + "fat.py", "RolandFileAllocationTable.get_file not found")
    se_cls = prog.klass(RO + "sample_entry.py", "SampleEntryAdapter", "I11")
    se = prog.find_method(se_cls, "_decode_element")
    if se is None:
        raise AnalysisError("I11", RO + "sample_entry.py", "SampleEntryAdapter._decode_element not found")
    seen, work = {}, [(root, root_cls, 0), (se, se_cls, 0)]
    while work:
        fn_, cls_, d_ = work.pop()
        if id(fn_) in seen or d_ > 5:
            continue
        seen[id(fn_)] = (fn_, cls_)
        for c_ in own_nodes(fn_):
            if not isinstance(c_, ast.Call):
                continue
            f_ = c_.func
            if isinstance(f_, ast.Attribute) and isinstance(f_.value, ast.Name) and f_.value.id == "self" and cls_ is not None:
                m_ = prog.find_method(cls_, f_.attr)
                if m_ is not None:
                    work.append((m_, cls_, d_ + 1))
            elif isinstance(f_, ast.Attribute) and isinstance(f_.value, ast.Call) and isinstance(f_.value.func, ast.Name) and f_.value.func.id == "super" and cls_ is not None:
                own_cls = enclosing_class(fn_)
                mro_ = prog.mro(cls_)
                if own_cls in mro_:
                    for k_ in mro_[mro_.index(own_cls) + 1:]:
                        m_ = next((st_ for st_ in k_.body if isinstance(st_, ast.FunctionDef) and st_.name == f_.attr), None)
                        if m_ is not None:
                            work.append((m_, cls_, d_ + 1))
                            break
            elif isinstance(f_, ast.Name):
                r_ = prog.resolve(fn_._module, f_.id)
                if r_ and r_[0] == "func":
                    work.append((r_[1], None, d_ + 1))
                elif r_ and r_[0] == "class":
                    init_ = prog.find_method(r_[1], "__init__")
                    if init_ is not None:
                        work.append((init_, r_[1], d_ + 1))
    n = 0
    for fn_, cls_ in seen.values():
        for r_ in own_nodes(fn_):
            if not isinstance(r_, ast.Raise) or r_.exc is None:
                continue
            e_ = r_.exc.func if isinstance(r_.exc, ast.Call) else r_.exc
            exc = (dotted(e_) or "?").split(".")[-1]
            if isinstance(e_, ast.Name) and any(isinstance(getattr(x_, "_parent", None), ast.ExceptHandler) and getattr(x_._parent, "name", None) == e_.id for x_ in [r_]):
                continue  # `raise e` of the caught exception itself
            if find_try_handler(r_, fn_, {exc}) is not None:
                continue
            n += 1
            ok = covered(exc)
            why = ""
            if not ok:
                why = I11_UNREACHABLE.get((fn_.name, exc))  # keyed by the method as reached on the call graph, whichever class of the MRO holds it
                ok = why is not None
            ctx.ob("I11", r_, f"{fn_._qualname}: a failure raised while realising a Roland sample is of a type the record loops swallow", ok,
                   "" if ok else f"`raise {exc}` is not handled by the per-record handlers {sorted(handled)}: one bad sample aborts the listing / export of all others",
                   inst=f"{fn_._qualname}:{exc}")
    nfat = ctx.const(RO + "data_types.py", "FAT_NUM_ENTRIES", "I11")
    ctx.ob("I11", root, "the Roland allocation table has an entry for every 16-bit cluster number", isinstance(nfat, int) and nfat >= 0x10000, f"{nfat}", inst="fat-covers-u16")
    ctx.fact("I11", "functions", sorted(f_._qualname for f_, _c in seen.values()))
    if n < 3:
        raise AnalysisError("I11", "-", f"only {n} raise sites on the Roland sample path (confirmed: 3)")


def rule_I12(ctx):
    """history (C16): the lists an exported sample carries are its own.  (a) to_generalized builds the data-stream list anew on
    every call (an element is exported again on the next run); (b) combine_stereo never grows, in place, a list that one of its
    input samples still holds"""
    from .util import call_parts as _cp12
    n = 0
    for path, q in ((AK + "sample.py", "AkaiSample.to_generalized"), (RO + "sample_file.py", "SampleFile.to_generalized"), ("smpl_extract/cdda/image.py", "AudioTrack.to_generalized")):
        fn = ctx.fn(path, q, "I12")
        vals = set()
        for p_ in run_paths(ctx, fn, rule="I12", limit=4000):
            if p_.end != "return":
                continue
            for c_, e_, st_ in calls_on(p_, name="Sample"):
                _n, pos_, kw_ = _cp12(evaluator(ctx, fn, e_).ev(c_).key())
                vals.add(kw_.get("data_streams"))
        n += 1
        fresh = bool(vals) and all(v_ is not None and (v_.startswith("[") or v_.startswith("comp(") or v_.startswith("list(") or v_.startswith("rep(")) for v_ in vals)
        ctx.ob("I12", fn, f"{q}: the generalized sample gets a data-stream list of its own, built by this call", fresh,
               "" if fresh else f"data_streams is `{sorted(str(v_) for v_ in vals)[0][:80]}`: every export of the element hands out the same list object", inst=f"fresh-list:{q}")
    cb = ctx.fn("smpl_extract/generalized/sample.py", "combine_stereo", "I12")
    from .sem import record_fields
    nn = cb.args.args[2].arg if len(cb.args.args) > 2 else None
    ok, det = True, ""
    for assume_val in (True, False):
        r_ = record_fields(cb, lambda t, a=assume_val: a if nn and t in (f"{nn} is not None",) else ((not a) if nn and t == f"{nn} is None" else None))
        if r_ is None:
            raise AnalysisError("I12", where(cb), "combine_stereo: how the result's fields are produced is not understood (unrecognised form)")
        shared = r_[0].get("__iadd_on_shared__") or []
        if shared:
            ok, det = False, f"`{shared[0]}` of the result is the left sample's own list (shallow copy) and is extended in place: the left element keeps the extra streams for the next export"
    params = [a_.arg for a_ in cb.args.args[:2]]
    for x_ in own_nodes(cb):
        tgt = None
        if isinstance(x_, ast.AugAssign) and isinstance(x_.target, ast.Attribute):
            tgt = x_.target.value
        elif isinstance(x_, ast.Call) and isinstance(x_.func, ast.Attribute) and x_.func.attr in ("append", "extend", "insert", "pop", "remove", "clear", "sort", "reverse") and isinstance(x_.func.value, ast.Attribute):
            tgt = x_.func.value.value
        elif isinstance(x_, ast.Assign) and any(isinstance(t_, ast.Attribute) and isinstance(t_.value, ast.Name) and t_.value.id in params for t_ in x_.targets):
            tgt = next(t_.value for t_ in x_.targets if isinstance(t_, ast.Attribute) and isinstance(t_.value, ast.Name) and t_.value.id in params)
        if isinstance(tgt, ast.Name) and tgt.id in params:
            ok, det = False, f"`{norm(x_)[:60]}` changes the input sample `{tgt.id}` itself"
    ctx.ob("I12", cb, "combine_stereo leaves the two samples it merges as they were (the merged lists are copies)", ok, det, inst="combine-no-alias")
    # (c) a chain walk hands out a list of its own: created by the call, not kept on the table object
    gp = ctx.fn("smpl_extract/util/fat.py", "FileAllocationTable.get_path", "I12")
    rets = [r_ for r_ in own_nodes(gp) if isinstance(r_, ast.Return) and r_.value is not None]
    okc, detc = bool(rets), "no return"
    for r_ in rets:
        if not isinstance(r_.value, ast.Name):
            okc, detc = False, f"returns `{norm(r_.value)[:60]}`, not a list built by this call"
            continue
        nm_ = r_.value.id
        defs_ = [a_ for a_ in own_nodes(gp) if isinstance(a_, (ast.Assign, ast.AnnAssign)) and norm(a_.targets[0] if isinstance(a_, ast.Assign) else a_.target) == nm_]
        if not defs_ or not all(isinstance(a_.value, (ast.List, ast.ListComp)) or (isinstance(a_.value, ast.Call) and norm(a_.value.func) == "list") for a_ in defs_):
            okc, detc = False, f"`{nm_}` is not always a list created in the call"
        kept = [a_ for a_ in own_nodes(gp) if isinstance(a_, ast.Assign) and any((dotted(t_) or norm(t_)).startswith("self.") for t_ in a_.targets)
                and any(isinstance(x_, ast.Name) and x_.id == nm_ for x_ in ast.walk(a_.value))]
        kept += [c_ for c_ in own_nodes(gp) if isinstance(c_, ast.Call) and isinstance(c_.func, ast.Attribute) and norm(c_.func.value).startswith("self.")
                 and c_.func.attr in ("append", "setdefault", "update", "__setitem__", "add") and any(isinstance(x_, ast.Name) and x_.id == nm_ for a2_ in c_.args for x_ in ast.walk(a2_))]
        if kept:
            okc, detc = False, f"the returned list is also kept on the table (`{norm(kept[0])[:60]}`): every caller shares one list object"
    ctx.ob("I12", gp, "get_path returns a list of its own making and keeps no reference to it", okc, "" if okc else detc, inst="get_path-fresh")
    # (d) nobody changes, in place, a list another method handed back
    pkg_names = {f_.name for _m, _q, f_ in ctx.prog.all_functions()}
    hits = _foreign_list_mutations(ctx.prog.all_functions(), pkg_names)
    ctx.ob("I12", hits[0][2] if hits else gp, "a list returned by another method is not changed in place (del / item assignment / append ... on it)", not hits,
           "" if not hits else f"{hits[0][0]}: `{hits[0][1]}`", inst="no-foreign-mutation")
    # positive control: the rule recognises the shape it forbids
    ctl = ast.parse("class T:\n    def f(self, i, k):\n        xs = self.get_path(i)\n        del xs[:k]\n        return xs\n")
    for n_ in ast.walk(ctl):
        for ch_ in ast.iter_child_nodes(n_):
            ch_._parent = n_
    cfn = ctl.body[0].body[0]
    if not _foreign_list_mutations([(None, "T.f", cfn)], {"get_path"}):
        raise AnalysisError("I12", "positive-control", "in-place change of a returned list is not recognised")


_MUTATORS = ("append", "extend", "insert", "pop", "remove", "clear", "sort", "reverse")


def _foreign_list_mutations(functions, pkg_names):
    """in-place changes of a local whose value is what a method of the package returned (a builtin container method such as
    dict.setdefault / dict.fromkeys hands out the caller's own object and is not meant)"""
    out = []
    for m, q, fn in functions:
        defs = {}
        for a in own_nodes(fn):
            if isinstance(a, ast.Assign) and len(a.targets) == 1 and isinstance(a.targets[0], ast.Name):
                defs.setdefault(a.targets[0].id, []).append(a.value)
        for x in own_nodes(fn):
            nm = None
            if isinstance(x, ast.Call) and isinstance(x.func, ast.Attribute) and x.func.attr in _MUTATORS and isinstance(x.func.value, ast.Name):
                nm = x.func.value.id
            elif isinstance(x, ast.Delete):
                nm = next((t.value.id for t in x.targets if isinstance(t, ast.Subscript) and isinstance(t.value, ast.Name)), None)
            elif isinstance(x, ast.Assign):
                nm = next((t.value.id for t in x.targets if isinstance(t, ast.Subscript) and isinstance(t.value, ast.Name)), None)
            if nm is None or nm not in defs:
                continue
            for v in defs[nm]:
                if isinstance(v, ast.Call) and isinstance(v.func, ast.Attribute) and v.func.attr in pkg_names \
                        and v.func.attr not in ("copy", "deepcopy", "tolist", "split", "splitlines", "readlines", "keys", "values", "items", "get", "setdefault", "fromkeys") \
                        and not (isinstance(v.func.value, ast.Name) and v.func.value.id in ("np", "numpy", "copy", "re")) \
                        and isinstance(v.func.value, (ast.Name, ast.Attribute)):
                    out.append((q, norm(x)[:80], x))
    return out


# construct 2.10 classes that emit inline parsing code when compiled (they define _emitparse); any other class - in particular every
# Adapter / Subconstruct subclass of the package - is linked in and parsed by its ordinary _parse, which reports a failed or
# short read as StreamError.  A compiled FormatField is `struct.Struct(fmt).unpack(io.read(n))[0]`: a short read is a struct.error.
_COMPILABLE = {"Struct", "Sequence", "Array", "Renamed", "Const", "Computed", "Rebuild", "Default", "Check", "Error", "FocusedSeq", "Hex", "Union", "IfThenElse", "If",
               "Switch", "StopIf", "Padded", "Padding", "Aligned", "Pointer", "Peek", "Seek", "Tell", "Pass", "Prefixed", "FixedSized", "Enum", "FlagsEnum", "Mapping",
               "Bytes", "GreedyBytes", "Flag", "StringEncoded", "PaddedString", "Compiled"}


def _compiled_format_fields(lay, inline=False, path="", out=None, seen=None):
    """paths of integer / float fields that are parsed by compiled inline code inside layout `lay`"""
    from ..core.layout import Struct as LS, Arr, Wrap, Fixed, Prim, Dyn, Zero, BitsS
    out = [] if out is None else out
    seen = set() if seen is None else seen
    if isinstance(lay, tuple):
        lay = lay[-1]
    if id(lay) in seen and not inline:
        return out
    seen.add(id(lay))
    inline = inline or bool(getattr(lay, "_compiled", False))
    if isinstance(lay, Prim):
        if inline and lay.kind in ("int", "float"):
            out.append(path or "<field>")
        return out
    if isinstance(lay, LS):
        for n_, f_ in lay.fields:
            _compiled_format_fields(f_, inline, f"{path}.{n_}" if path else str(n_), out, seen)
        return out
    if isinstance(lay, Arr):
        return _compiled_format_fields(lay.elem, inline, path + "[]", out, seen)
    if isinstance(lay, Fixed):
        return _compiled_format_fields(lay.inner, inline, path, out, seen)
    if isinstance(lay, BitsS):
        return out  # Bitwise is not compilable
    if isinstance(lay, Wrap):
        return _compiled_format_fields(lay.inner, inline and lay.tag in _COMPILABLE, path, out, seen)
    return out


def rule_I13(ctx):
    """truncation (C15): the partition scan reads straight from the image file, whose reads come back short at the cut.  Where the
    parsed construct contains compiled inline integer fields, a short read surfaces as struct.error (not a ConstructError): the handler
    that ends the scan must take it too, or a cut inside such a field aborts the export of everything before it"""
    from ..core.layout import Layouts, Unknown
    L = Layouts(ctx)
    lp = ctx.fn(AK + "image.py", "AkaiImageParser._load_partitions", "I13")
    ps = [c for c in own_nodes(lp) if isinstance(c, ast.Call) and isinstance(c.func, ast.Attribute) and c.func.attr == "parse_stream" and isinstance(c.func.value, ast.Name)]
    if len(ps) != 1:
        raise AnalysisError("I13", where(lp), f"partition parse site not found ({len(ps)} candidates)")
    try:
        lay = L.of_name(lp._module, ps[0].func.value.id)
    except Unknown as e:
        raise AnalysisError("I13", where(lp), f"layout: {e}")
    hot = _compiled_format_fields(lay)
    ctx.fact("I13", "compiled_inline_fields", hot[:12])
    raw = bool(ps[0].args) and norm(ps[0].args[0]) == "self.file"
    h = find_try_handler(ps[0], lp, {"ConstructError"})
    names = set(handler_names(h, dotted_names=True)) if h is not None else set()
    short = {n_.split(".")[-1] for n_ in names}
    takes_struct = bool(names & {"struct.error", "Exception", "BaseException", "<bare>"}) or (("error" in short) and any(n_ in ("error",) for n_ in names) and
                                                                                              any(isinstance(i_, ast.ImportFrom) and i_.module == "struct" and any(a_.name == "error" for a_ in i_.names)
                                                                                                  for i_ in ast.walk(lp._module.tree)))
    ok = h is not None and "ConstructError" in short and (not hot or not raw or takes_struct)
    ctx.ob("I13", ps[0], "the partition scan ends cleanly wherever the file is cut: its handler takes every error a short read can surface as", ok,
           "" if ok else f"the parsed construct has compiled inline fields (e.g. {hot[0] if hot else '?'}): a cut inside one raises struct.error, which "
           f"`except ({', '.join(sorted(names))})` lets through - the export aborts and the partitions before the cut are lost", inst="partition-scan:short-read")
    if not hot:
        ctx.note("I13: no compiled inline integer field on the partition parse path (obligation holds trivially)") if hasattr(ctx, "note") else None


def _element_cache_sites(prog, functions, classes):
    """(qualname, text, node) for: an object built from a package class stored into a container reached from `context` / `self` / a
    module-level name, or a decode method returning an item of such a container"""
    out = []
    for m, q, fn in functions:
        defs = {}
        for a in own_nodes(fn):
            if isinstance(a, ast.Assign) and len(a.targets) == 1 and isinstance(a.targets[0], ast.Name):
                defs.setdefault(a.targets[0].id, []).append(a.value)
        params = {a.arg for a in fn.args.posonlyargs + fn.args.args + fn.args.kwonlyargs}
        local_stores = {x.id for x in own_nodes(fn) if isinstance(x, ast.Name) and isinstance(x.ctx, ast.Store)}

        def root(e, depth=0):
            """'context' / 'self' / 'module' / None: where the container expression comes from"""
            if depth > 4:
                return None
            if isinstance(e, ast.Name):
                if e.id in ("context", "ctx") and e.id in params:
                    return "context"
                if e.id == "self":
                    return "self"
                if e.id in defs:
                    # any of its definitions may be the one in force
                    rs_ = [r_ for r_ in (root(v_, depth + 1) for v_ in defs[e.id]) if r_ is not None]
                    return rs_[0] if rs_ else None
                if e.id not in local_stores and e.id not in params and m is not None and m.env.get(e.id) and m.env.get(e.id)[0] == "assign":
                    return "module"
                return None
            if isinstance(e, (ast.Subscript, ast.Attribute)):
                return root(e.value, depth + 1)
            if isinstance(e, ast.Call) and isinstance(e.func, ast.Attribute) and e.func.attr in ("setdefault", "get"):
                return root(e.func.value, depth + 1)
            return None

        def built(e, depth=0):
            if depth > 3:
                return False
            if isinstance(e, ast.Call) and isinstance(e.func, ast.Name) and e.func.id in classes:
                return True
            if isinstance(e, ast.Name) and e.id in defs:
                return any(built(v, depth + 1) for v in defs[e.id])
            return False

        for x in own_nodes(fn):
            if isinstance(x, ast.Assign):
                for t in x.targets:
                    if isinstance(t, ast.Subscript) and root(t.value) in ("context", "self", "module") and built(x.value):
                        out.append((q, norm(x)[:80], x))
            if isinstance(x, ast.Call) and isinstance(x.func, ast.Attribute) and x.func.attr in ("setdefault", "append", "add") and len(x.args) >= 1 \
                    and root(x.func.value) in ("context", "self", "module") and built(x.args[-1]):
                out.append((q, norm(x)[:80], x))
            if isinstance(x, ast.Return) and x.value is not None and fn.name in ("_decode", "_decode_element", "_parse") \
                    and isinstance(x.value, (ast.Subscript, ast.Call)) and (isinstance(x.value, ast.Subscript) or (isinstance(x.value.func, ast.Attribute) and x.value.func.attr == "get")) \
                    and root(x.value if isinstance(x.value, ast.Subscript) else x.value.func.value) in ("context", "self", "module") \
                    and not (isinstance(x.value, ast.Subscript) and isinstance(x.value.slice, ast.Constant) and isinstance(x.value.slice.value, str)):
                out.append((q, norm(x)[:80], x))
    return out


def rule_I14(ctx):
    """uniqueness / history (C06, C16): every decode builds its element anew.  No adapter keeps the elements it built in a container that
    outlives the call (the shared construct context, the adapter object, a module-level table) and none hands back an element taken
    from such a container: a second directory that lists the same record would get the first directory's object - with the first
    directory as its parent and its path"""
    classes = {c.name for m_, q_, c in ctx.prog.all_classes()}
    fns = [(m, q, fn) for m, q, fn in ctx.prog.all_functions() if fn.name in ("_decode", "_decode_element", "_parse", "_parsereport") or q.split(".")[0].endswith(("Adapter", "Construct", "List"))]
    hits = _element_cache_sites(ctx.prog, fns, classes)
    ctx.ob("I14", hits[0][2] if hits else ctx.prog.modules[sorted(ctx.prog.modules)[0]].tree, "decoded elements are built per call and not kept in the shared context / adapter / module state",
           not hits, "" if not hits else f"{hits[0][0]}: `{hits[0][1]}`", inst="no-element-cache", **({} if hits else {"file": "smpl_extract/util/constructs.py", "qualname": "<package>"}))
    ctx.fact("I14", "decode_functions", len(fns))
    if len(fns) < 30:
        raise AnalysisError("I14", "-", f"only {len(fns)} decode functions found (confirmed: > 40)")
    # positive control
    ctl = ast.parse("class Elem:\n    pass\nclass XAdapter:\n    def _decode_element(self, obj, child_info, context, path):\n        seen = context['_'].setdefault('_k', {})\n"
                    "        if obj.index in seen:\n            return seen[obj.index]\n        e = Elem()\n        seen[obj.index] = e\n        return e\n")
    for n_ in ast.walk(ctl):
        for ch_ in ast.iter_child_nodes(n_):
            ch_._parent = n_
    cfn = ctl.body[1].body[0]
    if len(_element_cache_sites(ctx.prog, [(None, "XAdapter._decode_element", cfn)], {"Elem"})) < 2:
        raise AnalysisError("I14", "positive-control", "a context-held element cache is not recognised")


def _mutable_default_sites(fns):
    """[(where, text)] parameters whose default is a mutable object built once at definition time (a display or list() / dict() /
    set()) and which the function mutates, returns or stores: the object then carries values from one call to the next"""
    hits = []
    MUT = ("append", "extend", "insert", "update", "add", "setdefault", "pop", "popitem", "clear", "remove", "discard", "sort", "reverse", "__setitem__", "__delitem__")
    for m, q, fn in fns:
        a = fn.args
        pos = a.posonlyargs + a.args
        pairs = list(zip(pos[len(pos) - len(a.defaults):], a.defaults)) + [(k, d) for k, d in zip(a.kwonlyargs, a.kw_defaults) if d is not None]
        for arg, d in pairs:
            if not (isinstance(d, (ast.List, ast.Dict, ast.Set, ast.ListComp, ast.DictComp, ast.SetComp))
                    or (isinstance(d, ast.Call) and isinstance(d.func, ast.Name) and d.func.id in ("list", "dict", "set", "bytearray", "defaultdict", "OrderedDict", "deque"))):
                continue
            p = arg.arg
            rebound_first = False
            for n in ast.walk(fn):
                bad = None
                if isinstance(n, ast.Subscript) and isinstance(n.value, ast.Name) and n.value.id == p and isinstance(n.ctx, (ast.Store, ast.Del)):
                    bad = "item assignment"
                elif isinstance(n, ast.AugAssign) and isinstance(n.target, ast.Name) and n.target.id == p:
                    bad = "augmented assignment"
                elif isinstance(n, ast.Call) and isinstance(n.func, ast.Attribute) and isinstance(n.func.value, ast.Name) and n.func.value.id == p and n.func.attr in MUT:
                    bad = f".{n.func.attr}()"
                elif isinstance(n, ast.Return) and isinstance(n.value, ast.Name) and n.value.id == p:
                    bad = "returned"
                elif isinstance(n, ast.Assign) and isinstance(n.value, ast.Name) and n.value.id == p and any(isinstance(t, (ast.Attribute, ast.Subscript)) for t in n.targets):
                    bad = "stored"
                if bad:
                    hits.append((f"{getattr(m, 'path', '?')}:{q}", f"parameter `{p}` defaults to `{norm(d)}` (one object for every call) and is changed or handed on ({bad})", n))
                    break
    return hits


def rule_I15(ctx):
    """history (C16): no function keeps values from an earlier call in a mutable default argument"""
    fns = list(ctx.prog.all_functions())
    hits = _mutable_default_sites(fns)
    ctx.ob("I15", hits[0][2] if hits else ctx.prog.modules[sorted(ctx.prog.modules)[0]].tree, "no function carries state from one call to the next in a mutable default argument",
           not hits, "" if not hits else f"{hits[0][0]}: {hits[0][1]}: an answer then depends on what was listed or exported before", inst="no-mutable-default-state",
           **({} if hits else {"file": "smpl_extract/info.py", "qualname": "<package>"}))
    ctx.fact("I15", "functions", len(fns))
    if len(fns) < 300:
        raise AnalysisError("I15", "-", f"only {len(fns)} functions found (confirmed: > 400)")
    ctl = ast.parse("def measure(rows, widths={}):\n    for i, r in enumerate(rows):\n        widths[i] = max(widths.get(i, 0), len(r))\n    return widths\n")
    if len(_mutable_default_sites([(None, "measure", ctl.body[0])])) != 1:
        raise AnalysisError("I15", "positive-control", "a mutated mutable default is not recognised")


def rule_I1(ctx):
    """a swallowed parse error of one record does not change where / whether the other records are read"""
    # (a) AKAI file table
    fe = ctx.fn(AK + "file_entry.py", "FileEntriesAdapter._parse", "I1")
    PARSE = ("self.subcon.parse_stream", "self.subcon.parse")
    ps = [c for c in own_nodes(fe) if isinstance(c, ast.Call) and norm(c.func) in PARSE]
    loop = None
    if ps:
        t = ps[0]
        while t is not None and t is not fe:
            t = getattr(t, "_parent", None)
            if isinstance(t, (ast.For, ast.While)):
                loop = t
                break
    if loop is None:
        raise AnalysisError("I1", where(fe), "entry loop not found")
    ps = [c for c in ast.walk(loop) if isinstance(c, ast.Call) and norm(c.func) in PARSE]
    ok = len(ps) == 1
    ctx.ob("I1", loop, "AKAI file table: one entry is parsed per iteration", ok, "", inst="akai-table:one-parse")
    # whether an entry is kept is decided from that entry alone: no decision inside the loop reads a container that the loop
    # itself fills from earlier entries (a set of "seen" start sectors, names, ...); one damaged entry would then hide an intact one
    _MUT1 = {"add", "append", "update", "extend", "setdefault", "insert", "discard", "remove", "pop", "popitem", "clear"}

    def _b1(e_):
        while isinstance(e_, (ast.Subscript, ast.Attribute)):
            e_ = e_.value
        return e_.id if isinstance(e_, ast.Name) else None
    filled = {}
    for n_ in ast.walk(loop):
        if isinstance(n_, ast.Call) and isinstance(n_.func, ast.Attribute) and n_.func.attr in _MUT1 and isinstance(n_.func.value, ast.Name):
            filled.setdefault(n_.func.value.id, n_)
        elif isinstance(n_, ast.Assign):
            for t_ in n_.targets:
                if isinstance(t_, ast.Subscript) and _b1(t_) not in (None, "self"):
                    filled.setdefault(_b1(t_), n_)
    tests = [n_.test for n_ in ast.walk(loop) if isinstance(n_, (ast.If, ast.While, ast.IfExp))] + \
            [i_ for n_ in ast.walk(loop) if isinstance(n_, ast.comprehension) for i_ in n_.ifs]
    carried = []
    for t_ in tests:
        for n_ in ast.walk(t_):
            if isinstance(n_, ast.Name) and n_.id in filled:
                carried.append((n_.id, t_))
    ok1 = not carried and len(filled) >= 1
    ctx.ob("I1", carried[0][1] if carried else loop, "AKAI file table: keeping an entry is decided from that entry alone (no decision reads a container the loop fills from earlier entries)", ok1,
           "" if ok1 else (f"the decision `{norm(carried[0][1])[:120]}` reads `{carried[0][0]}`, which the loop fills from earlier entries: a damaged entry can hide an intact one" if carried else "no container filled by the loop recognised (confirmed: the result list)"),
           inst="akai-table:entry-alone")
    tstream = fe.args.args[1].arg
    parsed_bytes = ok and norm(ps[0].func) == "self.subcon.parse"
    if ok:
        h = find_try_handler(ps[0], loop, {"ConstructError"})
        names = set(handler_names(h)) if h is not None else set()
        ok = h is not None and {"ConstructError", "RequestedInvalidSector"} <= names
        ctx.ob("I1", ps[0], "AKAI file table: a bad entry (parse error or start sector outside the table) is swallowed", ok, f"{sorted(names)}", inst="akai-table:handler")
        if h is not None:
            seeks = [c for st in h.body for c in ast.walk(st) if isinstance(c, ast.Call) and norm(c.func) == "stream.seek"]
            ok = len(seeks) == 1 and len(seeks[0].args) == 2 and norm(seeks[0].args[1]) in ("SEEK_SET", "0")
            det = "the handler does not re-position the table stream: every following entry is read at the wrong offset"
            if parsed_bytes and not seeks:
                # the entry was taken off the stream as one block of the entry's size before it was parsed: the stream is already at
                # the next entry whatever the parse does
                src_ = ps[0].args[0] if ps[0].args else None
                defs_ = [a for a in ast.walk(loop) if isinstance(a, ast.Assign) and isinstance(src_, ast.Name) and norm(a.targets[0]) == src_.id]
                tes = [a for a in own_nodes(fe) if isinstance(a, ast.Assign) and norm(a.targets[0]) == "table_entry_size"]
                ok = len(defs_) == 1 and norm(defs_[0].value) == f"{tstream}.read(table_entry_size)" and len(tes) == 1 and norm(tes[0].value) == "self.subcon.sizeof()"
                det = "" if ok else "the entry bytes are not one read of the entry size"
            elif ok:
                saved = [a for a in ast.walk(loop) if isinstance(a, ast.Assign) and norm(a.value) == "stream.tell()" and a.lineno < ps[0].lineno]
                if len(saved) > 1:
                    # several positions are remembered (an end-of-table peek restores its own): the entry start is the last one taken
                    # before the parse, with nothing moving the stream in between
                    last = max(saved, key=lambda a: a.lineno)
                    blk = getattr(last, "_parent", None)
                    body = next((b for b in (getattr(blk, "body", []), getattr(blk, "orelse", []), getattr(blk, "finalbody", [])) if last in b), [])
                    after = body[body.index(last) + 1:] if last in body else []
                    upto = []
                    for st_ in after:
                        if any(n is ps[0] for n in ast.walk(st_)):
                            upto.append(None)
                            break
                        upto.append(st_)
                    quiet = bool(upto) and upto[-1] is None and not any(isinstance(c, ast.Call) and norm(c.func).startswith("stream.") for st_ in upto[:-1] for c in ast.walk(st_))
                    saved = [last] if quiet else saved
                # address = saved + entry size
                ev = Evaluator()
                tgt_ = seeks[0].args[0]
                if isinstance(tgt_, ast.Name):
                    # the target computed into a local first (bound once in the handler)
                    ds_ = [a for a in ast.walk(loop) if isinstance(a, ast.Assign) and len(a.targets) == 1 and norm(a.targets[0]) == tgt_.id]
                    if len(ds_) == 1:
                        tgt_ = ds_[0].value
                t = ev.ev(tgt_)
                ok = len(saved) == 1 and t == A(norm(saved[0].targets[0])) + A("table_entry_size")
                det = "" if ok else f"re-seek target `{norm(seeks[0].args[0])}` is not (entry start + entry size)"
                # the saved address is taken after the table-end probe (which restores the position) and before the parse
                tes = [a for a in own_nodes(fe) if isinstance(a, ast.Assign) and norm(a.targets[0]) == "table_entry_size"]
                ok = ok and len(tes) == 1 and norm(tes[0].value) == "self.subcon.sizeof()"
            ctx.ob("I1", h, "AKAI file table: after a failed entry the stream is re-positioned at the next entry (start + entry size)", ok, det, inst="akai-table:realign")
            ok = not any(isinstance(n, (ast.Break, ast.Return, ast.Raise)) for st in h.body for n in ast.walk(st))
            ctx.ob("I1", h, "AKAI file table: the scan continues after a bad entry", ok, "", inst="akai-table:continues")
    # (b) Volume._realize_files
    rf = ctx.fn(AK + "volume.py", "Volume._realize_files", "I1")
    cfg = ctx.cfg(rf, "I1")
    fors = [f for f in own_nodes(rf) if isinstance(f, ast.For)]
    if len(fors) != 1:
        raise AnalysisError("I1", where(rf), "file loop not found")
    loop = fors[0]
    ok = norm(loop.iter) == "self.file_entries"
    ctx.ob("I1", loop, "lazy file realisation visits every entry of the volume", ok, "", inst="realize:iter")
    lp = cfg.loop_of(loop)
    n_h = 0
    for kind, path, edge in cfg.iteration_paths(lp, skip_labels=()):
        pr = _walk(ctx, rf, cfg, path)
        through_handler = any(s.kind == "except" for s in pr.steps)
        if not through_handler:
            continue
        if _infeasible(pr):
            continue
        n_h += 1
        appended = any(s.kind == "stmt" and "self._files.append" in norm(s.ast) for s in pr.steps)
        lines = pr.lines()
        if kind != "back":
            ctx.ob("I1", loop, "an unreadable file does not stop the realisation of the remaining files", False,
                   f"the error path through lines {lines} leaves the loop: intact files listed after the damaged one are lost", inst=f"realize:continues:{kind}")
            continue
        ctx.ob("I1", loop, "an unreadable file does not stop the realisation of the remaining files", True, "", inst="realize:continues:back")
        ctx.ob("I1", loop, "an unreadable file contributes nothing (no stale or duplicate element is appended on the error path)", not appended,
               "" if not appended else f"the error path through lines {lines} still appends: the previous entry's element is listed twice and renamed", inst="realize:no-append")
    if n_h == 0:
        ctx.ob("I1", loop, "parse errors of a single file are swallowed", False, "no handler path in the loop", inst="realize:handler")
    tr = [t for t in ast.walk(loop) if isinstance(t, ast.Try)]
    names = set()
    for t in tr:
        for h in t.handlers:
            names |= set(handler_names(h))
    ok = {"InvalidFileEntry", "ConstructError"} <= names
    ctx.ob("I1", loop, "realisation swallows the file-level parse failures (InvalidFileEntry, ConstructError)", ok, f"{sorted(names)}", inst="realize:exceptions")
    fa = ctx.fn(AK + "file.py", "FileAdapter._parse", "I1")
    c = [x for x in own_nodes(fa) if isinstance(x, ast.Call) and norm(x.func) == "FileConstruct.parse_stream"]
    ok = len(c) == 1
    if ok:
        h = find_try_handler(c[0], fa, {"RequestedInvalidSector"})
        ok = h is not None and {"RequestedInvalidSector", "InvalidCharacter"} <= set(handler_names(h)) and "ConstructError" in raises_in(h.body)
    ctx.ob("I1", fa, "file content errors (bad sector reference, bad character) surface as ConstructError", ok, "", inst="file-adapter")
    # (d) SafeListConstruct
    sl = ctx.fn("smpl_extract/util/constructs.py", "SafeListConstruct._parse", "I1")
    pc = [x for x in own_nodes(sl) if isinstance(x, ast.Call) and norm(x.func) == "self.subcon._parsereport"]
    loop = None
    if len(pc) == 1:
        t = pc[0]
        while t is not None and t is not sl:
            t = getattr(t, "_parent", None)
            if isinstance(t, ast.For):
                loop = t
                break
    ok = loop is not None and isinstance(loop.target, ast.Name)
    det = "element loop not found"
    store_dict = None
    if ok:
        cfg = ctx.cfg(sl, "I1")
        lp = cfg.loop_of(loop)
        iv = loop.target.id + "~"
        # the loop runs over range(evaluate(self.count, context))
        pre = [p for p in run_paths(ctx, sl, rule="I1") if p.end == "return"]
        it_ok = False
        for p in pre:
            for s_ in p.steps:
                if s_.ast is loop:
                    it_ok = evaluator(ctx, sl, s_.env).ev(loop.iter).key() == "range(evaluate(self.count,context))"
        n_err = n_ok = 0
        det = "" if it_ok else "the loop does not run over range(count)"
        ok = it_ok
        for kind, path, edge in cfg.iteration_paths(lp, skip_labels=()):
            if kind == "exit" and len(path) == 1:
                continue
            pr = _walk(ctx, sl, cfg, path)
            if _infeasible(pr):
                continue
            via_h = any(s_.kind == "except" for s_ in pr.steps)
            stores = [s_ for s_ in pr.steps if s_.kind == "stmt" and isinstance(s_.ast, ast.Assign) and isinstance(s_.ast.targets[0], ast.Subscript)
                      and isinstance(s_.ast.targets[0].value, ast.Name)]
            idx_sets = [s_ for s_ in pr.steps if s_.kind == "stmt" and isinstance(s_.ast, ast.Assign) and norm(s_.ast.targets[0]) == "context._index"]
            parses = [(c, e) for c, e, st in calls_on(pr) if c is pc[0]]
            if not parses:
                continue
            if not idx_sets or evaluator(ctx, sl, idx_sets[-1].env).ev(idx_sets[-1].ast.value).key() != iv \
                    or pr.steps.index(idx_sets[-1]) > [i for i, s_ in enumerate(pr.steps) if s_.kind == "stmt" and any(x is pc[0] for x in ast.walk(s_.ast))][0]:
                ok, det = False, "an element is parsed without context._index set to its own index"
            if via_h:
                n_err += 1
                if kind != "back":
                    ok, det = False, f"a failing element ends the list (path lines {pr.lines()})"
                if stores:
                    ok, det = False, "a failing element still stores something"
            elif kind == "back":
                n_ok += 1
                for s_ in stores:
                    ev = evaluator(ctx, sl, s_.env)
                    tgt = s_.ast.targets[0]
                    if ev.ev(tgt.slice).key() != iv or ev.ev(s_.ast.value).key() != ev.ev(pc[0]).key():
                        ok, det = False, f"stored as `{norm(s_.ast)}`: not this element under its own index"
                    store_dict = tgt.value.id
        ok = ok and n_err >= 1 and n_ok >= 1 and store_dict is not None
        names = set()
        for t in ast.walk(loop):
            if isinstance(t, ast.Try):
                for h in t.handlers:
                    names |= set(handler_names(h))
        if not {"UnicodeDecodeError", "ConstructError", "KeyError", "IndexError"} <= names:
            ok, det = False, f"the per-element handler catches only {sorted(names)}"
    ctx.ob("I1", sl, "tolerant list: element i is parsed with _index = i; a failing element is skipped and the others keep their own index", ok, det if not ok else "", inst="safelist")
    from .sem import return_canons
    rc = return_canons(sl)
    ok = store_dict is not None and rc == [f"list({store_dict}.values())"]
    ctx.ob("I1", sl, "tolerant list returns the surviving elements in index order", ok, f"{rc}", inst="safelist-ret")
    # every SafeListConstruct over records addresses them by Pointer (zero sequential footprint)
    from ..core.layout import Layouts, Unknown, Struct as LStruct, Zero
    L = Layouts(ctx)
    for path, fac in ((RO + "volume_entry.py", "VolumeEntryConstruct"), (RO + "performance_entry.py", "PerformanceEntryConstruct"), (RO + "patch_entry.py", "PatchEntryConstruct"),
                      (RO + "partial_entry.py", "PartialEntryConstruct"), (RO + "sample_entry.py", "SampleEntryConstruct")):
        fn = ctx.fn(path, fac, "I1")
        ret = [r for r in own_nodes(fn) if isinstance(r, ast.Return)]
        st = [c for c in ast.walk(fn) if isinstance(c, ast.Call) and norm(c.func) == "Struct"]
        ok = False
        det = "struct not found"
        if st:
            outer = max(st, key=lambda c: len(c.args))
            kinds = []
            for a in outer.args:
                v = a.right if isinstance(a, ast.BinOp) and isinstance(a.op, ast.Div) else a
                kinds.append(norm(v.func) if isinstance(v, ast.Call) else norm(v))
            ok = all(k in ("ExprValidator", "Computed", "Pointer", "Lazy") for k in kinds)
            det = "" if ok else f"sequentially read field kinds {kinds}: a failed element would shift the following ones"
        ctx.ob("I1", fn, f"{fac}: records are addressed absolutely (Computed/Pointer/Lazy only), so element i cannot shift element j", ok, det, inst=f"footprint:{fac}")
    # every tolerant list of the package: either its elements leave no sequential footprint (addressed absolutely, checked above), or
    # the list re-aligns the stream after a failed element (element start + element size) - a failure part-way through a record must not
    # shift the records behind it
    realigns = _safelist_realigns(ctx, sl)
    zero_fp = {"VolumeEntryConstruct", "PerformanceEntryConstruct", "PatchEntryConstruct", "PartialEntryConstruct", "SampleEntryConstruct"}
    n_sites = 0
    for m_, q_, fn_ in ctx.prog.all_functions():
        for c_ in own_nodes(fn_):
            if not (isinstance(c_, ast.Call) and isinstance(c_.func, ast.Name) and c_.func.id == "SafeListConstruct" and len(c_.args) >= 2):
                continue
            n_sites += 1
            sub_ = c_.args[1]
            facs = {x_.func.id for x_ in ast.walk(sub_) if isinstance(x_, ast.Call) and isinstance(x_.func, ast.Name)}
            size_ = None
            if facs & zero_fp:
                size_ = 0
            else:
                try:
                    from ..core.layout import Env as _Env
                    lay_ = L.eval_con(sub_, _Env(m_))
                    lay_ = lay_[-1] if isinstance(lay_, tuple) else lay_
                    size_ = lay_.size
                except Exception:
                    size_ = None
            ok = size_ == 0 or (isinstance(size_, int) and size_ > 0 and realigns)
            det = "" if ok else (f"the elements `{norm(sub_)[:50]}` are read one after the other ({size_} bytes each) and a failed element leaves the stream where the failure "
                                 "happened: every record behind it is read misaligned and dropped or garbled" if isinstance(size_, int) else f"footprint of `{norm(sub_)[:50]}` unknown")
            ctx.ob("I1", c_, f"tolerant list in {q_}: a failed element cannot shift the ones behind it", ok, det, inst=f"safelist-site:{q_}:{norm(sub_)[:40]}")
    if n_sites < 6:
        raise AnalysisError("I1", "-", f"only {n_sites} SafeListConstruct sites found (confirmed: 7)")


def _safelist_realigns(ctx, sl):
    """does SafeListConstruct._parse put the stream at (element start + element size) on every path through its element handler?"""
    loops = [l_ for l_ in own_nodes(sl) if isinstance(l_, ast.For)]
    if len(loops) != 1:
        return False
    loop = loops[0]
    cfg = ctx.cfg(sl, "I1")
    lp = cfg.loop_of(loop)
    pc = [x for x in own_nodes(sl) if isinstance(x, ast.Call) and norm(x.func) == "self.subcon._parsereport"]
    if len(pc) != 1:
        return False
    stream = sl.args.args[1].arg
    n_h = 0
    for kind, path, edge in cfg.iteration_paths(lp, skip_labels=()):
        pr = _walk(ctx, sl, cfg, path)
        if _infeasible(pr) or not any(s_.kind == "except" for s_ in pr.steps):
            continue
        if not any(c_ is pc[0] for c_, e_, st_ in calls_on(pr)):
            continue
        n_h += 1
        # element start: stream.tell() taken in this iteration before the parse; size: the element's own static size, > 0 on this path
        seeks = [(c_, e_) for c_, e_, st_ in calls_on(pr) if norm(c_.func) == f"{stream}.seek" and len(c_.args) == 2 and norm(c_.args[1]) in ("SEEK_SET", "0", "io.SEEK_SET")]
        facts = dict((c_.replace("~", ""), t_) for c_, t_, _n in pr.conds)
        size_known = [k_ for k_, t_ in facts.items() if t_ and ("self.subcon._sizeof(context,path) > 0" in k_ or "self.subcon.sizeof() > 0" in k_ or "(self.subcon)._sizeof(context,path) > 0" in k_)]
        size_zero = [k_ for k_, t_ in facts.items() if (not t_) and ("_sizeof(context,path) > 0" in k_ or "sizeof() > 0" in k_ or k_ == "0 > 0")]
        if size_zero and not seeks:
            continue  # an element without a static size is not stepped over (such elements are addressed absolutely)
        if len(seeks) != 1:
            return False
        tgt = evaluator(ctx, sl, seeks[0][1]).ev(seeks[0][0].args[0]).key().replace("~", "")
        if tgt not in (f"{stream}.tell() + self.subcon._sizeof(context,path)", f"self.subcon._sizeof(context,path) + {stream}.tell()",
                       f"{stream}.tell() + self.subcon.sizeof()", f"self.subcon.sizeof() + {stream}.tell()"):
            return False
        # the remembered position is taken before the parse, inside the iteration
        tells = [i_ for i_, s_ in enumerate(pr.steps) if s_.kind == "stmt" and isinstance(s_.ast, ast.Assign) and norm(s_.ast.value) == f"{stream}.tell()"]
        parse_i = [i_ for i_, s_ in enumerate(pr.steps) if s_.kind == "stmt" and any(x_ is pc[0] for x_ in ast.walk(s_.ast))]
        if not tells or not parse_i or tells[-1] > parse_i[0]:
            return False
    return n_h >= 1


I4_NOT_REQUIRED = {
    # storage-layer exception -> why the per-file isolation does not have to convert it
    "AttemptToReadBeyondBuffer": "internal invariant of SectorStream._read (a piece never exceeds its sector: S4 piece-bound), not data dependent",
    "BadReadSize": "raised only by reversed (Roland) views for unaligned requests; AKAI files are not reversed",
    "BadAlign": "raised only by reversed (Roland) views",
    "InvalidFatDefinition": "needs a cyclic or out-of-table allocation table; C14 damages one directory entry of an intact table (termination is C07/C13)",
    "FatNotPresent": "Roland context error",
}


def rule_I4(ctx):
    """error discipline: every data-dependent failure of the storage layer while one AKAI file is parsed
    is converted into the error the per-file isolation swallows"""
    raised = {}
    for path in ("smpl_extract/util/stream.py", "smpl_extract/util/sector.py", "smpl_extract/util/fat.py"):
        m = ctx.prog.module(path)
        for n in ast.walk(m.tree):
            if isinstance(n, ast.Raise) and n.exc is not None:
                e = n.exc.func if isinstance(n.exc, ast.Call) else n.exc
                nm = (dotted(e) or "?").split(".")[-1]
                raised.setdefault(nm, n)
    library = {"struct.error": "construct's compiled structs unpack a short read without a length check"}
    fa = ctx.fn(AK + "file.py", "FileAdapter._parse", "I4")
    c = [x for x in own_nodes(fa) if isinstance(x, ast.Call) and norm(x.func) == "FileConstruct.parse_stream"]
    if len(c) != 1:
        raise AnalysisError("I4", where(fa), "per-file parse call not found")
    handlers = []
    t = c[0]
    while t is not None and t is not fa:
        par = getattr(t, "_parent", None)
        if isinstance(par, ast.Try) and any(n is c[0] for b in par.body for n in ast.walk(b)):
            handlers += par.handlers
        t = par
    caught = {}
    for h in handlers:
        names = [] if h.type is None else handler_names(h, dotted_names=True)
        for nm in names:
            caught[nm] = h
            caught[nm.split(".")[-1]] = h
    ctx.fact("I4", "storage_exceptions", sorted(raised))
    for nm, node in sorted(raised.items()):
        if nm in I4_NOT_REQUIRED:
            ctx.note(f"I4: {nm} not required in the per-file conversion: {I4_NOT_REQUIRED[nm]}")
            continue
        h = caught.get(nm)
        ok = h is not None and "ConstructError" in raises_in(h.body)
        ctx.ob("I4", fa, f"storage-layer failure `{nm}` while parsing one file becomes ConstructError (only that file is skipped)", ok,
               "" if ok else f"`{nm}` (raised at {node._module.path if hasattr(node, '_module') else ''}:{node.lineno}) escapes FileAdapter._parse: ls/export of the whole image aborts",
               inst=f"converted:{nm}")
    for nm, why in library.items():
        h = caught.get(nm)
        ok = h is not None and "ConstructError" in raises_in(h.body)
        ctx.ob("I4", fa, f"library-level short-read failure `{nm}` ({why}) becomes ConstructError", ok, "" if ok else f"`{nm}` escapes", inst=f"converted:{nm}")
    h = caught.get("InvalidCharacter")
    ctx.ob("I4", fa, "an invalid name character inside a file becomes ConstructError", h is not None and "ConstructError" in raises_in(h.body), "", inst="converted:InvalidCharacter")
    # the partition scan ends at the first header that cannot be parsed, whatever the reason (wrong magic, or cut off by the end
    # of the image: StreamError / ConstError / ... are all ConstructError)
    lp_ = ctx.fn("smpl_extract/akai/image.py", "AkaiImageParser._load_partitions", "I4")
    pcalls = [c for c in own_nodes(lp_) if isinstance(c, ast.Call) and isinstance(c.func, ast.Attribute) and c.func.attr == "parse_stream"]
    ok = len(pcalls) == 1
    det = "" if ok else f"{len(pcalls)} partition parse calls"
    if ok:
        h = find_try_handler(pcalls[0], lp_, {"ConstructError", "Exception", "BaseException"})
        names_ = set(handler_names(h)) if h is not None and h.type is not None else (set() if h is None else {"BaseException"})
        ok = h is not None and bool(names_ & {"ConstructError", "Exception", "BaseException"}) and not raises_in(h.body)
        det = "" if ok else f"the handler around the partition parse catches {sorted(handler_names(find_try_handler(pcalls[0], lp_, {'InvalidPartition', 'ConstError', 'StreamError', 'ConstructError'}) or ast.ExceptHandler(type=None, name=None, body=[]))) or 'nothing'}: a header cut off by the end of the image (StreamError) escapes and nothing is listed or exported"
    ctx.ob("I4", lp_, "an unparsable partition header (any ConstructError) ends the partition scan; the partitions before it stay usable", ok, det, inst="partition-scan-handler")
    # a read beyond a file's chain is a short read
    ga = ctx.fn("smpl_extract/util/fat.py", "FileStream._get_address_given_sector_index", "I4")
    from .sem import single_defs as _sd
    _defs = _sd(ga)

    def _is_chain(e):
        if dotted(e) == "self.sector_list":
            return True
        return isinstance(e, ast.Name) and e.id in _defs and dotted(_defs[e.id]) == "self.sector_list"
    subs = [n for n in own_nodes(ga) if isinstance(n, ast.Subscript) and _is_chain(n.value) and isinstance(n.ctx, ast.Load)]
    ok = len(subs) == 1
    if ok:
        h = find_try_handler(subs[0], ga, {"IndexError", "LookupError"})
        ok = h is not None and "SectorReadError" in raises_in(h.body)
    ctx.ob("I4", ga, "addressing a sector beyond the file's chain raises SectorReadError (the transcoders end that sample's data), not a bare IndexError", ok,
           "" if ok else "the chain lookup is unchecked: a sample whose window starts beyond its chain aborts the whole export", inst="beyond-chain")


def _memo_resets(prog):
    """(class, attr, node, qualname) for every statement outside a constructor that puts a memo slot back to its empty value.  A memo
    slot is a `self._x` that a constructor (__init__ / __post_init__) sets to an empty value (None, False, an empty display) and that
    some other method of the class (or of a base / subclass) fills with something else"""
    def empty(v):
        return (isinstance(v, ast.Constant) and v.value in (None, False)) or (isinstance(v, (ast.List, ast.Dict, ast.Tuple, ast.Set)) and not getattr(v, "elts", None) and not getattr(v, "keys", None)) \
            or (isinstance(v, ast.Call) and isinstance(v.func, ast.Name) and v.func.id in ("list", "dict", "set") and not v.args and not v.keywords)

    ctor_slots = set()
    stores = []
    for m, q, fn in prog.all_functions():
        if "." not in q:
            continue
        for a in own_nodes(fn):
            if isinstance(a, ast.Assign):
                for t in a.targets:
                    if isinstance(t, ast.Attribute) and isinstance(t.value, ast.Name) and t.attr.startswith("_") and not t.attr.startswith("__"):
                        stores.append((t.attr, t.value.id, a, q, fn))
                        if fn.name in ("__init__", "__post_init__") and t.value.id == "self" and empty(a.value):
                            ctor_slots.add(t.attr)
    filled = {attr for attr, recv, a, q, fn in stores if attr in ctor_slots and fn.name not in ("__init__", "__post_init__") and not empty(a.value)}
    out = []
    for attr, recv, a, q, fn in stores:
        if attr in filled and fn.name not in ("__init__", "__post_init__") and empty(a.value):
            out.append((attr, a, q))
    return sorted(filled), out


def rule_I2(ctx):
    """accumulating / position-dependent realisers run once: guarded by a flag they set on every path"""
    slots, resets = _memo_resets(ctx.prog)
    ctx.fact("I2", "memo_slots", slots)
    if len(slots) < 4:
        raise AnalysisError("I2", "-", f"only {len(slots)} memo slots recognised (confirmed: 6)")
    # which of those slots are caches of a lazily realised value: filled inside a property, or inside a helper a property of the same
    # class calls; their state may steer nothing but that realisation - what `ls` shows must not depend on whether an earlier request
    # happened to realise the element already
    fillers = {}
    for m_, q_, fn_ in ctx.prog.all_functions():
        if "." not in q_:
            continue
        cls_ = q_.rsplit(".", 1)[0]
        for a_ in own_nodes(fn_):
            if isinstance(a_, ast.Assign):
                for t_ in a_.targets:
                    if isinstance(t_, ast.Attribute) and isinstance(t_.value, ast.Name) and t_.value.id == "self" and t_.attr in slots and fn_.name not in ("__init__", "__post_init__"):
                        fillers.setdefault(t_.attr, set()).add((cls_, fn_.name))
    prop_calls = set()
    props = set()
    for m_, q_, fn_ in ctx.prog.all_functions():
        if "." in q_ and ctx.prog.is_property(fn_):
            cls_ = q_.rsplit(".", 1)[0]
            props.add((cls_, fn_.name))
            for c_ in own_nodes(fn_):
                if isinstance(c_, ast.Call) and isinstance(c_.func, ast.Attribute) and isinstance(c_.func.value, ast.Name) and c_.func.value.id == "self":
                    prop_calls.add((cls_, c_.func.attr))
    lazy = {a_ for a_, fs_ in fillers.items() if fs_ and all(f_ in props or f_ in prop_calls for f_ in fs_)}
    ctx.fact("I2", "lazy_slots", sorted(lazy))
    stray = []
    for m_, q_, fn_ in ctx.prog.all_functions():
        if "." not in q_ or fn_.name in ("__init__", "__post_init__"):
            continue
        cls_ = q_.rsplit(".", 1)[0]
        if (cls_, fn_.name) in props or (cls_, fn_.name) in prop_calls:
            continue
        for x_ in own_nodes(fn_):
            if isinstance(x_, ast.Attribute) and isinstance(x_.ctx, ast.Load) and x_.attr in lazy and isinstance(x_.value, ast.Name):
                stray.append((q_, x_))
    if len(lazy) < 4:
        raise AnalysisError("I2", "-", f"only {len(lazy)} lazily filled slots recognised (confirmed: 7)")
    ctx.ob("I2", stray[0][1] if stray else ctx.fn(AK + "volume.py", "Volume.files", "I2"), "whether an element has been realised yet is consulted only by the property that realises it", not stray,
           "" if not stray else f"{stray[0][0]} reads `{norm(stray[0][1])}`: its answer depends on whether an earlier request already realised the element", inst="memo-state-private")
    ctx.ob("I2", resets[0][1] if resets else ctx.fn(AK + "volume.py", "Volume.files", "I2"), "what an element has realised stays realised: a memo slot is emptied only when the element is constructed",
           not resets, "" if not resets else f"`{norm(resets[0][1])}` in {resets[0][2]}: the next access realises the children again - with whatever the shared parsing context holds by then",
           inst="memo-reset")
    cases = [
        (AK + "volume.py", "Volume.files", "Volume._realize_files", "accumulates into self._files"),
        (AK + "image.py", "AkaiImageParser.partitions", "AkaiImageParser._load_partitions", "parses from the current position of the shared image stream"),
    ]
    for path, prop, real, why in cases:
        pf = ctx.fn(path, prop, "I2")
        rf = ctx.fn(path, real, "I2")
        rname = real.split(".")[-1]
        flag, ok, det = _once_flag(ctx, pf, lambda c: norm(c.func) == f"self.{rname}")
        ctx.ob("I2", pf, f"{prop}: the realiser ({why}) is called only when a flag attribute is still false", ok, det, inst=f"{prop}:guarded")
        if not ok:
            continue
        # the flag is set to a truthy constant on every normal path of the realiser, and nowhere reset
        prs = [p for p in run_paths(ctx, rf, rule="I2", limit=4000) if p.end in ("fall", "return")]
        sets_all = bool(prs) and all(p.env.get(flag) == Term.const(1) for p in prs)
        ctx.ob("I2", rf, f"{real} sets `{flag}` = True on every normal path, so a second look never re-runs it", sets_all,
               "" if sets_all else f"`{flag}` is not a flag the realiser always sets (an empty first result re-runs it from wherever the stream was left; results then depend on what was looked at before)",
               inst=f"{prop}:flag-set")
        resets = []
        for m, q, f in ctx.prog.all_functions():
            if f is rf or q.endswith("__init__"):
                continue
            for a in own_nodes(f):
                if isinstance(a, ast.Assign) and any(dotted(t) == flag for t in a.targets) and enclosing_class(f) is enclosing_class(rf):
                    resets.append(q)
        ctx.ob("I2", rf, f"`{flag}` is written only by the constructor and the realiser", not resets, f"{resets}", inst=f"{prop}:flag-writers")
    # Volume.files applies routines once, inside the same guard
    vf = ctx.fn(AK + "volume.py", "Volume.files", "I2")
    flag, ok, det = _once_flag(ctx, vf, lambda c: norm(c.func) == "self._routines.values")
    ctx.ob("I2", vf, "Volume.files applies the routines inside the once-guard", ok, det, inst="Volume.files:routines-once")
    # ExportManager bookkeeping
    st = "smpl_extract/structural.py"
    sl = ctx.fn(st, "ExportManager.set_level", "I2")
    es = ctx.fn(st, "ExportManager.export_samples", "I2")
    from .util import every_path_calls as _epi
    ok = _epi(ctx, sl, "I2", "self.samples.clear()") and _epi(ctx, es, "I2", "self.samples.clear()")
    ctx.ob("I2", es, "the exporter's sample list is cleared when a level starts and after it was exported (no sample is exported twice)", ok, "", inst="ExportManager:clear")
    # lazily cached single objects
    for path, q, attr, maker in ((AK + "file_entry.py", "FileEntry.file", "self._file", "self._f_file_content"), (AK + "partition.py", "Partition.sat", "self._sat", "self._f_sat")):
        f = ctx.fn(path, q, "I2")
        flag, ok, det = _once_flag(ctx, f, lambda c: norm(c.func) == maker)
        ok = ok and flag == attr
        if ok:
            for p in run_paths(ctx, f, rule="I2"):
                if p.end != "return":
                    continue
                called = any(norm(c.func) == maker for c, e, st in calls_on(p))
                want = f"{maker}()" if called else attr
                if p.ret is None or p.ret.key() != want or (called and p.env.get(attr) is not None and p.env[attr].key() != f"{maker}()"):
                    ok, det = False, f"returns `{p.ret.key() if p.ret is not None else None}`"
        ctx.ob("I2", f, f"{q} is computed once and cached", ok, det, inst=f"{q}:cache")


def _once_flag(ctx, fn, is_call):
    """every path of fn that executes a call selected by is_call runs with one and the same `self.<attr>` tested false, and
    no path on which that attribute tested true executes such a call.  -> (flag text or None, ok, detail)"""
    flags = None
    n_call = 0
    prs = run_paths(ctx, fn, rule="I2", limit=4000)
    for p in prs:
        hit = [c for c, e, st in calls_on(p) if is_call(c)]
        tested = {}
        for c, t, _ in p.conds:
            neg, x = False, c
            while x.startswith("not(") and x.endswith(")"):
                x, neg = x[4:-1], not neg
            if x.startswith("truthy(self.") and x.endswith(")") and "(" not in x[len("truthy("):-1]:
                tested[x[len("truthy("):-1]] = (t != neg)
        if hit:
            n_call += 1
            false_flags = {k for k, v in tested.items() if v is False}
            flags = false_flags if flags is None else (flags & false_flags)
    if n_call == 0:
        return None, False, "the call was not found on any path"
    if not flags:
        return None, False, "a path reaches the call without a flag attribute having tested false"
    flag = sorted(flags)[0]
    return flag, True, ""


def rule_I3(ctx):
    """listing never writes: write-capable calls exist only on the export path"""
    n = 0
    for m, q, fn in ctx.prog.all_functions():
        for c in own_nodes(fn):
            if isinstance(c, ast.Call) and isinstance(c.func, ast.Attribute) and c.func.attr in ("write", "writelines", "truncate", "flush") \
                    and not norm(c.func.value).startswith(("str_buffer", "sys.std")):
                n += 1
                ctx.ob("I3", c, "no stream of the package is written to (outputs are produced by construct's build_stream in export_wav only)", False,
                       f"`{norm(c)[:80]}` in {q}", inst=f"write@{m.path}:{q}")
            if isinstance(c, ast.Call) and dotted(c.func) in ("os.makedirs", "os.mkdir"):
                n += 1
                ok = m.path == "smpl_extract/structural.py" and q == "ExportManager.export_samples"
                ctx.ob("I3", c, "directories are created only by the exporter", ok, f"in {q}", inst=f"mkdir@{q}")
    la = ctx.fn("smpl_extract/actions.py", "ls_action", "I3")
    used = {n.id for n in ast.walk(la) if isinstance(n, ast.Name)} | {n.attr for n in ast.walk(la) if isinstance(n, ast.Attribute)}
    ok = not (used & {"ExportManager", "export_samples", "export_wav", "export_samples_to_wav", "open", "makedirs", "finish_level", "add_sample"})
    ctx.ob("I3", la, "ls never reaches the exporter", ok, "", inst="ls-no-export")
    di = ctx.fn("smpl_extract/actions.py", "determine_image_type", "I3")
    from .util import path_call_keys as _pki
    opens_ = [k_ for ks_ in _pki(ctx, di, "I3", include_exc=True, limit=8000) for k_ in ks_ if k_.startswith("open(")]
    ok = bool(opens_) and all(k_ == f"open({di.args.args[0].arg},'rb')" for k_ in opens_)
    ctx.ob("I3", di, "the image file is opened read-only", ok, "", inst="image-open-rb")
    ctx.fact("I3", "sites", n)


def rule_O1(ctx):
    """orphan detection compares the number of DISTINCT performances referenced by volumes with the total"""
    fn = ctx.fn(RO + "volume_entry.py", "VolumeEntriesList._parse", "O1")
    ifs = [i for i in own_nodes(fn) if isinstance(i, ast.If) and "num_performances" in norm(i.test)]
    ok = len(ifs) == 1
    ctx.ob("O1", fn, "orphan check exists", ok, "", inst="check-exists")
    if not ok:
        return
    test = ifs[0].test
    ok = norm(test) == "np.size(volume_performance_ptrs, 0) < num_performances"
    ctx.ob("O1", ifs[0], "orphans exist iff fewer distinct referenced performances than the image declares", ok, norm(test), inst="check-form")
    # reaching definition of volume_performance_ptrs at the test is np.unique(...)
    cfg = ctx.cfg(fn, "O1")
    var = "volume_performance_ptrs"
    defs = sorted([a for a in own_nodes(fn) if isinstance(a, ast.Assign) and norm(a.targets[0]) == var and a.lineno < ifs[0].lineno], key=lambda a: a.lineno)
    last_unconditional = None
    for a in defs:
        if getattr(a, "_parent", None) is fn:
            last_unconditional = a
    ok = last_unconditional is not None and norm(last_unconditional.value) == f"np.unique({var})" and last_unconditional is defs[-1]
    ctx.ob("O1", ifs[0], "the referenced-performance list is de-duplicated (np.unique) before it is counted: performances shared by volumes must count once", ok,
           "" if ok else f"value counted comes from `{norm(defs[-1].value) if defs else '?'}`: duplicates hide orphans", inst="dedupe")
    op = ctx.fn(RO + "volume_entry.py", "VolumeEntriesList._parse_orphan_performances", "O1")
    t = full(op)
    ok = "np.isin(performance_ptrs, np.array(volume_performance_ptrs), invert=True)" in t and "orphan_ptrs = performance_ptrs[mask].tolist()" in t \
        and "p.file_type == RolandFileType.PERFORMANCE" in t
    ctx.ob("O1", op, "orphans = performance directory entries of type PERFORMANCE whose index no volume references", ok, "", inst="orphan-set")
    ok = "volume_entries.append(new_volume)" in t and "lambda this: orphan_ptrs[this._index]" in t
    ctx.ob("O1", op, "the orphans are exported through a pseudo-volume", ok, "", inst="pseudo-volume")
    # the scan covers the whole performance directory: an orphan may sit in any of its slots (the directory need not be compact)
    from .util import path_call_keys as _pko
    off_ = ctx.const(RO + "data_types.py", "PERFORMANCE_DIRECTORY_AREA_OFFSET", "O1")
    mx_ = ctx.const(RO + "data_types.py", "MAX_NUM_PERFORMANCE", "O1")
    want_scan = f"(Pointer({off_},SafeListConstruct({mx_},DirectoryEntryParser)))._parsereport(stream,context,path)"
    pks = _pko(ctx, op, "O1", limit=4000)
    scans = [[k_ for k_ in ks_ if "SafeListConstruct(" in k_ and k_.endswith("._parsereport(stream,context,path)") and "DirectoryEntryParser" in k_] for ks_ in pks]
    ok = bool(pks) and all(sc_ and sc_[0] == want_scan for sc_ in scans)
    bad_ = next((sc_[0] for sc_ in scans if sc_ and sc_[0] != want_scan), "no directory scan")
    ctx.ob("O1", op, "the orphan scan reads every slot of the performance directory (MAX_NUM_PERFORMANCE entries at its fixed offset)", ok,
           "" if ok else f"scan is `{bad_[:160]}`", inst="orphan-scan-extent")
    # per-performance collection
    sf = ctx.fn(RO + "sample_file.py", "SampleFileListAdapter._decode", "O1")
    # decided on the iteration paths of the inner loop: an entry is added exactly when its index has not been seen, the index is
    # recorded with it, and what is returned is the collection in first-seen order (dict keyed by index, or list + seen-set)
    from .streams import _walk as _wo
    from .util import evaluator as _evo, norm_conds as _nco
    scfg = ctx.cfg(sf, "O1")
    fors_ = [f for f in own_nodes(sf) if isinstance(f, ast.For)]
    inner = [f for f in fors_ if any(isinstance(getattr(f, "_parent", None), ast.For) and f._parent is g for g in fors_)]
    ok, det = len(fors_) == 2 and len(inner) == 1 and isinstance(inner[0].target, ast.Name) and isinstance(inner[0]._parent.target, ast.Name), "collection loops not found"
    result_c = None
    if ok:
        outer = inner[0]._parent
        ov, iv = outer.target.id, inner[0].target.id
        ok = norm(outer.iter).endswith(".partial_entries") and norm(inner[0].iter) == f"{ov}.sample_entries"
        det = "" if ok else f"loops run over `{norm(outer.iter)}` / `{norm(inner[0].iter)}`"
        K = f"{iv}.index"
        seen_new = seen_old = 0
        for kind, path, edge in scfg.iteration_paths(scfg.loop_of(inner[0])):
            if kind == "exit" and len(path) == 1:
                continue
            if kind != "back":
                ok, det = False, "a sample can end the collection early"
                continue
            pr = _wo(ctx, sf, scfg, path)
            member = None
            for c_, t_ in _nco(pr):
                m_ = re.fullmatch(r"(In|NotIn)\(" + re.escape(K) + r",(?:\((\w+)\)\.keys\(\)|(\w+))\)", c_.replace("~", ""))
                if m_:
                    member = ((m_.group(1) == "In") == t_, m_.group(2) or m_.group(3))
            adds, marks = [], []
            for s_ in pr.steps:
                st = s_.ast
                if s_.kind != "stmt" or st is None:
                    continue
                if isinstance(st, ast.Assign) and len(st.targets) == 1 and isinstance(st.targets[0], ast.Subscript) and isinstance(st.targets[0].value, ast.Name):
                    kk = _evo(ctx, sf, s_.env).ev(st.targets[0].slice).key().replace("~", "")
                    adds.append((st.targets[0].value.id, kk))
                    marks.append((st.targets[0].value.id, kk))
                elif isinstance(st, ast.Expr) and isinstance(st.value, ast.Call) and isinstance(st.value.func, ast.Attribute) and isinstance(st.value.func.value, ast.Name):
                    if st.value.func.attr == "append" and len(st.value.args) == 1:
                        adds.append((st.value.func.value.id, None))
                    elif st.value.func.attr == "add" and len(st.value.args) == 1:
                        marks.append((st.value.func.value.id, _evo(ctx, sf, s_.env).ev(st.value.args[0]).key().replace("~", "")))
            if member is None:
                ok, det = False, "an iteration does not test whether the sample's index was seen"
            elif member[0]:
                seen_old += 1
                if adds or marks:
                    ok, det = False, "a sample whose index was already collected is added again"
            else:
                seen_new += 1
                good = len(adds) == 1 and any(c_ == member[1] and k_ == K for c_, k_ in marks) and len(marks) == 1
                if not good:
                    ok, det = False, f"a new sample leads to {len(adds)} additions and index marks {marks}"
                else:
                    result_c = adds[0][0]
        ok = ok and seen_new >= 1 and seen_old >= 1
        if ok:
            from .sem import path_return_ast as _pra
            rets = [p_ for p_ in run_paths(ctx, sf, rule="O1", limit=2000) if p_.end == "return"]
            def _is_result(e_):
                if isinstance(e_, ast.Name) and e_.id == result_c:
                    return True
                return isinstance(e_, ast.Call) and norm(e_) == f"list({result_c}.values())"
            rr_ = [r for r in own_nodes(sf) if isinstance(r, ast.Return)]
            ok = bool(rr_) and all(r.value is not None and (_is_result(r.value) or (isinstance(r.value, ast.Name) and any(
                isinstance(a_, ast.Assign) and norm(a_.targets[0]) == r.value.id and _is_result(a_.value) for a_ in own_nodes(sf)))) for r in rr_)
            det = "" if ok else "what is returned is not the collection that was filled"
    ctx.ob("O1", sf, "every sample of every partial of a patch is collected once, keyed by its sample index", ok, det, inst="collect-samples")
    pf = ctx.fn(RO + "performance_entry.py", "PerformanceEntry.files", "O1")
    from .sem import list_builder, canon_expr, single_defs
    # the two collections are built per patch, in patch order; files = programs followed by samples
    holder = None
    for n in own_nodes(pf):
        if isinstance(n, ast.If) and any(isinstance(x, ast.For) for x in n.body):
            holder = n
    ok, det = holder is not None, "collection block not found"
    if ok:
        fake = ast.FunctionDef(name="_blk", args=pf.args, body=holder.body, decorator_list=[], returns=None, type_comment=None, lineno=holder.lineno, col_offset=0)
        for ch in ast.walk(fake):
            pass
        asg = [a for a in holder.body if isinstance(a, ast.Assign) and len(a.targets) == 1 and isinstance(a.targets[0], ast.Name)]
        files_v = [a.value for a in asg if a.targets[0].id == "files" or (isinstance(a.value, (ast.BinOp, ast.List)) and not isinstance(a.value, ast.Constant))]
        parts = None
        for v in files_v:
            if isinstance(v, ast.BinOp) and isinstance(v.op, ast.Add) and isinstance(v.left, ast.Name) and isinstance(v.right, ast.Name):
                parts = [v.left.id, v.right.id]
            elif isinstance(v, ast.List) and len(v.elts) == 2 and all(isinstance(e, ast.Starred) and isinstance(e.value, ast.Name) for e in v.elts):
                parts = [v.elts[0].value.id, v.elts[1].value.id]
        ok = parts is not None
        det = "files is not <programs> followed by <samples>"
        if ok:
            b0, b1 = list_builder(fake, parts[0]), list_builder(fake, parts[1])
            src = None
            for a in asg:
                if b0 is not None and a.targets[0].id == b0[0]:
                    src = " ".join(ast.unparse(a.value).split())
            want0 = [(None, "sc_program._decode(_c0, context, '')")]
            want1 = [("'*'", "sc_samples._decode(_c0, context, '')")]
            ok = b0 is not None and b1 is not None and b0[0] == b1[0] and b0[1] == want0 and b1[1] == want1 and src in ("list(self.patch_entries)", "self.patch_entries")
            det = "" if ok else f"programs built as {b0}, samples as {b1}, over `{src}`"
    ctx.ob("O1", pf, "a performance's files = its patches' programs plus the samples of all its patches", ok, "" if ok else det, inst="collect-performance")


def rule_R1(ctx):
    """every export reads each data stream from its beginning (results do not depend on an earlier export)"""
    mt = ctx.fn("smpl_extract/transcoder.py", "make_transcoder", "R1")
    enc = ctx.fn("smpl_extract/generalized/wav.py", "WavSampleAdapter._encode", "R1")
    # accepted idioms: a loop over the data streams seeking each stream to 0 (absolute), in make_transcoder or in _encode before make_transcoder
    found = None
    for fn in (mt, enc):
        for f in own_nodes(fn):
            if isinstance(f, ast.For) and norm(f.iter) in ("data_streams", "sample.data_streams", "obj.data_streams") and isinstance(f.target, ast.Name):
                v = f.target.id
                from .sem import straightline_ex, canon_ast
                sl = straightline_ex(f.body)
                for call, idx in sl["effects"]:
                    if isinstance(call, ast.Call) and canon_ast(call.func) == f"{v}.stream.seek" and call.args and norm(call.args[0]) == "0" \
                            and (len(call.args) > 1 and norm(call.args[1]) in ("SEEK_SET", "0", "io.SEEK_SET", "os.SEEK_SET")) and not sl["rest"]:
                        found = (fn, f)
    ok = found is not None
    det = ""
    if ok:
        fn, f = found
        # before any read: in make_transcoder the loop must precede the construction of the transcoders
        firsts = [c.lineno for c in own_nodes(fn) if isinstance(c, ast.Call) and norm(c.func) in ("PassthroughTranscoder", "PipelineTranscoder", "make_transcoder")]
        ok = bool(firsts) and f.lineno < min(firsts) and not _conditional(f, fn)
        det = "" if ok else "the rewind is conditional or happens after the transcoder was built"
    else:
        det = ("no absolute seek(0) of the sample data streams before transcoding: the streams keep the position the previous export left them at, "
               "so a second export on the same image object writes header-only files")
    ctx.ob("R1", mt, "each sample data stream is rewound to its start before it is transcoded", ok, det, inst="rewind")


def _conditional(node, fn):
    t = getattr(node, "_parent", None)
    while t is not None and t is not fn:
        if isinstance(t, (ast.If, ast.Try, ast.While, ast.For)):
            return True
        t = getattr(t, "_parent", None)
    return False


# ------------------------------------------------------------------------ I6
def rule_I6(ctx):
    """construct objects (adapters, subconstructs) are module-level singletons shared by every partition / volume / file that
    is parsed: nothing they compute for one parse may be kept on the object.  No method other than __init__ of a construct
    subclass stores into `self` (attribute store, augmented store, setattr, delattr, update of self.__dict__)."""
    from ..core.layout import Layouts
    L = Layouts(ctx)
    n_cls = 0
    for m, q, c in ctx.prog.all_classes():
        base = L.construct_base(c)
        if not base or base in ("Container", "ListContainer"):
            continue
        n_cls += 1
        for st in c.body:
            if not isinstance(st, (ast.FunctionDef, ast.AsyncFunctionDef)) or st.name == "__init__":
                continue
            if any(isinstance(d, ast.Name) and d.id in ("staticmethod", "classmethod") for d in st.decorator_list) or not st.args.args:
                continue
            me = st.args.args[0].arg
            bad = []
            for n in ast.walk(st):
                tg = []
                if isinstance(n, ast.Assign):
                    tg = n.targets
                elif isinstance(n, (ast.AugAssign, ast.AnnAssign)):
                    tg = [n.target]
                elif isinstance(n, ast.Delete):
                    tg = n.targets
                elif isinstance(n, (ast.For, ast.comprehension)):
                    tg = [n.target]
                elif isinstance(n, ast.withitem) and n.optional_vars is not None:
                    tg = [n.optional_vars]
                elif isinstance(n, ast.NamedExpr):
                    tg = [n.target]
                for t in tg:
                    for x in ast.walk(t):
                        if isinstance(x, ast.Attribute) and isinstance(x.value, ast.Name) and x.value.id == me and isinstance(x.ctx, (ast.Store, ast.Del)):
                            bad.append(f"{me}.{x.attr}")
                        # self.d[k] = v / self.x.y = v: state reachable from the shared object
                        if isinstance(x, (ast.Subscript, ast.Attribute)) and isinstance(x.ctx, (ast.Store, ast.Del)) and isinstance(x.value, ast.Attribute) \
                                and (dotted(x.value) or "").split(".")[0] == me:
                            bad.append(norm(x))
                if isinstance(n, ast.Call) and isinstance(n.func, ast.Name) and n.func.id in ("setattr", "delattr") and n.args and isinstance(n.args[0], ast.Name) and n.args[0].id == me:
                    bad.append(f"{n.func.id}({me}, ...)")
                if isinstance(n, ast.Call) and isinstance(n.func, ast.Attribute) and n.func.attr in ("update", "setdefault", "pop", "clear") and norm(n.func.value) in (f"{me}.__dict__", f"vars({me})"):
                    bad.append(norm(n)[:40])
            ok = not bad
            ctx.ob("I6", st, "a shared construct object keeps nothing from one parse for the next (no store into self outside __init__)", ok,
                   "" if ok else f"{q}.{st.name} stores {sorted(set(bad))}: the value computed for the first partition / volume parsed is reused for every later one",
                   inst=f"{m.path}:{q}.{st.name}", file=m.path)
    ctx.fact("I6", "construct classes", n_cls)


# ------------------------------------------------------------------------ I7
_ONE_SHOT = {"filter", "map", "zip", "iter", "reversed", "enumerate"}


def rule_I7(ctx):
    """what is stored on an element outlives one traversal (elements are memoised and listed / exported repeatedly): no
    one-shot iterator - filter(), map(), zip(), iter(), reversed(), enumerate() or a generator expression - is handed to a
    constructor of a package class or stored in an attribute; the first traversal would consume it"""
    from .sem import single_defs
    n = 0
    for m, q, fn in ctx.prog.all_functions():
        defs = None
        for c in own_nodes(fn):
            sinks = []
            if isinstance(c, ast.Call) and isinstance(c.func, ast.Name):
                r = ctx.prog.resolve(m, c.func.id)
                if r and r[0] == "class":
                    sinks = [(a, f"argument of {c.func.id}(...)") for a in c.args] + [(k.value, f"{c.func.id}({k.arg}=...)") for k in c.keywords if k.arg]
            elif isinstance(c, ast.Assign) and any(isinstance(t, ast.Attribute) for t in c.targets):
                sinks = [(c.value, f"`{norm(c.targets[0])}`")]
            for v, where_ in sinks:
                n += 1
                cands = [v]
                if isinstance(v, ast.Name):
                    # every value the local may hold (any assignment to it in this function)
                    cands = [a.value for a in own_nodes(fn) if isinstance(a, ast.Assign) and any(isinstance(t, ast.Name) and t.id == v.id for t in a.targets)] + \
                            [a.value for a in own_nodes(fn) if isinstance(a, ast.AnnAssign) and isinstance(a.target, ast.Name) and a.target.id == v.id and a.value is not None]
                e = next((x for x in cands if isinstance(x, ast.GeneratorExp) or (isinstance(x, ast.Call) and isinstance(x.func, ast.Name) and x.func.id in _ONE_SHOT
                                                                                   and ctx.prog.resolve(m, x.func.id) is None)), None)
                if e is not None:
                    ctx.ob("I7", c, "values stored on elements can be traversed more than once", False,
                           f"{where_} receives the one-shot iterator `{norm(e)[:60]}`: it is empty after the first ls / export of that element", inst=f"one-shot:{m.path}:{q}:{norm(e)[:30]}", file=m.path)
    ctx.ob("I7", ctx.prog.module("smpl_extract/base.py").tree.body[0], "constructor arguments and attribute stores were examined", n >= 300, f"{n} sinks", inst="sinks-examined",
           file="smpl_extract/base.py", qualname="<module>")
    ctx.fact("I7", "sinks", n)


# ------------------------------------------------------------------------ I8
_MUTATORS = {"sort", "reverse", "append", "extend", "insert", "pop", "remove", "clear", "update", "setdefault", "popitem", "add", "discard"}


def rule_I8(ctx):
    """memoised collections (a property that hands out a cached `self._x`) are shared by every later ls / export of the opened
    image: outside the code that builds them nobody changes them in place (sort, reverse, append, pop, item assignment, del...)"""
    # memo properties: every return is the cached attribute (directly or through a local copy of it)
    memo = {}
    for m, q, fn in ctx.prog.all_functions():
        if not ctx.prog.is_property(fn):
            continue
        rets = [r for r in own_nodes(fn) if isinstance(r, ast.Return) and r.value is not None]
        stores = {dotted(t) for a in own_nodes(fn) if isinstance(a, ast.Assign) for t in a.targets if isinstance(t, ast.Attribute) and (dotted(t) or "").startswith("self._")}
        if rets and stores and any(dotted(r.value) in stores for r in rets):
            memo.setdefault(fn.name, []).append(q)
    n = 0
    for m, q, fn in ctx.prog.all_functions():
        if ctx.prog.is_property(fn) and fn.name in memo:
            continue
        aliases = {}
        for a in own_nodes(fn):
            if isinstance(a, ast.Assign) and len(a.targets) == 1 and isinstance(a.targets[0], ast.Name) and isinstance(a.value, ast.Attribute) and a.value.attr in memo:
                aliases[a.targets[0].id] = norm(a.value)
            elif isinstance(a, ast.For) and isinstance(a.iter, ast.Attribute) and a.iter.attr in memo:
                pass

        def memo_expr(e):
            if isinstance(e, ast.Attribute) and e.attr in memo:
                return norm(e)
            if isinstance(e, ast.Name) and e.id in aliases:
                # only when every assignment to that local is such a property read
                defs_ = [x for x in own_nodes(fn) if isinstance(x, ast.Assign) and any(isinstance(t, ast.Name) and t.id == e.id for t in x.targets)]
                if all(isinstance(x.value, ast.Attribute) and x.value.attr in memo for x in defs_):
                    return aliases[e.id]
            return None

        for c in own_nodes(fn):
            hit = None
            if isinstance(c, ast.Call) and isinstance(c.func, ast.Attribute) and c.func.attr in _MUTATORS:
                src = memo_expr(c.func.value)
                if src:
                    hit = (src, f".{c.func.attr}(...)")
            elif isinstance(c, (ast.Assign, ast.AugAssign, ast.Delete)):
                tg = c.targets if isinstance(c, (ast.Assign, ast.Delete)) else [c.target]
                for t in tg:
                    if isinstance(t, ast.Subscript):
                        src = memo_expr(t.value)
                        if src:
                            hit = (src, " item assignment / deletion")
                    elif isinstance(c, ast.AugAssign) and memo_expr(t):
                        hit = (memo_expr(t), " augmented assignment")
            if hit:
                n += 1
                ctx.ob("I8", c, "memoised collections are not changed in place by their users", False,
                       f"`{norm(c)[:70]}` changes `{hit[0]}` ({hit[1].strip()}): the cached list every later ls / export sees is altered", inst=f"mutates:{m.path}:{q}:{hit[0]}", file=m.path)
    ctx.ob("I8", ctx.prog.module("smpl_extract/structural.py").tree.body[0], "memoised collection properties were found and their users examined", len(memo) >= 5,
           f"{sorted(memo)}", inst="memo-properties", file="smpl_extract/structural.py", qualname="<module>")
    ctx.fact("I8", "memo properties", sorted(memo))


# ------------------------------------------------------------------------ I9
_MEMO_DECOS = {"lru_cache", "cache", "cached_property", "memoize", "memoized"}


def rule_I9(ctx):
    """a function that builds an object with state of its own (a stream with a cursor, an element, a list) returns a new one on
    every call: it carries no memoising decorator - two callers sharing one stream would move each other's cursor"""
    n = 0
    for m, q, fn in ctx.prog.all_functions():
        for d in fn.decorator_list:
            core = d.func if isinstance(d, ast.Call) else d
            nm = core.attr if isinstance(core, ast.Attribute) else (core.id if isinstance(core, ast.Name) else None)
            if nm not in _MEMO_DECOS:
                continue
            n += 1
            # what does it return?  a constructor call of a package class / a container display -> shared mutable state
            builds = []
            for r in own_nodes(fn):
                if isinstance(r, ast.Return) and r.value is not None:
                    v = r.value
                    if isinstance(v, ast.Name):
                        ds = [a.value for a in own_nodes(fn) if isinstance(a, ast.Assign) and any(isinstance(t, ast.Name) and t.id == v.id for t in a.targets)]
                        v = ds[-1] if ds else v
                    if isinstance(v, (ast.List, ast.Dict, ast.Set, ast.ListComp, ast.DictComp, ast.SetComp)):
                        builds.append(norm(v)[:40])
                    elif isinstance(v, ast.Call) and isinstance(v.func, ast.Name):
                        rr = ctx.prog.resolve(m, v.func.id)
                        if (rr and rr[0] == "class") or v.func.id in ("list", "dict", "set", "bytearray", "open", "sorted"):
                            builds.append(norm(v)[:40])
                    elif isinstance(v, ast.Call) and isinstance(v.func, ast.Attribute) and v.func.attr in ("readlines", "split", "rsplit", "splitlines", "copy", "tolist", "findall"):
                        builds.append(norm(v)[:40])  # a new list per call - which the callers are free to consume
            ok = not builds
            ctx.ob("I9", fn, "object-building functions are not memoised", ok, "" if ok else f"@{nm} on {q}, which returns `{builds[0]}`: every caller gets the same object", inst=f"memo:{m.path}:{q}", file=m.path)
    ctx.ob("I9", ctx.prog.module("smpl_extract/akai/sat.py").tree.body[0], "stream factories were examined for memoising decorators", True, f"{n} decorated functions", inst="examined",
           file="smpl_extract/akai/sat.py", qualname="<module>")
    ctx.fact("I9", "memoised functions", n)
