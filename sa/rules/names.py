"""N1..N8: names, paths, listing (C05, C06, C10, C16)."""
import ast
from ..core.loader import clone as _clone
import re

from ..core.loader import AnalysisError, dotted, norm, own_nodes, where, enclosing_class, full
from ..core import rx
from ..core.rx import AStr, W, SP, WS, DASH, DOT, HASH, LP, RP
from ..core.symexec import run_paths, calls_on
from ..core.consts import NotConst
from .util import find_try_handler, handler_names, raises_in
from .sem import canon_expr, return_canons, grow_events

ST = "smpl_extract/structural.py"
BASE = "smpl_extract/base.py"
ACT = "smpl_extract/actions.py"


# ------------------------------------------------------------------------ N1
def _is_routines_iter(node, fn=None):
    t = norm(node) if fn is None else canon_expr(fn, node)
    return t in ("self._routines.values()", "getattr(self, '_routines', {}).values()", "(getattr(self, '_routines', None) or {}).values()")


def _routine_loop(fn, ctx=None):
    """(node, variable threaded through the routines) or None.  The node is the `for routine in
    self._routines.values(): x = routine(x)` loop, or an assignment `x = helper(<routines>, x)` whose helper
    (same module) is such a loop over its first parameter returning the threaded value."""
    if ctx is not None:
        for n in own_nodes(fn):
            if isinstance(n, ast.Assign) and len(n.targets) == 1 and isinstance(n.targets[0], ast.Name) and isinstance(n.value, ast.Call) \
                    and isinstance(n.value.func, (ast.Name, ast.Attribute)) and len(n.value.args) == 2 \
                    and norm(n.value.args[0]) in ("self._routines", "getattr(self, '_routines', {})") \
                    and isinstance(n.value.args[1], ast.Name) and n.value.args[1].id == n.targets[0].id:
                hname = n.value.func.id if isinstance(n.value.func, ast.Name) else n.value.func.attr
                from .sem import local_function
                h = local_function(ctx, fn._module, hname, enclosing_class(fn))
                if h is not None:
                    hp = [a.arg for a in h.args.args if a.arg not in ("self", "cls")]
                    for f in own_nodes(h):
                        if isinstance(f, ast.For) and len(hp) == 2 and norm(f.iter) == f"{hp[0]}.values()" and isinstance(f.target, ast.Name):
                            thr = [st for st in f.body if isinstance(st, ast.Assign) and norm(st) == f"{hp[1]} = {f.target.id}({hp[1]})"]
                            rets = [r for r in own_nodes(h) if isinstance(r, ast.Return)]
                            if thr and rets and all(norm(r.value) == hp[1] for r in rets):
                                return n, n.targets[0].id
    for n in own_nodes(fn):
        if isinstance(n, ast.For) and (_is_routines_iter(n.iter) or _is_routines_iter(n.iter, fn)) and isinstance(n.target, ast.Name):
            r = n.target.id
            for st in n.body:
                if isinstance(st, ast.Assign) and len(st.targets) == 1 and isinstance(st.targets[0], ast.Name) and isinstance(st.value, ast.Call) \
                        and isinstance(st.value.func, ast.Name) and st.value.func.id == r and len(st.value.args) == 1 \
                        and isinstance(st.value.args[0], ast.Name) and st.value.args[0].id == st.targets[0].id:
                    return n, st.targets[0].id
    return None


def _follow_children(ctx, cls):
    """chain of functions that compute `children` for cls: follows `return self.<prop>` / `result = self.<prop>`"""
    prog = ctx.prog
    chain = []
    fn = prog.find_method(cls, "children")
    seen = set()
    while fn is not None and id(fn) not in seen:
        seen.add(id(fn))
        chain.append(fn)
        rets = [n for n in own_nodes(fn) if isinstance(n, ast.Return) and n.value is not None]
        nxt = None
        if len(rets) == 1:
            v = rets[0].value
            if isinstance(v, ast.Name):
                vname = v.id
                for n in own_nodes(fn):
                    if isinstance(n, ast.Assign) and any(isinstance(t, ast.Name) and t.id == vname for t in n.targets):
                        v2 = n.value
                        if isinstance(v2, ast.Attribute) and isinstance(v2.value, ast.Name) and v2.value.id == "self":
                            v = v2
            if isinstance(v, ast.Attribute) and isinstance(v.value, ast.Name) and v.value.id == "self" and len(list(own_nodes(fn))) < 12:
                cand = prog.find_method(cls, v.attr)
                if cand is not None and prog.is_property(cand):
                    nxt = cand
        fn = nxt
    # a realiser called from the last function (e.g. _load_partitions)
    last = chain[-1] if chain else None
    if last is not None and _routine_loop(last, ctx) is None:
        for n in own_nodes(last):
            if isinstance(n, ast.Call) and isinstance(n.func, ast.Attribute) and isinstance(n.func.value, ast.Name) and n.func.value.id == "self":
                cand = prog.find_method(cls, n.func.attr)
                if cand is not None and _routine_loop(cand, ctx) is not None:
                    chain.append(cand)
    return chain


def rule_N1(ctx):
    """every directory class applies the naming routines to the children it hands out"""
    prog = ctx.prog
    trav = prog.klass(ST, "Traversable", "N1")
    classes = [trav] + prog.subclasses_of(trav)
    ctx.fact("N1", "classes", sorted(c.name for c in classes))
    if len(classes) < 10:
        raise AnalysisError("N1", "-", f"only {len(classes)} Traversable classes found (confirmed: 11)")
    for cls in sorted(classes, key=lambda c: c.name):
        chain = _follow_children(ctx, cls)
        if not chain:
            ctx.ob("N1", cls, f"{cls.name}.children exists", False, "no children property found", inst=cls.name)
            continue
        ok, det = False, ""
        for fn in chain:
            rl = _routine_loop(fn, ctx)
            if rl is None:
                continue
            loop, var = rl
            cfg = ctx.cfg(fn, "N1")
            dom = cfg.dominators(skip_labels=("exc",))
            lid = cfg.nid(loop)
            # the threaded variable is what is returned or cached afterwards, on every normal path that realises; a plain copy made
            # after the loop (`result = var`) carries the same value
            aliases = {var}
            for n in sorted([a_ for a_ in own_nodes(fn) if isinstance(a_, ast.Assign) and a_.lineno > loop.lineno], key=lambda a_: a_.lineno):
                if len(n.targets) == 1 and isinstance(n.targets[0], ast.Name) and isinstance(n.value, ast.Name) and n.value.id in aliases and lid in dom.get(cfg.nid(n), set()):
                    aliases.add(n.targets[0].id)
            sinks = []
            for n in own_nodes(fn):
                if isinstance(n, ast.Return) and isinstance(n.value, ast.Name) and n.value.id in aliases:
                    sinks.append(n)
                if isinstance(n, ast.Assign) and isinstance(n.targets[0], ast.Attribute):
                    v = n.value
                    if isinstance(v, ast.Call) and isinstance(v.func, ast.Name) and v.func.id == "cast" and len(v.args) == 2:
                        v = v.args[1]
                    if isinstance(v, ast.Name) and v.id in aliases:
                        sinks.append(n)
            good = [s for s in sinks if lid in dom.get(cfg.nid(s), set()) and s.lineno > loop.lineno]
            if good:
                ok = True
            else:
                det = f"the routine loop in {fn._qualname} does not feed the value that is returned/cached"
        if not ok and not det:
            det = (f"`{chain[0]._qualname}` ({' -> '.join(f._qualname for f in chain)}) returns the children without running "
                   f"`for routine in self._routines.values(): children = routine(children)`: names shown and export paths fall back to the raw stored names")
        ctx.ob("N1", chain[0], f"{cls.name}: children pass through the safe-name / export-name routines", ok, det, inst=cls.name,
               file=chain[0]._module.path, qualname=chain[0]._qualname)
    # the cache guard in Traversable.children: realise once
    bc = prog.find_method(trav, "children")
    # per path: the realiser runs only when the cache was found empty, its (routine-processed) result is stored, and a filled
    # cache is handed out as it is
    from .util import atomic_facts as _afn
    ok, n_real, n_hit = True, 0, 0
    for p_ in run_paths(ctx, bc, rule="N1", limit=4000):
        if p_.end != "return":
            continue
        facts = dict(_afn(p_))
        realised = any(isinstance(c_.func, ast.Attribute) and c_.func.attr == "_f_realize_children" for c_, e_, st_ in calls_on(p_))
        empty = True if (facts.get("Is(self._children,None)") is True or facts.get("IsNot(self._children,None)") is False or facts.get("truthy(self._children)") is False) else (
            False if (facts.get("Is(self._children,None)") is False or facts.get("IsNot(self._children,None)") is True or facts.get("truthy(self._children)") is True) else None)
        if realised:
            n_real += 1
            stored = any(s_.kind == "stmt" and isinstance(s_.ast, ast.Assign) and any(dotted(t_) == "self._children" for t_ in s_.ast.targets) for s_ in p_.steps)
            ok = ok and empty is True and stored
        else:
            n_hit += 1
            ok = ok and empty is False and p_.ret is not None and p_.ret.key() == "self._children"
    ok = ok and n_real >= 1 and n_hit >= 1
    ctx.ob("N1", bc, "Traversable.children realises once and caches", ok, "", inst="cache-guard")


# ------------------------------------------------------------------------ N2
def rule_N2(ctx):
    prog = ctx.prog
    trav = prog.klass(ST, "Traversable", "N2")
    dirs = {c.name: c for c in prog.subclasses_of(trav)}
    roots = {"AkaiImageParser", "RolandS7xxImage", "CompactDiskAudioImage", "Image"}
    n = 0
    for m, q, fn in prog.all_functions():
        for c in own_nodes(fn):
            if isinstance(c, ast.Call) and isinstance(c.func, ast.Name) and c.func.id in dirs and c.func.id not in roots:
                r = prog.resolve(m, c.func.id)
                if not r or r[0] != "class":
                    continue
                n += 1
                name = c.func.id
                kw = {k.arg: norm(k.value) for k in c.keywords}
                val = kw.get("routines", kw.get("_routines"))
                if name == "VolumeEntry":
                    ok = True  # covered by RolandS7xxImage.set_routines below
                    det = ""
                else:
                    src = val
                    if val is not None and val not in ("child_info.routines", "self._routines"):
                        for a in own_nodes(fn):
                            if isinstance(a, ast.Assign) and any(isinstance(t, ast.Name) and t.id == val for t in a.targets):
                                src = norm(a.value)
                    ok = src in ("child_info.routines", "self._routines")
                    if not ok:
                        # however the arguments are put together (keyword table, **mapping): what the constructor's `routines`
                        # parameter is bound to on every path that makes the call
                        from ..core.terms import SIGS as _sigs
                        from .util import call_parts as _cp2, evaluator as _ev2n
                        got_ = set()
                        for p_ in run_paths(ctx, fn, rule="N2", limit=4000):
                            for c_, e_, st_ in calls_on(p_):
                                if c_ is c:
                                    nm_, pos_, kw_ = _cp2(_ev2n(ctx, fn, e_).ev(c_).key())
                                    params_ = _sigs.get(name) or []
                                    bound_ = dict(zip(params_, pos_))
                                    bound_.update(kw_)
                                    got_.add(bound_.get("routines", bound_.get("_routines")))
                        ok = bool(got_) and got_ <= {"child_info.routines", "self._routines"}
                        if not ok and got_:
                            val = sorted(str(x) for x in got_)[0]
                    det = "" if ok else f"routines argument is `{val}`: children of this directory never receive safe/export names"
                ctx.ob("N2", c, f"{name}(...) receives the routines of its parent context", ok, det, inst=f"{name}@{q}")
    if n < 5:
        raise AnalysisError("N2", "-", f"only {n} directory constructor sites found (confirmed: 7)")
    # VolumeEntry: RolandS7xxImage.set_routines forwards
    sr = ctx.fn("smpl_extract/roland/s7xx/image.py", "RolandS7xxImage.set_routines", "N2")
    fors = [f for f in own_nodes(sr) if isinstance(f, ast.For) and norm(f.iter) == "self.volumes"]
    ok = len(fors) == 1 and any(isinstance(c, ast.Call) and norm(c) in (f"{fors[0].target.id}.set_routines(self._routines)", f"{fors[0].target.id}.set_routines(routines)")
                                for c in ast.walk(fors[0])) and any(norm(c) == "super().set_routines(routines)" for c in own_nodes(sr) if isinstance(c, ast.Call))
    ctx.ob("N2", sr, "Roland image forwards its routines to every volume (volumes are created without routines)", ok, "", inst="VolumeEntry-forward")
    bs = ctx.fn(ST, "Traversable.set_routines", "N2")
    ok = any(isinstance(a, ast.Assign) and norm(a) == "self._routines = routines" for a in own_nodes(bs))
    ctx.ob("N2", bs, "set_routines stores the routines", ok, "", inst="set_routines")
    # context plumbing
    bc = ctx.fn(ST, "Traversable.children", "N2")
    # the argument of the realiser as a dict-valued term on every path that calls it (literal, dict(...), or filled key by key)
    from ..core.terms import dict_parts as _dp2
    from .util import evaluator as _ev2, call_parts as _cp2
    from .sem import dict_items
    kv, ok, n_rc = {}, True, 0
    for p_ in run_paths(ctx, bc, rule="N2", limit=4000):
        for c_, e_, st_ in calls_on(p_):
            if isinstance(c_.func, ast.Attribute) and c_.func.attr == "_f_realize_children" and len(c_.args) == 1:
                n_rc += 1
                dp_ = _dp2(_ev2(ctx, bc, e_).ev(c_.args[0]).key())
                kv = dp_[1] if dp_ is not None and not dp_[0] else {}
                ok = ok and kv.get("_elem_routines") == "self._routines" and kv.get("_elem_parent") == "self"
    ok = ok and n_rc >= 1
    ctx.ob("N2", bc, "children are realised with _elem_parent = self and _elem_routines = self._routines", ok, f"{kv}", inst="context-additions")
    lp = ctx.fn("smpl_extract/akai/image.py", "AkaiImageParser._load_partitions", "N2")
    from .util import evaluator as _ev2, call_parts as _cp2
    kw, ok, n_ps = {}, True, 0
    for p_ in run_paths(ctx, lp, rule="N2", limit=4000):
        for c_, e_, st_ in calls_on(p_):
            if isinstance(c_.func, ast.Attribute) and c_.func.attr == "parse_stream":
                n_ps += 1
                kw = _cp2(_ev2(ctx, lp, e_).ev(c_).key())[2]
                ok = ok and kw.get("_elem_routines") == "self._routines" and kw.get("_elem_parent") == "self" and kw.get("_elem_name") not in (None, "None")
    ok = ok and n_ps >= 1
    ctx.ob("N2", lp, "partitions are parsed with the image as parent and its routines", ok, f"{kw}", inst="partition-context")
    pc = ctx.fn("smpl_extract/util/constructs.py", "pull_child_info", "N2")
    cpar_ = pc.args.args[0].arg
    ok, n_r = True, 0
    for p_ in run_paths(ctx, pc, rule="N2", limit=4000):
        if p_.end != "return" or p_.ret is None:
            continue
        n_r += 1
        fn_, pos_, kw_ = _cp2(p_.ret.key())
        from ..core import terms as _T2
        sig_ = _T2.SIGS.get("ChildInfo") or ("parent", "parent_path", "next_path", "routines", "name")
        for i_, v_ in enumerate(pos_):
            if i_ < len(sig_):
                kw_.setdefault(sig_[i_], v_)
        ok = ok and kw_.get("routines") == f"_pull_from_context({cpar_},'_elem_routines',[])" and kw_.get("parent") == f"_pull_from_context({cpar_},'_elem_parent',None)"
    ok = ok and n_r >= 1
    ctx.ob("N2", pc, "pull_child_info reads parent and routines from the context", ok, "", inst="pull_child_info")
    for q in ("PerformanceEntry.patch_entries", "PerformanceEntry.files"):
        f = ctx.fn("smpl_extract/roland/s7xx/performance_entry.py", q, "N2")
        ok = "_elem_routines" in full(f) and "self._routines" in full(f) and "_elem_parent" in full(f)
        ctx.ob("N2", f, f"{q} hands its routines and itself to the entries it realises", ok, "", inst=q)
    # both actions install both routines
    for an in ("ls_action", "export_samples_to_wav"):
        f = ctx.fn(ACT, an, "N2")
        sr_ = [c for c in own_nodes(f) if isinstance(c, ast.Call) and norm(c.func) == "image.set_routines" and len(c.args) == 1]
        kv = (dict_items(f, sr_[0].args[0]) if len(sr_) == 1 else None) or {}
        ok = kv.get("make_safe_names") == "image.make_safe_names_routine" and kv.get("make_export_names") == "image.make_export_names_routine" and set(kv) == {"make_safe_names", "make_export_names"}
        ctx.ob("N2", f, f"{an} installs both naming routines (safe names for ls, export names for paths) before touching the tree", ok,
               "" if ok else f"routines installed: {sorted(kv)}: what a later operation on the same image sees depends on which operation ran first", inst=f"{an}:routines")
        # set_routines precedes any traversal
        calls = sorted([c for c in own_nodes(f) if isinstance(c, ast.Call) and dotted(c.func) in ("image.set_routines", "image.parse_path", "image.export_samples")], key=lambda c: (c.lineno, c.col_offset))
        ok = bool(calls) and dotted(calls[0].func) == "image.set_routines"
        ctx.ob("N2", f, f"{an} installs the routines before traversing", ok, "", inst=f"{an}:order")


# ------------------------------------------------------------------------ N3
def _prop_canon(ctx, cls, text):
    """`self.X` where X is a read-only property of cls (or a base) all of whose paths return `self.Y` -> `self.Y` (followed up to 3 steps)"""
    for _ in range(3):
        if cls is None or not text.startswith("self.") or not text[5:].isidentifier():
            return text
        attr = text[5:]
        prop = None
        for c in ctx.prog.mro(cls):
            hits = [st for st in c.body if isinstance(st, ast.FunctionDef) and st.name == attr]
            if hits:
                if len(hits) == 1 and any(isinstance(d, ast.Name) and d.id == "property" for d in hits[0].decorator_list):
                    prop = hits[0]
                break
            if any(isinstance(st, (ast.Assign, ast.AnnAssign)) and any(isinstance(t, ast.Name) and t.id == attr for t in (st.targets if isinstance(st, ast.Assign) else [st.target]))
                   for st in c.body):
                break
        if prop is None:
            return text
        rets = {p_.ret.key() if p_.ret is not None else None for p_ in run_paths(ctx, prop, rule="N3") if p_.end == "return"}
        ends = {p_.end for p_ in run_paths(ctx, prop, rule="N3")}
        if len(rets) != 1 or ends != {"return"}:
            return text
        nxt = rets.pop()
        if nxt is None or not nxt.startswith("self.") or not nxt[5:].isidentifier():
            return text
        text = nxt
    return text


def rule_N3(ctx):
    sites = [("smpl_extract/akai/sample.py", "AkaiSample.to_generalized"), ("smpl_extract/roland/s7xx/sample_file.py", "SampleFile.to_generalized"),
             ("smpl_extract/cdda/image.py", "AudioTrack.to_generalized")]
    for path, q in sites:
        fn = ctx.fn(path, q, "N3")
        cs = [c for c in own_nodes(fn) if isinstance(c, ast.Call) and isinstance(c.func, ast.Name) and c.func.id == "Sample"]
        ok = len(cs) == 1
        kw = {k.arg: norm(k.value) for k in cs[0].keywords} if ok else {}
        want = {"_export_name": "self.export_name", "_safe_name": "self.safe_name", "_path": "self.path", "_parent": "self.parent", "name": "self.name"}
        cls_ = enclosing_class(fn)
        for k, v in want.items():
            # `self.name` and the attribute a plain property `name` returns are the same value
            good = kw.get(k) == v or (kw.get(k) is not None and _prop_canon(ctx, cls_, kw.get(k)) == _prop_canon(ctx, cls_, v))
            ctx.ob("N3", cs[0] if cs else fn, f"{q}: generalized sample receives {k} = {v}", good, f"is {kw.get(k)}", inst=f"{q}:{k}")
    # the name an AKAI file goes by (listing, pairing, output file) is the one of its directory entry, not the copy inside the file
    for path, q in (("smpl_extract/akai/sample.py", "AkaiSample.name"), ("smpl_extract/akai/program.py", "Program.name")):
        fnm = ctx.fn(path, q, "N3")
        rps = [p_ for p_ in run_paths(ctx, fnm, rule="N3") if p_.end == "return"]
        ok = bool(rps) and all(p_.ret is not None and p_.ret.key() == "self.file_name" for p_ in rps)
        ctx.ob("N3", fnm, f"{q} is the directory entry's name (file_name)", ok, f"{[p_.ret.key() if p_.ret is not None else None for p_ in rps]}", inst=f"{q}:source")
    cb = ctx.fn("smpl_extract/generalized/sample.py", "combine_stereo", "N3")
    from .sem import record_fields
    nn = cb.args.args[2].arg
    r_yes = record_fields(cb, lambda t: True if t == f"{nn} is not None" else (False if t == f"{nn} is None" else None))
    if r_yes is None:
        raise AnalysisError("N3", where(cb), "combine_stereo: how the result's fields are produced is not understood (unrecognised form)")
    ok = r_yes[0].get("_export_name") == nn
    ctx.ob("N3", cb, "the merged stereo sample is exported under the common stem", ok, "" if ok else f"_export_name = {r_yes[0].get('_export_name')}", inst="combine_stereo-name")


# ------------------------------------------------------------------------ N4
SAFE_EXPORT = frozenset([W, SP, DASH, DOT, HASH])


def _regex_of(ctx, fn, attr_expr):
    """pattern/flags of a class-level `re.compile(...)` referenced as self.<NAME>"""
    d = dotted(attr_expr)
    if d and d.isidentifier() and getattr(fn, "_module", None) is not None:
        # a module-level compiled pattern
        from ..core.consts import RegexVal, NotConst
        try:
            rv = ctx.folder.ev(attr_expr, fn._module)
        except NotConst:
            rv = None
        return (rv.pattern, rv.flags, attr_expr) if isinstance(rv, RegexVal) else None
    if not d or not d.startswith("self."):
        return None
    cls = enclosing_class(fn)
    name = d.split(".", 1)[1]
    for c in ctx.prog.mro(cls):
        for st in c.body:
            if isinstance(st, ast.Assign) and any(isinstance(t, ast.Name) and t.id == name for t in st.targets):
                v = st.value
                from ..core.consts import RegexVal, NotConst
                try:
                    rv = ctx.folder.ev(v, c._module)
                except NotConst:
                    rv = None
                if isinstance(rv, RegexVal):
                    return rv.pattern, rv.flags, v
    return None


class StrInterp:
    """abstract interpretation of one path of a name-sanitising method"""

    def __init__(self, ctx, fn, inputs):
        self.ctx, self.fn = ctx, fn
        self.vars = dict(inputs)  # name -> AStr | ('match', kind, regex tree, source AStr, source var)
        self.problems = []

    def const(self, node):
        """value of a literal or of a constant of the package (module / class level) named by `node`; None if it is neither"""
        if isinstance(node, ast.Constant):
            return node.value
        if isinstance(node, ast.Name) and (node.id in self.vars or "list:" + node.id in self.vars):
            return None
        stored = {n_.id for n_ in ast.walk(self.fn) if isinstance(n_, ast.Name) and isinstance(n_.ctx, ast.Store)} | {a_.arg for a_ in self.fn.args.args}
        if any(isinstance(n_, ast.Name) and n_.id in stored for n_ in ast.walk(node)):
            return None
        try:
            return self.ctx.folder.ev(node, self.fn._module)
        except Exception:
            return None

    def ev(self, node):
        if isinstance(node, ast.Constant) and isinstance(node.value, str):
            return AStr.const(node.value)
        if isinstance(node, ast.Name):
            v = self.vars.get(node.id)
            if v is None and node.id not in self.vars:
                c_ = self.const(node)
                if isinstance(c_, str):
                    return AStr.const(c_)
            return v if isinstance(v, AStr) else None
        if isinstance(node, ast.BinOp) and isinstance(node.op, ast.Add):
            a, b = self.ev(node.left), self.ev(node.right)
            if a is not None and b is not None:
                return a.concat(b)
            return None
        if isinstance(node, ast.Call) and isinstance(node.func, ast.Attribute):
            f = node.func
            if f.attr == "strip" and not node.args:
                v = self.ev(f.value)
                return v.strip() if v is not None else None
            if f.attr in ("upper", "lower") and not node.args:
                return self.ev(f.value)
            if f.attr == "sub" and len(node.args) == 2:
                rg = _regex_of(self.ctx, self.fn, f.value)
                src = self.ev(node.args[1])
                repl = self.const(node.args[0])
                if rg is None or src is None or not isinstance(repl, str):
                    return None
                surv = rx.negated_class_plus(rg[0], rg[1])
                if surv is not None:
                    return src.sub_negated(surv, repl)
                rem = rx.positive_class_plus(rg[0], rg[1])
                if rem is not None and repl == "":
                    return src.remove_classes(rem)
                return src.sub_unknown(repl)
            if f.attr == "group" and isinstance(f.value, ast.Name) and len(node.args) == 1 and isinstance(node.args[0], ast.Constant):
                m = self.vars.get(f.value.id)
                if isinstance(m, tuple) and m[0] == "match":
                    return self.group(m, node.args[0].value)
                return None
            if f.attr == "join" and len(node.args) == 1:
                sep = self.ev(f.value)
                items = node.args[0]
                if isinstance(items, ast.Name):
                    items = self.vars.get("list:" + items.id)
                if sep is not None and isinstance(items, (ast.Tuple, ast.List)):
                    parts = [self.ev(e) for e in items.elts]
                    if all(p is not None for p in parts) and parts:
                        res = parts[0]
                        for p in parts[1:]:
                            res = res.concat(sep).concat(p)
                        return res
                return None
        if isinstance(node, ast.Call) and isinstance(node.func, ast.Name) and node.func.id == "str":
            return AStr((W, DASH), (W, DASH), (W,), False)  # str(int)
        if isinstance(node, ast.BinOp) and isinstance(node.op, ast.Mod) and isinstance(node.left, ast.Constant) and isinstance(node.left.value, str):
            # "..%s..%d.." % (a, b)  /  "..%s.." % a : the literal pieces with the values rendered by str() in between
            import re as _re2
            pieces = _re2.split(r"(%[sd%])", node.left.value)
            if any("%" in pc and pc not in ("%s", "%d", "%%") for pc in pieces):
                return None
            args = list(node.right.elts) if isinstance(node.right, ast.Tuple) else [node.right]
            if sum(1 for pc in pieces if pc in ("%s", "%d")) != len(args):
                return None
            res = AStr.const("")
            for pc in pieces:
                if pc in ("%s", "%d"):
                    a_ = args.pop(0)
                    part = self.ev(a_)
                    if part is None and isinstance(a_, ast.Name) and self._is_int_param(a_.id):
                        part = AStr((W, DASH), (W, DASH), (W,), False)
                    if part is None:
                        return None
                    res = res.concat(part)
                elif pc:
                    res = res.concat(AStr.const("%" if pc == "%%" else pc))
            return res
        if isinstance(node, ast.Call) and isinstance(node.func, ast.Attribute) and node.func.attr == "format" and isinstance(node.func.value, ast.Constant) \
                and isinstance(node.func.value.value, str) and not node.keywords:
            import re as _re2
            pieces = _re2.split(r"(\{\})", node.func.value.value)
            if any(("{" in pc or "}" in pc) and pc != "{}" for pc in pieces) or sum(1 for pc in pieces if pc == "{}") != len(node.args):
                return None
            args = list(node.args)
            res = AStr.const("")
            for pc in pieces:
                if pc == "{}":
                    a_ = args.pop(0)
                    part = self.ev(a_)
                    if part is None and isinstance(a_, ast.Name) and self._is_int_param(a_.id):
                        part = AStr((W, DASH), (W, DASH), (W,), False)
                    if part is None:
                        return None
                    res = res.concat(part)
                elif pc:
                    res = res.concat(AStr.const(pc))
            return res
        if isinstance(node, ast.JoinedStr):
            res = AStr.const("")
            for v in node.values:
                if isinstance(v, ast.Constant) and isinstance(v.value, str):
                    part = AStr.const(v.value)
                elif isinstance(v, ast.FormattedValue) and v.format_spec is None and v.conversion in (-1, 115):
                    part = self.ev(v.value)
                    if part is None and isinstance(v.value, ast.Name) and self._is_int_param(v.value.id):
                        part = AStr((W, DASH), (W, DASH), (W,), False)  # an int rendered by str()
                else:
                    part = None
                if part is None:
                    return None
                res = res.concat(part)
            return res
        if isinstance(node, ast.Subscript) and isinstance(node.slice, ast.Constant) and isinstance(node.slice.value, int) \
                and isinstance(node.value, ast.Call) and isinstance(node.value.func, ast.Attribute) and node.value.func.attr == "groups" \
                and isinstance(node.value.func.value, ast.Name):
            m = self.vars.get(node.value.func.value.id)
            if isinstance(m, tuple) and m[0] == "match" and node.slice.value >= 0:
                return self.group(m, node.slice.value + 1)
        return None

    def _is_int_param(self, name):
        for a in self.fn.args.args:
            if a.arg == name and a.annotation is not None and norm(a.annotation) == "int":
                return True
        return False

    def group(self, m, k):
        _, kind, tree, src, srcvar = m
        gs = rx.groups(tree)
        g = [x for x in gs if x[0] == k]
        if not g:
            return None
        gno, seq, idx = g[0]
        rest = tree[idx + 1:]
        first_rest = rx.first_classes(rest)
        is_prefix = idx == 0 and kind == "match"
        res = AStr(src.alphabet, ALLC, ALLC, True)
        if is_prefix and rx.is_lazy_any_plus(seq):
            # non-empty prefix: keeps the first character of the source
            last = set(src.alphabet)
            if rx.starts_with_space_star(rest) and not (src.first & {SP, WS}):
                last -= {SP, WS}  # a trailing blank would be absorbed by the following \s* (lazy group = shortest)
            res = AStr(src.alphabet, src.first, last, False)
        elif is_prefix and rx.is_lazy_any_star(seq):
            # possibly empty prefix; it contains the first character when the rest cannot start with it
            if not (set(src.first) & {c for c in first_rest if c is not None}) and None not in first_rest:
                res = AStr(src.alphabet, src.first, src.alphabet, False)
            else:
                res = AStr(src.alphabet, src.alphabet, src.alphabet, True)
        else:
            lit = rx.first_classes(seq)
            alpha = set()
            for op, av in seq:
                pass
            res = AStr(src.alphabet, src.alphabet, src.alphabet, True)
            # alternation of literals such as (L|R)
            import re._constants as sc
            if len(seq) == 1 and seq[0][0] is sc.BRANCH:
                alts = [rx.literal_text(a) for a in seq[0][1][1]]
                if all(a for a in alts):
                    cl = set()
                    for a in alts:
                        cl |= rx.classes_of_text(a)
                    res = AStr(cl, {c for a in alts for c in rx.classes_of_char(a[0])}, {c for a in alts for c in rx.classes_of_char(a[-1])}, False)
            elif len(seq) == 1 and seq[0][0] is sc.IN:
                neg, full, touched = rx.class_items(seq[0][1])
                if not neg:
                    res = AStr(touched, touched, touched, False)
        return res


ALLC = rx.ALL


def _match_of(ctx, fn, si, v):
    """('match', kind, tree, source AStr, source var) for a `<regex>.match(x)` / `re.match(pat, x)` call, else None"""
    if not (isinstance(v, ast.Call) and isinstance(v.func, ast.Attribute) and v.func.attr in ("match", "search", "fullmatch")):
        return None
    tree = None
    srcnode = None
    if norm(v.func.value) == "re" and len(v.args) >= 2 and isinstance(v.args[0], ast.Constant):
        tree = rx.parse(v.args[0].value)
        srcnode = v.args[1]
    else:
        rg = _regex_of(ctx, fn, v.func.value)
        if rg is not None and v.args:
            tree = rx.parse(rg[0], rg[1])
            srcnode = v.args[0]
    if tree is None or srcnode is None:
        return None
    src = si.ev(srcnode)
    if src is None:
        return None
    return ("match", v.func.attr, tree, src, srcnode.id if isinstance(srcnode, ast.Name) else None)


def _refine(ctx, fn, si, test, truth, flags):
    """refine the abstract strings with the knowledge that `test` evaluated to `truth`"""
    if isinstance(test, ast.UnaryOp) and isinstance(test.op, ast.Not):
        return _refine(ctx, fn, si, test.operand, not truth, flags)
    if isinstance(test, ast.BoolOp):
        if (isinstance(test.op, ast.And) and truth) or (isinstance(test.op, ast.Or) and not truth):
            for v in test.values:
                _refine(ctx, fn, si, v, truth, flags)
        return
    # `if match:` / `if <regex>.match(x):`
    m = None
    if isinstance(test, ast.Name) and isinstance(si.vars.get(test.id), tuple):
        m = si.vars[test.id]
    elif isinstance(test, ast.Call):
        m = _match_of(ctx, fn, si, test)
    elif isinstance(test, ast.Compare) and len(test.ops) == 1 and isinstance(test.ops[0], (ast.Is, ast.IsNot)) and norm(test.comparators[0]) == "None":
        inner = test.left
        mm = si.vars.get(inner.id) if isinstance(inner, ast.Name) else _match_of(ctx, fn, si, inner)
        if isinstance(mm, tuple):
            m = mm
            truth = truth if isinstance(test.ops[0], ast.IsNot) else not truth
    if m is not None:
        _, kind, tree, src, srcvar = m
        if truth and kind == "match" and srcvar and isinstance(si.vars.get(srcvar), AStr):
            fc = rx.first_classes(tree)
            if None not in fc:
                cur = si.vars[srcvar]
                si.vars[srcvar] = cur.copy(first=cur.first & {c for c in fc if c is not None}, maybe_empty=False)
        return
    # len(x) <op> k   /  truthiness of x
    if isinstance(test, ast.Name) and isinstance(si.vars.get(test.id), AStr):
        cur = si.vars[test.id]
        si.vars[test.id] = cur.copy(maybe_empty=False) if truth else AStr((), (), (), True)
        return
    if isinstance(test, ast.Compare) and len(test.ops) == 1 and isinstance(test.left, ast.Call) and norm(test.left.func) == "len" \
            and isinstance(test.left.args[0], ast.Name) and isinstance(si.vars.get(test.left.args[0].id), AStr) and isinstance(test.comparators[0], ast.Constant):
        var = test.left.args[0].id
        op, k = test.ops[0], test.comparators[0].value
        empty_when_true = (isinstance(op, ast.LtE) and k == 0) or (isinstance(op, ast.Lt) and k == 1) or (isinstance(op, ast.Eq) and k == 0)
        nonempty_when_true = (isinstance(op, ast.Gt) and k == 0) or (isinstance(op, ast.GtE) and k == 1) or (isinstance(op, ast.NotEq) and k == 0)
        cur = si.vars[var]
        if (empty_when_true and not truth) or (nonempty_when_true and truth):
            si.vars[var] = cur.copy(maybe_empty=False)
        elif (empty_when_true and truth) or (nonempty_when_true and not truth):
            si.vars[var] = AStr((), (), (), True)
        return
    # x[-1] in (".", "-")   /  x.endswith / x.startswith with a constant
    ends = isinstance(test, ast.Call) and isinstance(test.func, ast.Attribute) and test.func.attr in ("endswith", "startswith") and isinstance(test.func.value, ast.Name) \
        and len(test.args) == 1 and not test.keywords
    if ends or (isinstance(test, ast.Compare) and len(test.ops) == 1 and isinstance(test.ops[0], (ast.In, ast.NotIn, ast.Eq, ast.NotEq)) and isinstance(test.left, ast.Subscript)
                and isinstance(test.left.value, ast.Name) and norm(test.left.slice) in ("-1", "0", "-1:", ":1")):
        var = test.func.value.id if ends else test.left.value.id
        cur = si.vars.get(var)
        if not ends and isinstance(cur, AStr) and cur.maybe_empty and norm(test.left.slice) in ("-1", "0"):
            si.problems.append(f"`{norm(test.left)}` is evaluated while `{var}` may be empty (IndexError)")
        comp = test.args[0] if ends else test.comparators[0]
        elts = comp.elts if isinstance(comp, (ast.Tuple, ast.List, ast.Set)) else [comp]
        if not isinstance(comp, (ast.Tuple, ast.List, ast.Set, ast.Constant)):
            cv_ = si.const(comp)  # a named constant of the package
            if isinstance(cv_, str):
                elts = [ast.Constant(value=cv_)]
            elif isinstance(cv_, (tuple, list, set, frozenset)) and all(isinstance(x_, str) for x_ in cv_):
                elts = [ast.Constant(value=x_) for x_ in cv_]
        if isinstance(cur, AStr) and elts and all(isinstance(e, ast.Constant) and isinstance(e.value, str) and len(e.value) == 1 for e in elts):
            cl = set()
            for e in elts:
                cl |= rx.classes_of_text(e.value)
            positive = ends or isinstance(test.ops[0], (ast.In, ast.Eq))
            member = truth if positive else not truth
            which = ("last" if test.func.attr == "endswith" else "first") if ends else ("last" if norm(test.left.slice) in ("-1", "-1:") else "first")
            curset = getattr(cur, which)
            singles = {c for c in cl if c in (DASH, DOT, HASH, LP, RP, rx.SL, rx.BSL, rx.COLON, SP)}
            new = (curset & cl) if member else (curset - singles)
            si.vars[var] = cur.copy(**{which: new})
        return


def _interp_path(ctx, fn, p, inputs, flags, problems_out=None):
    """run the abstract string interpreter along one symexec path; returns (AStr|None for the returned
    value, problems)"""
    si = StrInterp(ctx, fn, inputs)
    if problems_out is not None:
        si.problems = problems_out
    import re as _re
    for s in p.steps:
        st = s.ast
        if st is None:
            continue
        if s.kind == "stmt" and isinstance(st, ast.AugAssign) and isinstance(st.target, ast.Name):
            # x += e  is  x = x + e  for strings; any other augmented assignment loses track of the value
            if isinstance(st.op, ast.Add):
                a_, b_ = si.ev(ast.Name(id=st.target.id, ctx=ast.Load())), si.ev(st.value)
                si.vars[st.target.id] = a_.concat(b_) if isinstance(a_, AStr) and isinstance(b_, AStr) else None
            else:
                si.vars[st.target.id] = None
            continue
        if s.kind == "stmt" and isinstance(st, ast.Assign) and len(st.targets) == 1 and isinstance(st.targets[0], ast.Name):
            t = st.targets[0].id
            v = st.value
            # match objects
            if isinstance(v, ast.Call) and isinstance(v.func, ast.Attribute) and v.func.attr in ("match", "search", "fullmatch"):
                si.vars[t] = _match_of(ctx, fn, si, v)
                continue
            if isinstance(v, (ast.List, ast.Tuple)):
                si.vars["list:" + t] = v
                si.vars["vals:" + t] = [si.ev(e) for e in v.elts]
                # element snapshot: evaluate now and store as constants is not needed (locals are not reassigned before the join)
                continue
            r = si.ev(v)
            si.vars[t] = r
        elif s.kind == "stmt" and isinstance(st, ast.Assign) and len(st.targets) == 1 and isinstance(st.targets[0], (ast.Tuple, ast.List)) \
                and isinstance(st.value, ast.Call) and isinstance(st.value.func, ast.Attribute) and st.value.func.attr == "groups" \
                and isinstance(st.value.func.value, ast.Name) and isinstance(si.vars.get(st.value.func.value.id), tuple):
            # a, b, c = match.groups()
            m_ = si.vars[st.value.func.value.id]
            for i_, t_ in enumerate(st.targets[0].elts):
                if isinstance(t_, ast.Name):
                    si.vars[t_.id] = si.group(m_, i_ + 1)
        elif s.kind == "stmt" and isinstance(st, ast.Assign) and len(st.targets) == 1 and isinstance(st.targets[0], (ast.Tuple, ast.List)) \
                and all(isinstance(t_, ast.Name) for t_ in st.targets[0].elts) \
                and (isinstance(st.value, (ast.Tuple, ast.List)) or (isinstance(st.value, ast.Name) and isinstance(si.vars.get("vals:" + st.value.id), list))):
            # a, b = (x, y)   /   a, b = pair   (pair a tuple display assigned earlier on the path)
            vals_ = [si.ev(e) for e in st.value.elts] if isinstance(st.value, (ast.Tuple, ast.List)) else si.vars["vals:" + st.value.id]
            if len(vals_) == len(st.targets[0].elts):
                for t_, v_ in zip(st.targets[0].elts, vals_):
                    si.vars[t_.id] = v_
            else:
                for t_ in st.targets[0].elts:
                    si.vars[t_.id] = None
        elif s.kind == "test" and s.label in ("true", "false"):
            _refine(ctx, fn, si, st.test, s.label == "true", flags)
    ret = None
    if p.ret_node is not None and p.ret_node.value is not None:
        ret = si.ev(p.ret_node.value)
    return ret


def rule_N4(ctx):
    """export names: non-empty, alphabet within {word, space, - . #} (plus the counter's parentheses),
    first character a word character, no trailing blank, directories do not end in a dot; safe names are stripped"""
    me0 = ctx.fn(ST, "Image.make_export_name", "N4")
    # analysed with every `if A and B: S` (no else) read as `if A: if B: S` - the same statements in the same order - so that the
    # string model sees one decision per operand
    from ..core.loader import clone as _clone4, set_parents as _sp4
    from ..core.inline import normalise_and_if as _nai4
    me = _clone4(me0)
    _nai4(me)
    ast.fix_missing_locations(me)
    _sp4(me)
    me._parent = getattr(me0, "_parent", None)
    for a_ in ("_module", "_qualname"):
        if hasattr(me0, a_):
            setattr(me, a_, getattr(me0, a_))
    prs = [p for p in run_paths(ctx, me, rule="N4") if p.end == "return"]
    if not prs:
        raise AnalysisError("N4", where(me), "no return path")
    pname = me.args.args[1].arg
    for p in prs:
        from .sem import _lits
        facts = set()
        for c, t, _n in p.conds:
            alts = _lits(c, t)
            if len(alts) == 1:
                facts |= set(alts[0])
        is_dir = ("truthy(is_file)", False) in facts
        probs_ = []
        r = _interp_path(ctx, me, p, {pname: AStr()}, {"is_file"}, probs_)
        key = p.cond_key()[:150]
        ctx.ob("N4", p.ret_node, "make_export_name never indexes into a name that may be empty (any stored name - blank, all punctuation - gets a name, not an error)",
               not probs_, "" if not probs_ else probs_[0], inst=f"export-index:{key}")
        if r is None:
            ctx.ob("N4", p.ret_node, "the returned export name is derived from the stored name by recognised sanitising steps", False,
                   f"value returned on [{key}] cannot be followed through the sanitising steps", inst=f"export:{key}")
            continue
        ok1 = not r.maybe_empty
        ok2 = r.alphabet <= SAFE_EXPORT
        ok3 = r.first <= {W}
        ok4 = not (r.last & {SP, WS})
        ctx.ob("N4", p.ret_node, "export name is never empty", ok1, "" if ok1 else "empty name possible", inst=f"export-nonempty:{key}")
        ctx.ob("N4", p.ret_node, "export name uses only word characters, space, '-', '.', '#'", ok2,
               "" if ok2 else f"characters of classes {sorted(r.alphabet - SAFE_EXPORT)} can survive into a path component (path separators / unsafe characters)", inst=f"export-alphabet:{key}")
        ctx.ob("N4", p.ret_node, "export name begins with a word character", ok3,
               "" if ok3 else f"first character may be of class {sorted(r.first - {W})}", inst=f"export-first:{key}")
        ctx.ob("N4", p.ret_node, "export name does not end in a blank", ok4, "" if ok4 else "may end in whitespace", inst=f"export-last:{key}")
        if is_dir:
            ok5 = not (r.last & {DOT})
            ctx.ob("N4", p.ret_node, "a directory's export name does not end in a dot", ok5, "" if ok5 else "directory name may end in '.'", inst=f"export-dir-dot:{key}")
    if not any("is_file" in c for p in prs for c, t, _ in p.conds):
        ctx.ob("N4", me, "directories are treated separately from files (trailing '.'/'-' rule)", False, "no path distinguishes directories", inst="export-dir-branch")
    # safe names are stripped
    ms = ctx.fn(ST, "Image.make_safe_name", "N4")
    for p in [p for p in run_paths(ctx, ms, rule="N4") if p.end == "return"]:
        r = _interp_path(ctx, ms, p, {ms.args.args[1].arg: AStr()}, set())
        ok = r is not None and not (r.first & {SP, WS}) and not (r.last & {SP, WS})
        ctx.ob("N4", p.ret_node, "safe name (what ls prints and what lookup compares after strip()) has no leading or trailing blank", ok,
               "" if ok else "a replaced character at either end leaves a blank: two siblings then print and resolve as the same name", inst="safe-stripped")
    # counter suffix
    ac = ctx.fn(ST, "Image._add_count_to_name", "N4")
    for p in [p for p in run_paths(ctx, ac, rule="N4") if p.end == "return"]:
        src = AStr(SAFE_EXPORT, {W}, SAFE_EXPORT - {SP, WS}, False)
        r = _interp_path(ctx, ac, p, {ac.args.args[1].arg: src}, set())
        key = p.cond_key()[:80]
        if r is None:
            ctx.ob("N4", p.ret_node, "numbered name is built from recognised pieces", False, f"cannot follow the construction on [{key}]", inst=f"count:{key}")
            continue
        ok = r.alphabet <= (SAFE_EXPORT | {LP, RP}) and r.first <= {W} and not r.maybe_empty and not (r.last & {SP, WS})
        ctx.ob("N4", p.ret_node, "numbered name: stem + ' (n)' [+ ' L|R'], still starting with a word character, alphabet + parentheses only", ok,
               "" if ok else f"{r}", inst=f"count:{key}")
    # the regexes behind it (shape facts the interpretation relies on)
    for name, want in (("_INVALID_FILE_NAME", "negated"), ("_SAFE_ENDING", "ending"), ("_STEREO_FILENAME", "stereo")):
        rg = None
        for c in ctx.prog.mro(enclosing_class(me)):
            for st in c.body:
                if isinstance(st, ast.Assign) and any(isinstance(t, ast.Name) and t.id == name for t in st.targets) and isinstance(st.value, ast.Call) and st.value.args:
                    rg = st
        if rg is None:
            raise AnalysisError("N4", f"{ST}:Image.{name}", "regex not found")
        from .util import regex_value
        pat, _fl = regex_value(ctx, rg.value, ctx.prog.module(ST), "N4", f"{ST}:Image.{name}")
        if want == "negated":
            surv = rx.negated_class_plus(pat, _fl)
            ok = surv is not None and surv <= SAFE_EXPORT
            ctx.ob("N4", rg, f"{name} replaces every run of characters outside {{word, space, - . #}}", ok, f"survivors {sorted(surv) if surv else None}", inst=name)
        elif want == "ending":
            t = rx.parse(pat, _fl)
            gs = rx.groups(t)
            ok = len(gs) == 1 and gs[0][2] == 0 and rx.is_lazy_any_plus(gs[0][1]) and rx.starts_with_space_star(t[1:]) and rx.ends_at_end(t)
            ctx.ob("N4", rg, f"{name} is `(shortest non-empty prefix)` followed by blanks / one dot / blanks to the end", ok, pat, inst=name)
        else:
            t = rx.parse(pat, _fl)
            gs = rx.groups(t)
            ok = len(gs) == 3 and rx.is_lazy_any_star(gs[0][1]) and rx.ends_at_end(t)
            ctx.ob("N4", rg, f"{name} has three groups (stem, separator run, L|R) anchored at the end", ok, pat, inst=name)



# ------------------------------------------------------------------------ '(n)' numbering inside one duplicate group
def _numbering(ctx, fn, cfg, f3, setter, gdict):
    """Members of a duplicate group: the first keeps the plain name, every later one gets add_count(name, i) for a counter that
    only grows, starts at 2 for the second member and skips every count whose name is taken.  The first member may be handled
    by the first iteration of the loop or by a peeled statement before a loop over the rest.  Returns a list of problems."""
    from .streams import _walk
    from .util import evaluator
    from ..core.terms import Term, cmp_struct
    probs = []
    calls = [c for c in ast.walk(f3) if isinstance(c, ast.Call) and norm(c.func).split(".")[-1] == "_add_count_to_name"]
    ivars = {norm(c.args[1]) for c in calls if len(c.args) == 2 and not c.keywords}
    if not calls or len(ivars) != 1 or any(len(c.args) != 2 or norm(c.args[0]) != "name" for c in calls):
        return [f"counted names are built as {[norm(c) for c in calls]}"]
    i = next(iter(ivars))
    # the statement list that holds the member loop
    par = getattr(f3, "_parent", None)
    block = None
    for field in ("body", "orelse"):
        if par is not None and f3 in getattr(par, field, []):
            block = getattr(par, field)
    if block is None:
        return ["member loop is not a plain statement of the group loop"]
    pre = block[:block.index(f3)]
    c0 = None
    peeled = []
    for st in pre:
        if isinstance(st, ast.Assign) and len(st.targets) == 1 and norm(st.targets[0]) == i and isinstance(st.value, ast.Constant) and isinstance(st.value.value, int):
            c0 = st.value.value
        for c in ast.walk(st):
            if isinstance(c, ast.Call) and isinstance(c.func, ast.Name) and c.func.id == setter and not isinstance(st, ast.If):
                peeled.append(c)
    if c0 is None:
        return [f"counter `{i}` has no constant start before the member loop"]
    it = f3.iter
    S = None
    if isinstance(it, ast.Name):
        S, rest = it.id, False
    elif isinstance(it, ast.Subscript) and isinstance(it.value, ast.Name) and norm(it.slice) == "1:":
        S, rest = it.value.id, True
    else:
        return [f"members are taken from `{norm(it)}`"]
    if rest != bool(peeled):
        return ["the first member is " + ("named twice" if peeled else "never named")]
    if peeled:
        if len(peeled) != 1 or [norm(a) for a in peeled[0].args] != [f"{S}[0]", "name"] or peeled[0].keywords:
            probs.append(f"first member named by `{norm(peeled[0])}`")
    lp = cfg.loop_of(f3)
    inner = [w for w in ast.walk(f3) if isinstance(w, ast.While)]
    if len(inner) != 1:
        return probs + [f"{len(inner)} skip loops"]
    w = inner[0]
    ilp = cfg.loop_of(w)
    A_i = Term.atom(i + "~")

    def low(t, lo):
        """lower bound of an affine term in i~ (None when not of that shape)"""
        if not t.atoms() <= {i + "~"}:
            return None
        k = t.coeff(i + "~")
        if k < 0:
            return None
        return k * lo + t.value() if k else t.value()

    def decide(pr, lo, concrete):
        """False when a test on the counter contradicts the branch taken"""
        for ck, taken, tst_st in pr.conds:
            snap = next((s_.env for s_ in pr.steps if s_.ast is tst_st and s_.kind == "test"), None)
            if snap is None:
                continue
            cs = cmp_struct(evaluator(ctx, fn, snap), tst_st.test)
            if cs is None:
                continue
            d, sym = cs
            if not d.atoms() <= {i + "~"} or (not d.atoms() and not concrete and False):
                continue
            if not d.atoms():
                v = d.value()
                truth = {"<": v < 0, "<=": v <= 0, ">": v > 0, ">=": v >= 0, "==": v == 0, "!=": v != 0}[sym]
            else:
                mn = low(d, lo)
                if mn is None:
                    continue
                truth = True if (sym in (">", "!=") and mn > 0) or (sym == ">=" and mn >= 0) else (False if (sym in ("<=", "==") and mn > 0) or (sym == "<" and mn >= 0) else None)
            if truth is not None and truth != taken:
                return False
        return True

    def named(pr):
        out = []
        for c, env, st in calls_on(pr):
            if isinstance(c.func, ast.Name) and c.func.id == setter:
                out.append((c, env))
        return out

    # the skip loop: invariant next == add_count(name, i); the counter grows; the only way out is an untaken name (or giving up)
    nn = None
    for kind, path, edge in cfg.iteration_paths(ilp):
        pr = _walk(ctx, fn, cfg, path)
        if kind == "exit":
            if len(path) != 1 and not any(cfg.nodes[x].kind == "raise" for x, _ in path):
                probs.append("the skip loop can be left while the name is still taken")
            continue
        if kind != "back":
            continue
        if not pr.conds:
            probs.append("skip loop without a test")
            continue
        # `cand in groups` - possibly or-ed with memberships of the same candidate in further collections of names in use
        from ..core.terms import _split_top as _stn
        c0_ = pr.conds[0][0]
        parts_ = _stn(c0_[3:-1], ",") if c0_.startswith("or(") and c0_.endswith(")") else [c0_]
        ms_ = [re.fullmatch(r"In\((\w+)~,(.+)\)", x_) for x_ in parts_]
        m = None
        if all(ms_) and len({x_.group(1) for x_ in ms_}) == 1 and any(x_.group(2) in (gdict, gdict + ".keys()", f"({gdict}).keys()") for x_ in ms_):
            m = ms_[0]
        if m is None or pr.conds[0][1] is not True:
            probs.append(f"skip loop runs while `{pr.conds[0][0]}`")
            continue
        nn = m.group(1)
        i_end = pr.env.get(i)
        d = (i_end - A_i) if i_end is not None else None
        if d is None or not d.is_const() or d.value() < 1:
            probs.append("a skipped count is tried again")
        nx = pr.env.get(nn)
        if nx is None or i_end is None or nx.key() != f"self._add_count_to_name(name,{i_end.key()})":
            probs.append(f"after a skip the candidate is `{nx.key() if nx is not None else None}` for counter `{i_end.key() if i_end is not None else None}`")
    if nn is None:
        return probs + ["skip loop does not test the candidate against the taken names"]
    head_i = next((x for x, _ in [(ilp.head, None)]), None)
    seen = {"first": set(), "later": set()}
    for phase in ("first", "later"):
        for kind, path, edge in cfg.iteration_paths(lp):
            if kind == "exit" and len(path) == 1:
                continue
            if kind != "back":
                if not any(cfg.nodes[x].kind == "raise" for x, _ in path):
                    probs.append("a member can end the numbering of its group")
                continue
            cut = next((k for k, (x, _) in enumerate(path) if x == ilp.head), None)
            prefix = path if cut is None else path[:cut]
            if phase == "first":
                pr = _walk(ctx, fn, cfg, prefix, env0={i: Term.const(c0)}, keep=(i,))
                lo = c0
            else:
                pr = _walk(ctx, fn, cfg, prefix)
                lo = c0 + 1
            if not decide(pr, lo, phase == "first"):
                continue
            full_pr = _walk(ctx, fn, cfg, path)
            sets = named(full_pr)
            if len(sets) != 1 or norm(sets[0][0].args[0]) != norm(f3.target):
                probs.append(f"{len(sets)} names given to a member on one path")
                continue
            c, env = sets[0]
            first_member = phase == "first" and not peeled
            if cut is None:
                val = evaluator(ctx, fn, env).ev(c.args[1]).key()
                if val == "name":
                    seen[phase].add("plain")
                    if not first_member:
                        probs.append("a later member can receive the plain name")
                    continue
                # counted without entering the skip test at all: names taken by other groups are not skipped
                probs.append(f"a member is named `{val[:80]}` without the taken-name check")
                continue
            if first_member:
                probs.append("the first member does not keep the plain name")
                continue
            seen[phase].add("counted")
            i_in = pr.env.get(i)
            nx = pr.env.get(nn)
            if i_in is None or nx is None or nx.key() != f"self._add_count_to_name(name,{i_in.key()})":
                probs.append(f"candidate `{nx.key() if nx is not None else None}` does not follow the counter `{i_in.key() if i_in is not None else None}`")
                continue
            mn = low(i_in, lo) if phase == "later" else (i_in.value() if i_in.is_const() else None)
            if mn is None or mn < 2:
                probs.append(f"a later member can get the count {mn}")
            grow = (i_in - A_i) if phase == "later" else None
            if phase == "later" and (not grow.is_const() or grow.value() < 1):
                probs.append("two members can get the same count")
            # between the skip loop and the naming nothing touches candidate or counter, and the candidate is what is assigned
            after = [cfg.nodes[x].ast for x, _ in path[cut + 1:] if cfg.nodes[x].kind == "stmt" and cfg.nodes[x].ast is not None and not any(n_ is cfg.nodes[x].ast for n_ in ast.walk(w))]
            touched = [a for a in after if any(isinstance(n_, ast.Name) and n_.id in (nn, i) and isinstance(n_.ctx, ast.Store) for n_ in ast.walk(a))]
            if touched or norm(c.args[1]) != nn:
                probs.append("the name assigned is not the candidate that passed the taken-name check")
    if not peeled and seen["first"] != {"plain"}:
        probs.append(f"first member: {sorted(seen['first'])}")
    if "counted" not in seen["later"]:
        probs.append("no counted name for later members")
    return probs



# ------------------------------------------------------------------------ ancestor-chain builder (export_path)
def _chain_climb(ctx, fn, rule):
    """The function walks a linked chain with one cursor and collects one value per link into one list.  Returns a dict:
    cursor, start (text), step (attribute climbed through), element (text over the cursor), order ('root-first' when the
    returned list has the last visited link first), continue_when / stop_when (truth assignments of NONE = cursor is None,
    EMPTY = cursor.path is empty under which an iteration runs / the loop ends), problems [text]."""
    from .streams import _walk
    from .sem import path_tests, bool_eval, emptiness_by
    out = {"problems": []}
    loops = [w for w in own_nodes(fn) if isinstance(w, (ast.While, ast.For))]
    if len(loops) != 1 or not isinstance(loops[0], ast.While):
        out["problems"].append(f"{len(loops)} loops (one `while` climbing the parents is expected)")
        return out
    w = loops[0]
    steps = [a for a in ast.walk(w) if isinstance(a, ast.Assign) and len(a.targets) == 1 and isinstance(a.targets[0], ast.Name)
             and isinstance(a.value, ast.Attribute) and isinstance(a.value.value, ast.Name) and a.value.value.id == a.targets[0].id]
    if len(steps) != 1:
        out["problems"].append(f"{len(steps)} cursor steps `c = c.<attr>` in the loop")
        return out
    c = steps[0].targets[0].id
    out["cursor"], out["step"] = c, steps[0].value.attr
    others = [a for a in ast.walk(w) if a is not steps[0] and any(isinstance(t, ast.Name) and t.id == c and isinstance(t.ctx, ast.Store) for t in ast.walk(a))
              and isinstance(a, (ast.Assign, ast.AnnAssign, ast.AugAssign, ast.NamedExpr))]
    if others:
        out["problems"].append("the cursor is assigned more than once per iteration")
    # start of the walk: the last top-level assignment to the cursor before the loop
    start = None
    for st in fn.body:
        if st is w:
            break
        if isinstance(st, ast.Assign) and len(st.targets) == 1 and isinstance(st.targets[0], ast.Name) and st.targets[0].id == c:
            start = st.value
        elif isinstance(st, ast.AnnAssign) and isinstance(st.target, ast.Name) and st.target.id == c and st.value is not None:
            start = st.value
    out["start"] = norm(start) if start is not None else None
    # the list that grows
    grown = {}
    for n in ast.walk(w):
        for nm in {x.id for x in ast.walk(n) if isinstance(x, ast.Name)} if isinstance(n, (ast.Expr, ast.Assign, ast.AugAssign)) else ():
            for g in grow_events(n, nm):
                grown.setdefault(nm, []).append(g)
    grown = {k: v for k, v in grown.items() if v}
    if len(grown) != 1:
        out["problems"].append(f"lists grown in the loop: {sorted(grown)}")
        return out
    L = next(iter(grown))
    out["list"] = L
    cfg = ctx.cfg(fn, rule)
    lp = cfg.loop_of(w)
    is_path = lambda x: norm(x) == f"{c}.path"  # noqa: E731

    def atom_for(asg):
        def atom(node):
            t_ = node
            if isinstance(t_, ast.Compare) and len(t_.ops) == 1 and isinstance(t_.left, ast.Name) and t_.left.id == c \
                    and isinstance(t_.comparators[0], ast.Constant) and t_.comparators[0].value is None:
                if isinstance(t_.ops[0], (ast.Is, ast.Eq)):
                    return asg["NONE"]
                if isinstance(t_.ops[0], (ast.IsNot, ast.NotEq)):
                    return not asg["NONE"]
            e_ = emptiness_by(t_, is_path)
            if e_ is not None:
                if asg["NONE"]:
                    return "undef"  # None has no .path
                return asg["EMPTY"] == e_
            return None
        return atom

    runs, stops, kinds = set(), set(), {}
    n_back = 0
    for kind, path, edge in cfg.iteration_paths(lp):
        pr = _walk(ctx, fn, cfg, path)
        tests = path_tests(pr)
        if kind == "back":
            n_back += 1
            gs = []
            for s_ in pr.steps:
                if s_.kind == "stmt" and s_.ast is not None:
                    gs += list(grow_events(s_.ast, L))
            n_step = sum(1 for s_ in pr.steps if s_.ast is steps[0])
            if len(gs) != 1 or n_step != 1:
                out["problems"].append(f"an iteration adds {len(gs)} entries and climbs {n_step} times")
            else:
                node, gk, val = gs[0]
                if gk == "prepend" and isinstance(val, ast.List) and len(val.elts) == 1:
                    kinds.setdefault("front", set()).add(norm(val.elts[0]))
                elif gk == "insert" and norm(node.args[0]) == "0":
                    kinds.setdefault("front", set()).add(norm(val))
                elif gk == "append":
                    kinds.setdefault("back", set()).add(norm(val))
                elif gk in ("concat", "iadd", "extend") and isinstance(val, ast.List) and len(val.elts) == 1:
                    kinds.setdefault("back", set()).add(norm(val.elts[0]))
                else:
                    out["problems"].append(f"list grown by `{norm(node)}`")
                # the entry is taken before the cursor moves on
                order_ = [s_.ast for s_ in pr.steps if s_.kind == "stmt" and s_.ast is not None and (s_.ast is steps[0] or any(True for _ in grow_events(s_.ast, L)))]
                if order_ and order_[0] is steps[0]:
                    out["problems"].append("the cursor moves before the entry is taken")
        for vals in ((False, False), (False, True), (True, False), (True, True)):
            asg = {"NONE": vals[0], "EMPTY": vals[1]}
            feasible = True
            for tst, taken in tests:
                v = bool_eval(tst, atom_for(asg))
                if v == "undef":
                    out["problems"].append(f"`{norm(tst)}` reads .path of a cursor that may be None")
                    feasible = False
                    break
                if v is None:
                    out["problems"].append(f"test `{norm(tst)}` not understood")
                    feasible = False
                    break
                if v != taken:
                    feasible = False
                    break
            if feasible:
                (runs if kind == "back" else stops).add(vals)
    out["continue_when"], out["stop_when"] = runs, stops
    if len(kinds) == 1 and len(next(iter(kinds.values()))) == 1:
        side = next(iter(kinds))
        out["element"] = next(iter(kinds[side]))
        order = "root-first" if side == "front" else "leaf-first"
    else:
        out["problems"].append(f"entries added as {kinds}")
        return out
    # what happens to the list between the loop and the return
    names = {L}
    after = False
    returned = None
    for st in fn.body:
        if st is w:
            after = True
            continue
        if not after:
            if any(isinstance(n, ast.Name) and n.id == L and isinstance(n.ctx, ast.Store) for n in ast.walk(st)) and not isinstance(st, ast.If):
                v_ = st.value if isinstance(st, (ast.Assign, ast.AnnAssign)) else None
                if not (isinstance(v_, ast.List) and not v_.elts) and not (isinstance(v_, ast.Call) and norm(v_) == "list()"):
                    out["problems"].append(f"the list starts as `{norm(v_) if v_ is not None else norm(st)}`")
            continue

        def view(e):
            """(alias name, flipped?) for expressions that are the list or its reversal"""
            if isinstance(e, ast.Name) and e.id in names:
                return False
            if isinstance(e, ast.Subscript) and isinstance(e.value, ast.Name) and e.value.id in names and norm(e.slice) in ("::-1",):
                return True
            if isinstance(e, ast.Subscript) and isinstance(e.value, ast.Name) and e.value.id in names and norm(e.slice) in (":", "::1"):
                return False
            if isinstance(e, ast.Call) and isinstance(e.func, ast.Name) and e.func.id == "list" and len(e.args) == 1 and not e.keywords:
                a_ = e.args[0]
                if isinstance(a_, ast.Call) and isinstance(a_.func, ast.Name) and a_.func.id == "reversed" and len(a_.args) == 1 and isinstance(a_.args[0], ast.Name) \
                        and a_.args[0].id in names:
                    return True
                return view(a_)
            return None

        if isinstance(st, ast.Expr) and isinstance(st.value, ast.Call) and isinstance(st.value.func, ast.Attribute) and st.value.func.attr == "reverse" \
                and isinstance(st.value.func.value, ast.Name) and st.value.func.value.id in names and not st.value.args:
            order = "leaf-first" if order == "root-first" else "root-first"
        elif isinstance(st, (ast.Assign, ast.AnnAssign)) and view(st.value) is not None and isinstance(st.targets[0] if isinstance(st, ast.Assign) else st.target, ast.Name):
            if view(st.value):
                order = "leaf-first" if order == "root-first" else "root-first"
            names = {(st.targets[0] if isinstance(st, ast.Assign) else st.target).id}
        elif isinstance(st, ast.Return) and st.value is not None and view(st.value) is not None:
            if view(st.value):
                order = "leaf-first" if order == "root-first" else "root-first"
            returned = True
        elif any(isinstance(n, ast.Name) and n.id in names for n in ast.walk(st)):
            out["problems"].append(f"`{norm(st)[:80]}` after the loop is not understood")
    if not returned:
        out["problems"].append("the collected list is not what is returned")
    out["order"] = order
    # any return before the loop may only be the empty answer for an element without a path
    for r in [n for n in own_nodes(fn) if isinstance(n, ast.Return)]:
        if r in fn.body and fn.body.index(r) > fn.body.index(w):
            continue
        v_ = r.value
        if not (isinstance(v_, ast.List) and not v_.elts):
            out["problems"].append(f"early `{norm(r)}`")
    early_ok = True
    for p in run_paths(ctx, fn, rule=rule, limit=2000):
        if p.end == "return" and p.ret_node is not None and not (p.ret_node in fn.body and fn.body.index(p.ret_node) > fn.body.index(w)):
            ts = path_tests(p)
            emp = [emptiness_by(t_, lambda x: norm(x) == "self.path") for t_, tk in ts]
            if not any(e_ is not None and (e_ == tk) for e_, (t_, tk) in zip(emp, ts)):
                early_ok = False
    if not early_ok:
        out["problems"].append("an early return is taken for an element that has a path")
    return out

def rule_N4i(ctx):
    """the never-raises part of N4 (C14): naming an element whose stored name is damaged to nothing file-name-safe must not raise -
    the naming routines run over all children of a directory, so one such name would take the whole directory down"""
    before = len(ctx.obs)
    rule_N4(ctx)
    keep = [o for o in ctx.obs[before:] if o.inst.startswith(("export-index:", "export-nonempty:"))]
    for o in keep:
        o.rule = "N4i"
    ctx.obs[before:] = keep


# ------------------------------------------------------------------------ N5
def rule_N5(ctx):
    ep = ctx.fn(BASE, "Element.export_path", "N5")
    from .sem import grow_events, canon_expr, return_canons
    cc = _chain_climb(ctx, ep, "N5")
    ok = not cc["problems"] and cc.get("element") == f"{cc.get('cursor')}.export_name" and cc.get("order") == "root-first" and cc.get("start") == "self"
    ctx.ob("N5", ep, "export_path is built from the export_name of the element and of each ancestor, root first", ok,
           "" if ok else f"{cc['problems'] or {k: cc.get(k) for k in ('element', 'order', 'start')}}"[:300], inst="export_path")
    ctx.ob("N5", ep, "export_path climbs through .parent", cc.get("step") in ("parent", "_parent"), f"{cc.get('step')}", inst="export_path-parent")
    _name_props(ctx, "N5")
    mo = ctx.fn(ST, "ExportManager.make_output_path", "N5")
    rc = return_canons(mo)
    ok = rc == [f"'/'.join({mo.args.args[1].arg}.export_path())"]
    if not ok:
        from .util import return_keys as _rk
        rk_ = _rk(ctx, mo, "N5")
        ok = rk_ == {f"('/').join({mo.args.args[1].arg}.export_path())"}
        rc = sorted(str(x) for x in rk_)
    ctx.ob("N5", mo, "inner output path = '/'.join(sample.export_path())", ok, f"{rc}", inst="make_output_path")
    es = ctx.fn(ST, "ExportManager.export_samples", "N5")
    ew = [c for c in own_nodes(es) if isinstance(c, ast.Call) and norm(c.func) == "export_wav"]
    fl = [f for f in own_nodes(es) if isinstance(f, ast.For) and ew and any(n is ew[0] for n in ast.walk(f))]
    sv = fl[0].target.id if fl and isinstance(fl[0].target, ast.Name) else "sample"
    ok = len(ew) == 1 and len(ew[0].args) == 2 and norm(ew[0].args[0]) == sv \
        and canon_expr(es, ew[0].args[1]) == f"os.path.join(self.output_directory, self.make_output_path({sv})) + '.wav'"
    ctx.ob("N5", es, "each sample is written to join(destination, inner path) + '.wav'", ok,
           "" if ok else f"written to `{canon_expr(es, ew[0].args[1]) if ew and len(ew[0].args) == 2 else '?'}`", inst="total_path")
    pr = [c for c in own_nodes(es) if isinstance(c, ast.Call) and norm(c.func) == "print"]
    from .sem import fmt_parts
    fp_ = fmt_parts(es, pr[0].args[0]) if len(pr) == 1 and pr[0].args else None
    ok = fp_ == ["Exported ", ("expr", f"self.make_output_path({sv})"), ".wav"]
    ctx.ob("N5", es, "the `Exported` line names the same inner path", ok, "" if ok else f"{fp_}", inst="exported-line")
    # who may open for writing
    n = 0
    for m, q, fn in ctx.prog.all_functions():
        for c in own_nodes(fn):
            if isinstance(c, ast.Call) and isinstance(c.func, ast.Name) and c.func.id == "open":
                mode = None
                if len(c.args) > 1 and isinstance(c.args[1], ast.Constant):
                    mode = c.args[1].value
                for k in c.keywords:
                    if k.arg == "mode" and isinstance(k.value, ast.Constant):
                        mode = k.value.value
                n += 1
                writes = mode is not None and any(ch in mode for ch in "wax+")
                ok = (not writes) or (m.path == "smpl_extract/generalized/wav.py" and q == "export_wav")
                if mode is None and len(c.args) > 1:
                    ok = False
                ctx.ob("N5", c, "only export_wav opens a file for writing; inputs are opened read-only", ok,
                       "" if ok else f"open(..., {mode!r}) in {q}", inst=f"open@{m.path}:{q}:{mode}")
            if isinstance(c, ast.Call) and dotted(c.func) in ("os.open", "io.open", "os.fdopen", "os.remove", "os.unlink", "os.rename", "shutil.rmtree", "os.truncate"):
                ctx.ob("N5", c, "no low-level file creation / deletion outside export_wav's open()", False, f"{norm(c)[:80]} in {q}", inst=f"lowlevel@{q}")
    ctx.fact("N5", "open_calls", n)


def _name_props(ctx, rid):
    """Element.safe_name / export_name by case analysis (mini-interpreter, no repository code is run):
    attribute absent -> raw name, None -> raw name, '' -> '' (an assigned name is used even when it is empty), 'X' -> 'X'"""
    from .sem import Mini, Sym
    for prop in ("safe_name", "export_name"):
        f = ctx.fn(BASE, f"Element.{prop}", rid)
        attr = "_" + prop
        res = {}
        for case, (present, val) in {"absent": (False, None), "none": (True, None), "empty": (True, ""), "set": (True, "X")}.items():
            def special(node, interp, present=present, val=val):
                if isinstance(node, ast.Call) and isinstance(node.func, ast.Name) and node.func.id in ("hasattr", "getattr") and len(node.args) >= 2 \
                        and norm(node.args[0]) == "self" and isinstance(node.args[1], ast.Constant) and node.args[1].value == attr:
                    if node.func.id == "hasattr":
                        return ("bool", present)
                    if present:
                        return ("val", val)
                    return ("val", interp.ev(node.args[2])) if len(node.args) > 2 else ("val", Sym("AttributeError"))
                if isinstance(node, ast.Attribute) and norm(node) == f"self.{attr}":
                    return ("val", val) if present else ("val", Sym("AttributeError"))
                return None

            class M(Mini):
                def ev(self, node):
                    sp = special(node, self)
                    if sp is not None:
                        return sp[1]
                    return super().ev(node)

            m = M(ctx, f._module)
            m.undecided = 0
            r = m.run(f.body)
            out = m.env.get("<return>", Sym("no-return")) if r == "return" else Sym("no-return")
            res[case] = "?" if m.undecided else out
        want = {"absent": "self.name", "none": "self.name", "empty": "", "set": "X"}
        got = {k: (str(v) if isinstance(v, Sym) else v) for k, v in res.items()}
        if any(v == "?" for v in got.values()):
            raise AnalysisError(rid, where(f), f"Element.{prop}: a test could not be decided in the case analysis ({got}); unrecognised idiom")
        ok = got == want
        ctx.ob(rid, f, f"Element.{prop} returns the assigned _{prop} whenever one was assigned (even an empty one), the raw name otherwise", ok,
               "" if ok else f"case analysis attribute absent/None/''/'X' -> {got}, expected {want}", inst=prop)


def rule_N10(ctx):
    """the names ls prints and the lookup compares are the assigned safe names (C10)"""
    _name_props(ctx, "N10")


def rule_N11(ctx):
    """token normalisation used by the path lookup is total: it never raises on any string, in particular not on the
    empty token / empty safe name.  Constant indexing into a string needs a non-emptiness guard unless parse_path's
    handler catches IndexError."""
    from .sem import emptiness
    pp = ctx.fn(ST, "Traversable.parse_path", "N11")
    caught = set()
    for t in own_nodes(pp):
        if isinstance(t, ast.Try):
            for h in t.handlers:
                caught |= set(handler_names(h))
    tolerant = bool(caught & {"IndexError", "LookupError", "Exception", "<bare>", "BaseException"})
    n = 0
    for m, q, fn in ctx.prog.all_functions():
        if not q.endswith("._sanitize_string"):
            continue
        n += 1
        params = [a.arg for a in fn.args.args]
        for sub in own_nodes(fn):
            if not isinstance(sub, ast.Subscript) or isinstance(sub.slice, ast.Slice) or not isinstance(sub.ctx, ast.Load):
                continue
            idx = sub.slice
            if isinstance(idx, ast.UnaryOp) and isinstance(idx.op, ast.USub):
                idx = idx.operand
            if not (isinstance(idx, ast.Constant) and isinstance(idx.value, int)) or not isinstance(sub.value, ast.Name):
                continue
            base = sub.value.id
            guarded = tolerant
            # idiom 1: `<nonempty(base)> and ... base[k]` ; idiom 2: inside `if <nonempty(base)>:` ; idiom 3: after `if <empty(base)>: return/raise`
            node, child = getattr(sub, "_parent", None), sub
            while node is not None and node is not fn and not guarded:
                if isinstance(node, ast.BoolOp) and isinstance(node.op, ast.And):
                    i = next((k for k, v in enumerate(node.values) if v is child or any(x is child for x in ast.walk(v))), None)
                    if i is not None and any(emptiness(fn, v, base) is False for v in node.values[:i]):
                        guarded = True
                if isinstance(node, ast.BoolOp) and isinstance(node.op, ast.Or):
                    # `not s or s[-1] ...`: the later operands are evaluated only when the earlier ones were false
                    i = next((k for k, v in enumerate(node.values) if v is child or any(x is child for x in ast.walk(v))), None)
                    if i is not None and any(emptiness(fn, v, base) is True for v in node.values[:i]):
                        guarded = True
                if isinstance(node, ast.If) and any(x is child for b in node.body for x in ast.walk(b)):
                    tests = node.test.values if isinstance(node.test, ast.BoolOp) and isinstance(node.test.op, ast.And) else [node.test]
                    if any(emptiness(fn, v, base) is False for v in tests):
                        guarded = True
                if isinstance(node, ast.If) and any(x is child for b in node.orelse for x in ast.walk(b)) and emptiness(fn, node.test, base) is True:
                    guarded = True
                child, node = node, getattr(node, "_parent", None)
            if not guarded:
                for st in fn.body:
                    if st.lineno >= sub.lineno:
                        break
                    if isinstance(st, ast.If) and emptiness(fn, st.test, base) is True and st.body and isinstance(st.body[-1], (ast.Return, ast.Raise)):
                        # base must not be reassigned between the guard and the use
                        re_as = [a for a in own_nodes(fn) if isinstance(a, (ast.Assign, ast.AugAssign)) and st.lineno < a.lineno < sub.lineno
                                 and any(isinstance(t, ast.Name) and t.id == base for t in (a.targets if isinstance(a, ast.Assign) else [a.target]))]
                        if not re_as:
                            guarded = True
            ctx.ob("N11", sub, "constant index into the token being normalised is guarded by a non-emptiness test (empty tokens and empty names reach this function)", guarded,
                   "" if guarded else f"`{norm(sub)}` raises IndexError on the empty string; parse_path converts only {sorted(caught)} into `was not found`",
                   inst=f"index:{q}:{norm(sub)}")
        ctx.ob("N11", fn, "token normaliser analysed", True, "", inst=f"normaliser:{q}")
    if n < 2:
        raise AnalysisError("N11", ST, f"expected the base and the AKAI _sanitize_string, found {n}")


# ------------------------------------------------------------------------ N6
def rule_N6(ctx):
    gi = ctx.fn(ST, "Traversable.get_info", "N6")
    from .sem import list_builder as _lb6
    from .util import call_parts as _cp6, evaluator as _evl
    it_calls = [c for c in own_nodes(gi) if isinstance(c, ast.Call) and isinstance(c.func, ast.Name) and c.func.id == "InfoTable"]
    ok, det = len(it_calls) == 1, "InfoTable(...) construction not found"
    if ok:
        fname_, pos_, kw_ = _cp6(_evl(ctx, gi, {}).ev(it_calls[0]).key())
        rows_arg = None
        c_ = it_calls[0]
        cand = [k.value for k in c_.keywords if k.arg == "rows"] or (c_.args[1:2])
        rows_arg = cand[0] if cand else None
        lb = _lb6(gi, rows_arg.id) if isinstance(rows_arg, ast.Name) else None
        ok = lb is not None and lb[0] == "self.children" and len(lb[1]) == 1 and lb[1][0][0] is None and lb[1][0][1].startswith("(_c0.safe_name,")
        det = "" if ok else f"rows are built as {lb}"
    ctx.ob("N6", gi, "the listing shows safe_name of every child, one row per child", ok, det, inst="listing")
    pp = ctx.fn(ST, "Traversable.parse_path", "N6")
    comps = [n for n in own_nodes(pp) if isinstance(n, ast.GeneratorExp)]
    ok = False
    det = "child lookup generator not found"
    for g in comps:
        if len(g.generators) == 1 and g.generators[0].ifs:
            cond = g.generators[0].ifs[0]
            x = g.generators[0].target.id if isinstance(g.generators[0].target, ast.Name) else None
            if isinstance(cond, ast.Compare) and len(cond.ops) == 1 and isinstance(cond.ops[0], ast.Eq):
                l, r = norm(cond.left), norm(cond.comparators[0])
                it_ = g.generators[0].iter
                it_ok = norm(it_) in ("current_node.children", "cast(Traversable, current_node).children")
                if isinstance(it_, ast.Name):
                    dfs_ = [a_.value for a_ in own_nodes(pp) if isinstance(a_, ast.Assign) and norm(a_.targets[0]) == it_.id and a_.lineno < g.lineno]
                    it_ok = bool(dfs_) and norm(dfs_[-1]) in ("current_node.children", "cast(Traversable, current_node).children")
                if {l, r} == {f"self._sanitize_string({x}.safe_name)", "token_sanitized"} and norm(g.elt) == x and it_ok:
                    ok, det = True, ""
                else:
                    det = f"lookup compares `{l}` with `{r}`"
    ctx.ob("N6", pp, "lookup compares the normalised token with the normalised safe_name (the attribute ls displays) of the current node's children", ok, det, inst="lookup")
    ts = [a for a in own_nodes(pp) if isinstance(a, ast.Assign) and norm(a.targets[0]) == "token_sanitized"]
    ok = len(ts) == 1 and norm(ts[0].value) == "self._sanitize_string(token)"
    ctx.ob("N6", pp, "the token is normalised by the same _sanitize_string", ok, "", inst="token-normalise")
    ctx.ob("N6", pp, "children are taken from the current node", ok, "", inst="children-of-current")
    adv = [a for a in own_nodes(pp) if isinstance(a, ast.Assign) and norm(a) == "current_node = child"]
    ctx.ob("N6", pp, "the walk descends into the matched child", len(adv) == 1, "", inst="descend")
    from .sem import emptiness_by, bool_eval
    from .util import evaluator as _ev6
    # base normaliser: returns the stripped input on every path
    f = ctx.fn(ST, "Traversable._sanitize_string", "N6")
    a = f.args.args[1].arg
    prs = [p for p in run_paths(ctx, f, rule="N6") if p.end == "return"]
    ok = bool(prs) and all(p.ret is not None and p.ret.key() == f"{a}.strip()" for p in prs)
    ctx.ob("N6", f, "Traversable._sanitize_string strips blanks (names are matched with or without surrounding blanks)", ok, "", inst="Traversable._sanitize_string")
    # AKAI normaliser: X = upper-cased, stripped input; one trailing colon is dropped exactly when X is non-empty and ends in ':'
    ak = ctx.fn("smpl_extract/akai/image.py", "AkaiImageParser._sanitize_string", "N6")
    a = ak.args.args[1].arg
    Xs = (f"({a}.upper()).strip()", f"({a}.strip()).upper()")
    prs = [p for p in run_paths(ctx, ak, rule="N6") if p.end == "return"]
    ok, det = bool(prs), "no return path"
    strip_ok = bool(prs)
    seen_chop = {True: 0, False: 0}
    for X in Xs:
        if not any(p.ret is not None and X in p.ret.key() for p in prs):
            continue
        for case in ("colon", "other", "empty"):
            for p in prs:
                feasible = True
                for s_ in p.steps:
                    if s_.kind != "test" or s_.label not in ("true", "false"):
                        continue
                    ev_ = _ev6(ctx, ak, s_.env)

                    def atom(node, ev_=ev_):
                        e = emptiness_by(node, lambda x: ev_.ev(x).key() == X)
                        if e is not None:
                            return (case == "empty") == e
                        if isinstance(node, ast.Compare) and len(node.ops) == 1 and isinstance(node.ops[0], (ast.Eq, ast.NotEq)):
                            l, r = node.left, node.comparators[0]
                            for u, v in ((l, r), (r, l)):
                                if isinstance(v, ast.Constant) and v.value == ":" and isinstance(u, ast.Subscript) and ev_.ev(u.value).key() == X \
                                        and norm(u.slice) in ("-1", "len(%s) - 1" % norm(u.value)):
                                    if case == "empty":
                                        return "undef"
                                    return (case == "colon") == isinstance(node.ops[0], ast.Eq)
                                if isinstance(v, ast.Constant) and v.value == ":" and isinstance(u, ast.Subscript) and ev_.ev(u.value).key() == X and norm(u.slice) == "-1:":
                                    return (case == "colon") == isinstance(node.ops[0], ast.Eq)
                        if isinstance(node, ast.Call) and isinstance(node.func, ast.Attribute) and node.func.attr == "endswith" and len(node.args) == 1 \
                                and isinstance(node.args[0], ast.Constant) and node.args[0].value == ":" and ev_.ev(node.func.value).key() == X:
                            return case == "colon"
                        return None

                    v = bool_eval(s_.ast.test, atom)
                    if v == "undef":
                        ok, det = False, "the last character of an empty token is inspected"
                        feasible = False
                    elif v is None:
                        ok, det = False, f"the test `{norm(s_.ast.test)[:80]}` is not understood"
                        feasible = False
                    elif v != (s_.label == "true"):
                        feasible = False
                    if not feasible:
                        break  # the tests after an untaken decision are not reached in this case
                if not feasible:
                    continue
                k = p.ret.key() if p.ret is not None else ""
                chopped = k in (f"slice({X},:-1:)", f"slice({X},:-1 + len({X}):)")
                plain = k == X
                if not (chopped or plain):
                    ok, det = False, f"returns `{k[:120]}`"
                elif chopped != (case == "colon"):
                    ok, det = False, f"for a token {'ending in a colon' if case == 'colon' else ('that is empty' if case == 'empty' else 'not ending in a colon')} the result is `{k[:100]}`"
                seen_chop[chopped] += 1
        break
    else:
        ok, det = False, "the token is not upper-cased and stripped"
    ok = ok and seen_chop[True] >= 1 and seen_chop[False] >= 1
    ctx.ob("N6", ak, "AkaiImageParser._sanitize_string strips blanks (names are matched with or without surrounding blanks)", ok or det.startswith(("for a token", "the last", "the test")), "", inst="AkaiImageParser._sanitize_string")
    ctx.ob("N6", ak, "AKAI images match case-insensitively and ignore one trailing colon (partition names)", ok, det, inst="akai-normalise")


# ------------------------------------------------------------------------ N7
def rule_N7(ctx):
    fn = ctx.fn(ST, "Image.sanitize_names_general", "N7")
    cfg = ctx.cfg(fn, "N7")
    # call-local bookkeeping: every container this routine mutates through a local name (method call or item store) is created
    # fresh in the same call, and the routine does not reach into the object's attribute dictionary.  Names handed out by one
    # naming pass must not steer a later pass over the same image (`children` re-runs the routine on every access).
    _MUT = {"add", "append", "update", "extend", "setdefault", "insert", "discard", "remove", "pop", "popitem", "clear", "appendleft"}
    _FRESH_CALLS = {"set", "dict", "list", "OrderedDict", "defaultdict", "collections.OrderedDict", "collections.defaultdict", "Counter", "deque"}

    def _base(e_):
        while isinstance(e_, (ast.Subscript, ast.Attribute)):
            e_ = e_.value
        return e_.id if isinstance(e_, ast.Name) else None

    def _fresh(v_):
        if isinstance(v_, (ast.Set, ast.Dict, ast.List, ast.SetComp, ast.DictComp, ast.ListComp)):
            return True
        return isinstance(v_, ast.Call) and norm(v_.func) in _FRESH_CALLS and not any(isinstance(n_, ast.Name) and n_.id == "self" for a_ in v_.args for n_ in ast.walk(a_))
    params = {a_.arg for a_ in fn.args.args + fn.args.kwonlyargs}
    mutated = {}
    for n_ in own_nodes(fn):
        if isinstance(n_, ast.Call) and isinstance(n_.func, ast.Attribute) and n_.func.attr in _MUT:
            b_ = _base(n_.func.value)
            if b_ is not None and not (isinstance(n_.func.value, ast.Name) and n_.func.value.id == "self"):
                mutated.setdefault(b_, n_)
        elif isinstance(n_, (ast.Assign, ast.AugAssign, ast.AnnAssign)):
            for t_ in (n_.targets if isinstance(n_, ast.Assign) else [n_.target]):
                if isinstance(t_, ast.Subscript):
                    b_ = _base(t_)
                    if b_ is not None:
                        mutated.setdefault(b_, n_)
    binds = {}
    for n_ in own_nodes(fn):
        if isinstance(n_, ast.Assign):
            for t_ in n_.targets:
                if isinstance(t_, ast.Name):
                    binds.setdefault(t_.id, []).append(n_.value)
        elif isinstance(n_, ast.AnnAssign) and isinstance(n_.target, ast.Name) and n_.value is not None:
            binds.setdefault(n_.target.id, []).append(n_.value)
    def _fresh_name(x_, seen_=()):
        # a local bound only to fresh containers, or to an element of such a local (d[k], d.get(k, <fresh>), d.setdefault(k, <fresh>))
        if x_ == "self" or x_ in params or x_ in seen_ or not binds.get(x_):
            return False
        for v_ in binds[x_]:
            if _fresh(v_):
                continue
            if isinstance(v_, ast.Subscript) and _base(v_) is not None and _fresh_name(_base(v_), seen_ + (x_,)):
                continue
            if isinstance(v_, ast.Call) and isinstance(v_.func, ast.Attribute) and v_.func.attr in ("setdefault", "get") and _base(v_.func.value) is not None \
                    and _fresh_name(_base(v_.func.value), seen_ + (x_,)) and all(_fresh(a_) or isinstance(a_, ast.Constant) for a_ in v_.args[1:]):
                continue
            return False
        return True
    bad = []
    for b_, site_ in sorted(mutated.items()):
        if not _fresh_name(b_):
            bad.append((b_, site_))
    reach = [n_ for n_ in own_nodes(fn) if (isinstance(n_, ast.Attribute) and n_.attr == "__dict__")
             or (isinstance(n_, ast.Call) and norm(n_.func) in ("vars", "setattr", "object.__setattr__"))]
    ok = not bad and not reach and len(mutated) >= 2
    ctx.ob("N7", (bad[0][1] if bad else (reach[0] if reach else fn)), "the de-duplication bookkeeping is local to one call (every container it mutates is created fresh in the call; no access to the attribute dictionary)", ok,
           "" if ok else (f"container(s) {[b for b, _ in bad]} mutated here are not created fresh in this call" if bad else (f"the routine reaches into the object's attributes ({norm(reach[0]) if reach else ''})" if reach else f"only {len(mutated)} mutated containers recognised (confirmed: 2)")),
           inst="call-local")
    fors = sorted([f for f in own_nodes(fn) if isinstance(f, ast.For)], key=lambda f: f.lineno)
    # loops by role: groups = loop over <dict>.items(); members = loop nested in it; grouping = the loop that fills <dict>
    groups = [f for f in fors if isinstance(f.iter, ast.Call) and isinstance(f.iter.func, ast.Attribute) and f.iter.func.attr == "items"
              and isinstance(f.iter.func.value, ast.Name)]
    if len(groups) != 1:
        raise AnalysisError("N7", where(fn), f"expected one loop over the groups dict (.items()), found {len(groups)}")
    f2 = groups[0]
    gdict = f2.iter.func.value.id
    members = [f for f in fors if f is not f2 and any(x is f for x in ast.walk(f2))]
    grouping = [f for f in fors if f is not f2 and f not in members and any(
        isinstance(c, ast.Call) and isinstance(c.func, ast.Attribute) and c.func.attr in ("append", "setdefault") and gdict in norm(c) for c in ast.walk(f))]
    if not grouping:
        # groups built by itertools.groupby: only *adjacent* equal keys form a group, and a dict built from the result keeps the last
        # run of each key - unless the input was sorted by the same key first
        for a_ in own_nodes(fn):
            if isinstance(a_, (ast.Assign, ast.AnnAssign)) and a_.value is not None and norm(a_.targets[0] if isinstance(a_, ast.Assign) else a_.target) == gdict:
                gb = [c for c in ast.walk(a_.value) if isinstance(c, ast.Call) and norm(c.func).split(".")[-1] == "groupby" and c.args]
                if gb and not (isinstance(gb[0].args[0], ast.Call) and norm(gb[0].args[0].func) == "sorted"):
                    ctx.ob("N7", a_, "siblings with the same sanitised name form one group wherever they stand in the directory", False,
                           f"`{norm(gb[0])[:80]}` groups adjacent equal names only: a name that recurs after another one replaces the earlier group and is "
                           "never numbered apart", inst="grouping-whole-level")
                    return
    if len(members) != 1 or len(grouping) != 1:
        raise AnalysisError("N7", where(fn), f"expected one grouping loop and one member loop, found {len(grouping)} / {len(members)}")
    f1, f3 = grouping[0], members[0]
    # every name that is assigned comes out of the de-duplication: f_set is called only inside the groups loop
    setter = fn.args.args[3].arg if len(fn.args.args) > 3 else "f_set"
    for c in own_nodes(fn):
        if isinstance(c, ast.Call) and isinstance(c.func, ast.Name) and c.func.id == setter:
            inside = any(x is c for x in ast.walk(f2))
            ctx.ob("N7", c, "a name is assigned only by the de-duplication (inside the loop over the name groups)", inside,
                   "" if inside else f"`{norm(c)}` outside the group loop: elements named here bypass the '(n)' de-duplication, two siblings can receive the same name",
                   inst=f"setter-site:{'in' if inside else 'out'}:{norm(c)}")
    for r in own_nodes(fn):
        if isinstance(r, ast.Return) and r.lineno < f2.lineno:
            ctx.ob("N7", r, "no return before the de-duplication ran", False, f"return at line {r.lineno} precedes the group loop", inst="early-return")
    # grouping: candidate = f_sanitize(element.name, is_file); every element is put in exactly one group (decided on the
    # value-flow terms of the append executed on each iteration path of the grouping loop)
    from .streams import _walk as _w
    from .util import evaluator as _evr
    lp1 = cfg.loop_of(f1)
    el = f1.target.id if isinstance(f1.target, ast.Name) else None
    sanit = fn.args.args[2].arg if len(fn.args.args) > 2 else "f_sanitize"
    n_back, ok_raw, ok_grp, det_raw, det_grp = 0, True, True, "", ""
    for kind, path, edge in cfg.iteration_paths(lp1):
        if kind == "exit" and len(path) == 1:
            continue
        if kind != "back":
            ok_grp, det_grp = False, "an element can leave the grouping loop early"
            continue
        n_back += 1
        pr = _w(ctx, fn, cfg, path)
        apps = [(c, e) for c, e, st in calls_on(pr) if isinstance(c.func, ast.Attribute) and c.func.attr == "append"]
        if len(apps) != 1 or el is None:
            ok_grp, det_grp = False, f"{len(apps)} group insertions on an iteration path"
            continue
        c, e = apps[0]
        ev = _evr(ctx, fn, e)
        recv = ev.ev(c.func.value).key()
        arg = ev.ev(c.args[0]).key() if c.args else "?"
        m = None
        import re as _re
        for pat in (rf"^sub\({gdict}~?,(?P<k>.+)\)$", rf"^{gdict}~?\.setdefault\((?P<k>.+),\[\]\)$", rf"^{gdict}~?\.setdefault\((?P<k>.+),list\(\)\)$"):
            m = m or _re.match(pat, recv)
        if m is None or arg != el + "~":
            ok_grp, det_grp = False, f"`{norm(c)}`: not an insertion of the element into the group of its candidate name"
            continue
        k = m.group("k")
        want_k = (f"{sanit}({el}~.name,cond({el}~.type_id != ElementTypes.DirectoryEntry))", f"{sanit}({el}~.name,cond(ElementTypes.DirectoryEntry != {el}~.type_id))")
        if not any(k == w for w in want_k):
            # tolerate other renderings of the flag as long as the name argument is the raw stored name
            mk = _re.match(rf"^{sanit}\((?P<n>[^,]+),(?P<f>.+)\)$", k)
            if mk is None or mk.group("n") != f"{el}~.name":
                ok_raw, det_raw = False, f"group key is `{k[:120]}`"
            elif "type_id" not in mk.group("f") or "DirectoryEntry" not in mk.group("f"):
                ok_raw, det_raw = False, f"file/directory flag is `{mk.group('f')[:80]}`"
    ctx.ob("N7", f1, "names are recomputed from the raw stored name (idempotent under re-application) with the file/directory flag", ok_raw and n_back >= 1,
           det_raw, inst="from-raw-name")
    ctx.ob("N7", f1, "every element joins the group of its candidate name (unconditionally)", ok_grp and n_back >= 1, det_grp, inst="grouping")
    # every member of every group gets exactly one f_set per path
    lp = cfg.loop_of(f3)
    n = 0
    for kind, path, edge in cfg.iteration_paths(lp):
        if kind != "back":
            continue
        n += 1
        sets = [cfg.nodes[x].ast for x, _ in path if cfg.nodes[x].kind == "stmt" and isinstance(cfg.nodes[x].ast, ast.Expr)
                and isinstance(cfg.nodes[x].ast.value, ast.Call) and norm(cfg.nodes[x].ast.value.func) == "f_set"]
        ok = len(sets) == 1 and norm(sets[0].value.args[0]) == "element"
        lines = sorted({getattr(cfg.nodes[x].ast, "lineno", 0) for x, _ in path if cfg.nodes[x].ast is not None})
        ctx.ob("N7", f3, "each member of a duplicate group receives exactly one name", ok, "" if ok else f"{len(sets)} f_set calls on the path through lines {lines}", inst=f"member-set:{len(path)}")
    lp2 = cfg.loop_of(f2)
    for kind, path, edge in cfg.iteration_paths(lp2):
        if kind != "back":
            continue
        single = any(cfg.nodes[x].kind == "continue" for x, _ in path)
        if single:
            sets = [cfg.nodes[x].ast for x, _ in path if cfg.nodes[x].kind == "stmt" and isinstance(cfg.nodes[x].ast, ast.Expr)
                    and isinstance(cfg.nodes[x].ast.value, ast.Call) and norm(cfg.nodes[x].ast.value.func) == "f_set"]
            ok = len(sets) == 1 and [norm(a) for a in sets[0].value.args] == ["element", "name"]
            ctx.ob("N7", f2, "a name used by a single element is assigned unchanged", ok, "", inst="single-set")
    # numbering: first keeps the name, later ones get _add_count_to_name(name, i) and skip taken names
    nprobs = _numbering(ctx, fn, cfg, f3, setter, gdict)
    ok = not nprobs
    ctx.ob("N7", f3, "the first duplicate keeps the name, later ones get '(n)' counters that skip names already taken by another group", ok, "; ".join(dict.fromkeys(nprobs))[:300], inst="numbering")
    # a numbered name must also differ from the numbered names other groups were given ("BEAT L" x2 and "BEAT -L" x2 both number to
    # "BEAT (2) L"): every numbered name handed out is recorded in a collection that the skip-if-taken test consults
    skip_tests = [w_ for w_ in ast.walk(f3) if isinstance(w_, ast.While)]
    consulted = set()
    for w_ in skip_tests:
        for c_ in ast.walk(w_.test):
            if isinstance(c_, ast.Compare) and len(c_.ops) == 1 and isinstance(c_.ops[0], ast.In):
                r_ = c_.comparators[0]
                if isinstance(r_, ast.Call) and isinstance(r_.func, ast.Attribute) and r_.func.attr in ("keys", "values"):
                    r_ = r_.func.value
                if isinstance(r_, ast.Name):
                    consulted.add(r_.id)
    recorded = set()
    for c_ in ast.walk(f3):
        if isinstance(c_, ast.Call) and isinstance(c_.func, ast.Attribute) and c_.func.attr in ("add", "append") and isinstance(c_.func.value, ast.Name) and c_.args \
                and isinstance(c_.args[0], ast.Name):
            recorded.add((c_.func.value.id, c_.args[0].id))
        if isinstance(c_, ast.Assign) and len(c_.targets) == 1 and isinstance(c_.targets[0], ast.Subscript) and isinstance(c_.targets[0].value, ast.Name) \
                and isinstance(c_.targets[0].slice, ast.Name):
            recorded.add((c_.targets[0].value.id, c_.targets[0].slice.id))
    set_names = {norm(c_.args[1]) for c_ in ast.walk(f3) if isinstance(c_, ast.Call) and norm(c_.func) == "f_set" and len(c_.args) == 2}
    ok = bool(skip_tests) and any(coll in consulted and nm in set_names for coll, nm in recorded)
    ctx.ob("N7", f3, "a numbered name also skips the numbered names already handed out to other groups at this level", ok,
           "" if ok else f"the skip test consults {sorted(consulted)} only - the names handed out so far are not recorded: two groups whose names differ only in the separator "
           "before L/R (\"BEAT L\" x2, \"BEAT -L\" x2) both receive \"BEAT (2) L\"", inst="numbering-unique")
    rets = [r for r in own_nodes(fn) if isinstance(r, ast.Return)]
    ok = len(rets) == 1 and norm(rets[0].value) in ("result", "elements")
    ctx.ob("N7", fn, "the routine returns the same element list (renaming in place, no element dropped)", ok, "", inst="returns-elements")
    for q, attr, f_s in (("Image.make_safe_names_routine", "_safe_name", "self.make_safe_name"), ("Image.make_export_names_routine", "_export_name", "self.make_export_name")):
        r = ctx.fn(ST, q, "N7")
        c = [x for x in own_nodes(r) if isinstance(x, ast.Call) and norm(x.func) == "self.sanitize_names_general"]
        ok = len(c) == 1
        if ok:
            # canonical call term: keyword / positional spellings agree, the setter is a two-parameter lambda (written in place or
            # produced by a folded factory) storing its second argument in the attribute of its first
            from .util import evaluator as _evq, call_parts as _cpq2
            fn_, pos_, kw_ = _cpq2(_evq(ctx, r, {}).ev(c[0]).key())
            ok = not kw_ and len(pos_) == 3 and pos_[0] == r.args.args[1].arg and pos_[1] == f_s and pos_[2] == f"lambda:setattr(this,'{attr}',ctx)"
        ctx.ob("N7", r, f"{q} stores {attr} computed by {f_s}", ok, "", inst=q)


# ------------------------------------------------------------------------ N8
def _safe_name_separators(ctx):
    """a listed (safe) name never contains a character the path tokeniser splits on: the sanitiser's replace-class takes
    `/` and `\\`, so that a printed name can be typed back as one path token"""
    ms = ctx.fn(ST, "Image.make_safe_name", "N8")
    from .util import regex_value
    import re._constants as sc_
    subs = [c for c in own_nodes(ms) if isinstance(c, ast.Call) and isinstance(c.func, ast.Attribute) and c.func.attr == "sub" and len(c.args) == 2]
    taken = {"/": False, "\\": False}
    for c in subs:
        rg = _regex_of(ctx, ms, c.func.value)
        if rg is None:
            continue
        pat, fl = rg[0], rg[1]

        def walk(seq):
            for op, av in seq:
                if op is sc_.IN:
                    for ch in taken:
                        if rx.class_accepts(av, ch):
                            taken[ch] = True
                elif op is sc_.LITERAL and chr(av) in taken:
                    taken[chr(av)] = True
                elif op is sc_.ANY:
                    for ch in taken:
                        taken[ch] = True
                elif op is sc_.SUBPATTERN:
                    walk(av[3])
                elif op is sc_.BRANCH:
                    for alt in av[1]:
                        walk(alt)
                elif op in (sc_.MAX_REPEAT, sc_.MIN_REPEAT):
                    walk(av[2])
        walk(rx.parse(pat, fl or 0))
    ok = all(taken.values()) and bool(subs)
    ctx.ob("N8", ms, "safe names contain no path separator (`/` and `\\` are replaced), so a listed name is one path token", ok,
           "" if ok else f"not replaced: {[k for k, v in taken.items() if not v]} - `ls` prints a name that parse_path splits in two", inst="safe-name-separators")


def rule_N8(ctx):
    _safe_name_separators(ctx)
    pp = ctx.fn(ST, "Traversable.parse_path", "N8")
    tries = [t for t in own_nodes(pp) if isinstance(t, ast.Try) and any(isinstance(n, ast.GeneratorExp) for n in ast.walk(t))]
    if len(tries) != 1:
        raise AnalysisError("N8", where(pp), "lookup try block not found")
    tr = tries[0]
    caught = set()
    for h in tr.handlers:
        caught |= set(handler_names(h))
    raised = set()
    for st in tr.body:
        for n in ast.walk(st):
            if isinstance(n, ast.Raise) and n.exc is not None:
                e = n.exc.func if isinstance(n.exc, ast.Call) else n.exc
                raised.add((dotted(e) or "?").split(".")[-1])
    nexts = [c for st in tr.body for c in ast.walk(st) if isinstance(c, ast.Call) and norm(c.func) == "next" and len(c.args) == 1]
    if nexts:
        raised.add("StopIteration")
    for e in sorted(raised):
        ok = e in caught or "Exception" in caught or "<bare>" in caught
        ctx.ob("N8", tr, f"lookup failure `{e}` is converted into the not-found error", ok, "" if ok else f"`{e}` escapes parse_path: an unknown path ends in a traceback instead of `was not found`", inst=f"caught:{e}")
    ok = all("ErrorInvalidPath" in raises_in(h.body) for h in tr.handlers) and bool(tr.handlers)
    ctx.ob("N8", tr, "the handler raises ErrorInvalidPath with the `was not found` message", ok and any("was not found" in full(h) for h in tr.handlers), "", inst="raises-invalid-path")
    # non-traversable branch raises
    # every path on which the current node is not a directory ends in ErrorInvalidPath (raised by the lookup handler)
    from ..core.symexec import run_paths as _rp8
    from .util import truth_of as _to8
    n_leaf, ok = 0, True
    for p in _rp8(ctx, pp, include_exc=True, rule="N8", limit=6000):
        tl = None
        for s_ in p.steps:
            if s_.kind == "test" and s_.label in ("true", "false") and isinstance(s_.ast, ast.If) and any(n is s_.ast for st in tr.body for n in ast.walk(st)):
                tst, neg = s_.ast.test, False
                while isinstance(tst, ast.UnaryOp) and isinstance(tst.op, ast.Not):
                    tst, neg = tst.operand, not neg
                if isinstance(tst, ast.Call) and norm(tst.func) == "isinstance" and len(tst.args) == 2 and norm(tst.args[1]) == "Traversable":
                    tl = ((s_.label == "true") != neg)
        if tl is False:
            n_leaf += 1
            if not (p.end == "raise" and (p.raised or "").endswith("ErrorInvalidPath")):
                ok = False
    ctx.ob("N8", tr, "descending below a leaf raises ErrorNotTraversable (handled as not found)", ok and n_leaf >= 1, "" if n_leaf else "no path tests the node kind inside the lookup try", inst="leaf")
    # tokenising
    tk = ctx.prog.class_assigned(ST, "Traversable", "_TOKENIZE_PATH_REGEX", "N8")
    from .util import regex_value
    pat, _fl = regex_value(ctx, tk, ctx.prog.module(ST), "N8", f"{ST}:Traversable._TOKENIZE_PATH_REGEX")
    ok = False
    if pat is not None:
        import re._constants as sc
        t = rx.parse(pat, _fl or 0)
        gs = rx.groups(t)
        ok = len(t) == 1 and len(gs) == 1
        if ok:
            br = gs[0][1]
            f = {c for c in rx.first_classes(br) if c is not None}
            ok = f == {rx.SL, rx.BSL} and None not in rx.first_classes(br)
    ctx.ob("N8", tk, "the path tokeniser splits on '/' and '\\' (one capturing group, so split() alternates token / separator)", ok, f"{pat}", inst="tokeniser", file=ST, qualname="Traversable")
    # one separator match is '/', '\\' or the doubled backslash, never a longer run: a run of three or more separators
    # leaves an empty component between two matches, and a path with an empty component names nothing that `ls` shows
    ok = False
    wd = None
    if pat is not None:
        import re._parser as _sp
        try:
            wd = tuple(int(w) for w in _sp.parse(pat, _fl or 0).getwidth())
        except Exception:
            wd = None
        ok = wd == (1, 2)
    ctx.ob("N8", tk, "one separator match is 1..2 characters wide (longer runs leave an empty component, reported as not found)", ok,
           "" if ok else f"separator pattern {pat!r} matches between {wd[0] if wd else '?'} and {wd[1] if wd else '?'} characters: a run of separators is swallowed as one and a path with an empty component resolves", inst="separator-width", file=ST, qualname="Traversable")
    sp = [a for a in own_nodes(pp) if isinstance(a, ast.Assign) and norm(a.targets[0]) == "tokens_raw"]
    ok = len(sp) == 1 and norm(sp[0].value) == "self._TOKENIZE_PATH_REGEX.split(path.strip())"
    if not ok:
        # wherever the result is kept: the one split the lookup performs is a split of the stripped path
        from .util import call_parts as _cp8
        pth = pp.args.args[1].arg
        splits = [c for c in own_nodes(pp) if isinstance(c, ast.Call) and isinstance(c.func, ast.Attribute) and c.func.attr == "split"]
        seen_keys = set()
        for p_ in run_paths(ctx, pp, rule="N8", limit=4000, include_exc=True):
            for c_, e_, st_ in calls_on(p_):
                if c_ in splits:
                    from .util import evaluator as _ev8
                    seen_keys.add(_ev8(ctx, pp, e_).ev(c_).key())
        ok = len(splits) == 1 and seen_keys == {f"self._TOKENIZE_PATH_REGEX.split({pth}.strip())"}
        if not ok and sp == []:
            sp = [ast.Assign(targets=[ast.Name(id="tokens_raw", ctx=ast.Store())], value=splits[0])] if len(splits) == 1 else []
    ctx.ob("N8", pp, "the whole path is stripped of surrounding blanks before it is split", ok,
           "" if ok else f"tokens come from `{norm(sp[0].value) if sp else '?'}`: blanks after a trailing separator become a token that is looked up", inst="strip-path")
    from .sem import emptiness_by as _eb8
    ok = False
    for i in own_nodes(pp):
        if not (isinstance(i, ast.If) and not i.orelse):
            continue
        # the guard as a list of conjuncts: `if A and B: S` and `if A: if B: S` are the same decision
        conj, body_ = [], [i]
        while len(body_) == 1 and isinstance(body_[0], ast.If) and not body_[0].orelse:
            t_ = body_[0].test
            conj += list(t_.values) if isinstance(t_, ast.BoolOp) and isinstance(t_.op, ast.And) else [t_]
            body_ = body_[0].body
        if len(conj) != 2 or len(body_) != 1:
            continue
        lst = None
        for nm in {x.id for x in ast.walk(conj[0]) if isinstance(x, ast.Name)}:
            if _eb8(conj[0], lambda e, nm=nm: isinstance(e, ast.Name) and e.id == nm) is False:
                lst = nm
        if lst is None:
            continue
        second = conj[1]
        i = ast.If(test=i.test, body=body_, orelse=[])
        last_empty = _eb8(second, lambda e: isinstance(e, ast.Subscript) and isinstance(e.value, ast.Name) and e.value.id == lst and norm(e.slice) == "-1") is True \
            or (isinstance(second, ast.Compare) and len(second.ops) == 1 and isinstance(second.ops[0], ast.Eq) and norm(second.left) == f"{lst}[-1]" and norm(second.comparators[0]) == "''")
        b0 = norm(i.body[0])
        drops = b0 in (f"{lst} = {lst}[:-1]", f"del {lst}[-1]", f"{lst}.pop()", f"{lst}.pop(-1)")
        if last_empty and drops:
            ok = True
    ctx.ob("N8", pp, "an empty last token (trailing separator, or the empty path) is dropped", ok, "", inst="trailing-separator")
    # `if not child: raise ErrorNoChildWithName` decides "found" by the truth value of the element: an element class that defines
    # __len__ / __bool__ makes a found-but-empty directory count as not found
    truth_tests = []
    for i in own_nodes(pp):
        if isinstance(i, ast.If):
            t_ = i.test
            while isinstance(t_, ast.UnaryOp) and isinstance(t_.op, ast.Not):
                t_ = t_.operand
            if isinstance(t_, ast.Name) and any(isinstance(a_, ast.Assign) and norm(a_.targets[0]) == t_.id and isinstance(a_.value, ast.Call) and norm(a_.value.func) == "next"
                                                for a_ in own_nodes(pp)):
                truth_tests.append(i)
    offenders = []
    for m_ in ctx.prog.modules.values():
        for q_, c_ in m_.classes.items():
            names_ = {k_.name for k_ in ctx.prog.mro(c_)}
            if names_ & {"Element", "Traversable"}:
                for st_ in c_.body:
                    if isinstance(st_, ast.FunctionDef) and st_.name in ("__len__", "__bool__"):
                        offenders.append(f"{m_.path}:{q_}.{st_.name}")
    ok = not truth_tests or not offenders
    ctx.ob("N8", truth_tests[0] if truth_tests else pp, "a looked-up item counts as found whatever it contains (the lookup tests the item's truth value; no element class defines __len__ / __bool__)",
           ok, "" if ok else f"{sorted(offenders)}: an empty directory is falsy, so a path that names it is answered with `was not found`", inst="lookup-truthiness")
    wl = [w for w in own_nodes(pp) if isinstance(w, ast.While)]
    ok = len(wl) == 1 and len([c for c in ast.walk(wl[0]) if isinstance(c, ast.Call) and norm(c.func) == "next"]) == 2 \
        and any(norm(a) == "tokens.append(next_token)" for a in ast.walk(wl[0]) if isinstance(a, ast.Call))
    if not ok:
        # equivalent spelling: every second item of the split result, starting with the first
        tk = [a for a in own_nodes(pp) if isinstance(a, (ast.Assign, ast.AnnAssign)) and norm(a.targets[0] if isinstance(a, ast.Assign) else a.target) == "tokens"]
        ok = any(a.value is not None and canon_expr(pp, a.value) in ("self._TOKENIZE_PATH_REGEX.split(path.strip())[0::2]", "self._TOKENIZE_PATH_REGEX.split(path.strip())[::2]",
                                                                      "list(self._TOKENIZE_PATH_REGEX.split(path.strip())[0::2])", "list(self._TOKENIZE_PATH_REGEX.split(path.strip())[::2])") for a in tk)
    ctx.ob("N8", pp, "separators (every second split item) are skipped, names kept in order", ok, "", inst="skip-separators")
    rets = [r for r in own_nodes(pp) if isinstance(r, ast.Return)]
    ok = len(rets) == 1 and norm(rets[0].value) == "current_node"
    ctx.ob("N8", pp, "parse_path returns the node reached", ok, "", inst="returns-node")
    # ls_action
    la = ctx.fn(ACT, "ls_action", "N8")
    calls = [c for c in own_nodes(la) if isinstance(c, ast.Call) and norm(c.func) == "image.parse_path"]
    ok = len(calls) == 1
    det = "parse_path call not found"
    if ok:
        h = find_try_handler(calls[0], la, {"ErrorInvalidPath"})
        ok = h is not None
        det = "ErrorInvalidPath is not handled"
        if ok:
            # every (feasible) path through that handler prints the exception and renders nothing; it ends normally
            from ..core.symexec import run_paths as _rp, calls_on as _co
            n_h = 0
            det = ""
            for p in _rp(ctx, la, include_exc=True, rule="N8", limit=4000):
                if not any(s_.kind == "except" and s_.ast is h for s_ in p.steps):
                    continue
                if any((c == "truthy(0)" and t) or (c == "truthy(1)" and not t) for c, t, _ in p.conds):
                    continue  # a flag set in the handler contradicts the branch taken
                n_h += 1
                names_ = [norm(c.func) for c, e, st in _co(p)]
                idx_h = [i for i, s_ in enumerate(p.steps) if s_.kind == "except" and s_.ast is h][0]
                after = [norm(c.func) for c, e, st in _co(p) if p.steps.index(st) > idx_h]
                printed = any(x == "print" for x in after)
                rendered = any(x.endswith(("get_info", "to_string")) or x.startswith("item.") for x in after)
                if p.end == "raise" or not printed or rendered:
                    ok, det = False, f"after an unknown path: end={p.end}, calls {after}"
            ok = ok and n_h >= 1
    ctx.ob("N8", la, "ls prints the not-found message and stops (no traceback, no rendering of a stale item)", ok, "" if ok else det, inst="ls-handles")
    after = [c for c in own_nodes(la) if isinstance(c, ast.Call) and isinstance(c.func, ast.Attribute) and c.func.attr in ("get_info", "to_string")]
    ctx.ob("N8", la, "ls renders the resolved item's info", len(after) == 2, "", inst="ls-renders")


# ------------------------------------------------------------------------ N9
N9_SITES = [
    # (path, function, constructed class, kw/positional name of path, expected path text(s), parent text(s))
    ("smpl_extract/akai/partition.py", "PartitionAdapter._decode_element", "Partition", ("path", 4), ("element_path",), ("parent",)),
    ("smpl_extract/akai/volume.py", "VolumesAdapter._decode_element", "Volume", ("path", 3), ("volume_path",), ("parent",)),
    ("smpl_extract/akai/sample.py", "SampleAdapter._decode_element", "AkaiSample", ("_path", None), ("sample_path",), ("parent",)),
    ("smpl_extract/akai/program.py", "ProgramAdapter._decode_element", "Program", ("_path", None), ("program_path",), ("parent",)),
    ("smpl_extract/roland/s7xx/performance_entry.py", "PerformanceEntryAdapter._decode_element", "PerformanceEntry", ("_path", None), ("performance_path",), ("parent",)),
    ("smpl_extract/roland/s7xx/patch_entry.py", "PatchEntryAdapter._decode_element", "PatchEntry", ("_path", None), ("patch_path",), ("parent",)),
    ("smpl_extract/roland/s7xx/partial_entry.py", "PartialEntryAdapter._parse", "PartialEntry", ("_path", None), ("child_info.next_path",), ("parent",)),
    ("smpl_extract/roland/s7xx/sample_entry.py", "SampleEntryAdapter._decode_element", "SampleEntry", ("_path", None), ("sample_path",), ("parent",)),
    ("smpl_extract/roland/s7xx/sample_file.py", "SampleFileAdapter._decode_element", "SampleFile", ("_path", None), ("sample_path",), ("parent",)),
]
N9_DEFS = {
    "element_path": ("child_info.next_path",), "volume_path": ("parent_path + [name]",), "sample_path": ("child_info.next_path", "element_path + [name]"),
    "program_path": ("child_info.parent_path + [file_name]",), "performance_path": ("child_info.parent_path + [name]",), "patch_path": ("parent_path + [name]",),
    "parent_path": ("child_info.parent_path",), "parent": ("child_info.parent",), "element_path@roland": ("child_info.parent_path",),
}


def _pull_ctx_ob(ctx, RULE):
    """a value that is present in the context (or the enclosing one) is returned as it is - whatever it is, an empty name included -
    and the default only stands in for an absent key"""
    from .util import evaluator as _evn
    pf = ctx.fn("smpl_extract/util/constructs.py", "_pull_from_context", RULE)
    from .streams import _walk as _wk
    fcfg = ctx.cfg(pf, RULE)
    cpar2, kpar, dpar = [a_.arg for a_ in pf.args.args][:3]
    floops = [f_ for f_ in own_nodes(pf) if isinstance(f_, (ast.For, ast.While))]
    ok, det = len(floops) == 1, "lookup loop not found"
    if ok:
        lp_ = fcfg.loop_of(floops[0])
        cur = None
        seen_k = set()
        result_vars, miss_stores = set(), set()
        for kind, path, edge in fcfg.iteration_paths(lp_):
            pr = _wk(ctx, pf, fcfg, path)
            ck = [(c_.replace("~", ""), t_) for c_, t_, _n in pr.conds]
            hit = [c_ for c_, t_ in ck if re.fullmatch(rf"In\({kpar},\((\w+)\)\.keys\(\)\)|In\({kpar},(\w+)\)", c_) and t_]
            miss = [c_ for c_, t_ in ck if re.fullmatch(rf"In\({kpar},\((\w+)\)\.keys\(\)\)|In\({kpar},(\w+)\)", c_) and not t_]
            rets = [s_ for s_ in pr.steps if s_.kind == "return"]
            stores_ = [(s_.ast.targets[0].id, _evn(ctx, pf, s_.env).ev(s_.ast.value).key().replace("~", "")) for s_ in pr.steps
                       if s_.kind == "stmt" and isinstance(s_.ast, ast.Assign) and len(s_.ast.targets) == 1 and isinstance(s_.ast.targets[0], ast.Name)]
            if hit:
                cur = re.search(r"\((\w+)\)\.keys|,(\w+)\)$", hit[0])
                cur = cur.group(1) or cur.group(2)
                rv = _evn(ctx, pf, rets[0].env).ev(rets[0].ast.value).key().replace("~", "") if rets and rets[0].ast.value is not None else None
                if rv is None and not rets and kind == "exit":
                    # single-exit form: the value is put into the result variable and the search is left
                    got_ = [(n_, v_) for n_, v_ in stores_ if v_ == f"sub({cur},{kpar})"]
                    if len(got_) == 1:
                        rv = got_[0][1]
                        result_vars.add(got_[0][0])
                if rv != f"sub({cur},{kpar})":
                    ok, det = False, f"a present key yields `{rv}`"
                seen_k.add("found")
            if not hit:
                miss_stores |= {n_ for n_, v_ in stores_}
            if not hit and kind == "back" and miss:
                cur = re.search(r"\((\w+)\)\.keys|,(\w+)\)$", miss[0])
                cur = cur.group(1) or cur.group(2)
                nv = pr.env.get(cur)
                if nv is None or nv.key().replace("~", "") != f"sub({cur},'_')":
                    ok, det = False, f"the search continues in `{nv.key() if nv is not None else None}`, not in the enclosing context"
                seen_k.add("outer")
        it_ = floops[0].iter if isinstance(floops[0], ast.For) else None
        ok = ok and seen_k == {"found", "outer"} and it_ is not None and _evn(ctx, pf, {}).ev(it_).key() == "range(2)"
        if not ok and not det:
            det = f"lookup loop: cases {sorted(seen_k)}, levels `{norm(it_) if it_ is not None else None}`"
        # starts at the context itself; falls back to the default
        rp = [p_ for p_ in run_paths(ctx, pf, rule=RULE) if p_.end == "return" and not p_.conds]
        if result_vars:
            # single exit: the result variable holds the default before the search, only a hit changes it, and it is what is returned
            R_ = sorted(result_vars)[0]
            pre_ = [a_ for a_ in pf.body if isinstance(a_, ast.Assign) and len(a_.targets) == 1 and norm(a_.targets[0]) == R_]
            post_ = [r_ for r_ in own_nodes(pf) if isinstance(r_, ast.Return)]
            ok = ok and len(result_vars) == 1 and R_ not in miss_stores and len(pre_) == 1 and norm(pre_[0].value) == dpar and pre_[0].lineno < floops[0].lineno \
                and len(post_) == 1 and post_[0].value is not None and norm(post_[0].value) == R_ and post_[0] in pf.body
        else:
            ok = ok and all(p_.ret is not None and p_.ret.key() == dpar for p_ in run_paths(ctx, pf, rule=RULE) if p_.end == "return" and not any(
                c_.startswith("In(") and t_ for c_, t_, _n in p_.conds))
        starts = [a_ for a_ in pf.body if isinstance(a_, ast.Assign) and cur is not None and norm(a_.targets[0]) == cur]
        ok = ok and len(starts) == 1 and norm(starts[0].value) == cpar2
    ctx.ob(RULE, pf, "context values are looked up in the context and its enclosing context", ok, det, inst="_pull_from_context")


def rule_N12(ctx):
    """damage (C14): an empty or zero value read from a damaged record is still that record's value"""
    _pull_ctx_ob(ctx, "N12")


def rule_N9(ctx):
    """every element is created with path = its parent's path + its own name and with its parent, so export paths nest
    <level>/<level>/<name>"""
    from .util import evaluator as _evn
    for path, q, cls, (pk, ppos), want_path, want_parent in N9_SITES:
        fn = ctx.fn(path, q, "N9")
        cs = [c for c in own_nodes(fn) if isinstance(c, ast.Call) and isinstance(c.func, ast.Name) and c.func.id == cls]
        if len(cs) != 1:
            ctx.ob("N9", fn, f"{cls} is constructed once in {q}", False, f"{len(cs)} constructor calls", inst=f"{cls}:site")
            continue
        c = cs[0]
        # decided on the value-flow terms of the constructor call on every path that reaches it
        from .util import call_parts as _cp
        from ..core import terms as _T
        params = _T.SIGS.get(cls) or ()
        okp = okr = True
        detp = detr = ""
        n_site = 0
        for p_ in run_paths(ctx, fn, rule="N9", limit=4000):
            hits = [(c_, e_) for c_, e_, st_ in calls_on(p_) if c_ is c]
            if not hits:
                continue
            n_site += 1
            env_ = dict(hits[0][1])
            # a local obtained from pull_child_info(context, ...) plays the role of the `child_info` parameter
            bases = [v_.key() for v_ in env_.values() if hasattr(v_, "key") and v_.key().startswith("pull_child_info(context") and v_.key().endswith(")")]
            for k_, v_ in list(env_.items()):
                if hasattr(v_, "key") and any(b_ in v_.key() for b_ in bases):
                    t_ = v_.key()
                    for b_ in sorted(bases, key=len, reverse=True):
                        t_ = t_.replace(b_, "child_info")
                    env_[k_] = _T.parse_key(t_)
            fname, pos, kwt = _cp(_evn(ctx, fn, env_).ev(c).key())

            def arg(names):
                for nm_ in names:
                    if nm_ in kwt:
                        return kwt[nm_]
                    if nm_ in params and params.index(nm_) < len(pos):
                        return pos[params.index(nm_)]
                return None

            pv = arg((pk,))
            rv = arg(("_parent", "parent"))
            good = False
            if pv is not None:
                pt_ = _T.parse_key(pv)
                rest = pt_ - _T.Term.atom("child_info.parent_path")
                good = pv == "child_info.next_path" or (len(rest.p) == 1 and list(rest.p.values())[0] == 1 and len(list(rest.p)[0]) == 1
                                                         and re.fullmatch(r"\[[^\[\],]+.*\]", list(rest.p)[0][0]) is not None
                                                         and len(_T._split_top(list(rest.p)[0][0][1:-1], ",")) == 1)
            if not good:
                okp, detp = False, f"path argument is `{pv}`"
            if rv != "child_info.parent":
                okr, detr = False, f"parent argument is `{rv}`"
        if n_site == 0:
            okp = okr = False
            detp = detr = "no path reaches the constructor"
        ctx.ob("N9", c, f"{cls}: path = parent's path + own name", okp, detp, inst=f"{cls}:path")
        ctx.ob("N9", c, f"{cls}: parent = the directory that realises it", okr, detr, inst=f"{cls}:parent")
    pc = ctx.fn("smpl_extract/util/constructs.py", "pull_child_info", "N9")
    from .util import call_parts as _cpp
    from ..core import terms as _TT
    cpar, npar = pc.args.args[0].arg, pc.args.args[1].arg
    PARENT = f"_pull_from_context({cpar},'_elem_parent',None)"
    NAMEC = f"_pull_from_context({cpar},'_elem_name',None)"
    ROUT = f"_pull_from_context({cpar},'_elem_routines',[])"
    ok, det, n_ret = True, "", 0
    for p_ in run_paths(ctx, pc, rule="N9", limit=4000):
        if p_.end != "return" or p_.ret is None:
            continue
        fname, pos, kw = _cpp(p_.ret.key())
        sig = _TT.SIGS.get("ChildInfo") or ("parent", "parent_path", "next_path", "routines", "name")
        for i_, v_ in enumerate(pos):
            if i_ < len(sig):
                kw.setdefault(sig[i_], v_)
        truth = {}
        for c_, t_, _n in p_.conds:
            m_ = re.fullmatch(r"(Is|IsNot)\((.+),None\)", c_)
            if m_:
                is_none = (m_.group(1) == "Is") == t_
                if m_.group(2) in truth and truth[m_.group(2)] != is_none:
                    truth["<contradiction>"] = True
                truth[m_.group(2)] = is_none
        if truth.get("<contradiction>"):
            continue  # e.g. `name is None` false and `name is not None` false
        n_ret += 1
        want_name = npar if truth.get(npar) is False else (NAMEC if truth.get(npar) is True else None)
        strip = lambda x: x.replace("[] + ", "").replace(" + []", "") if x is not None else None  # noqa: E731
        want_pp = PARENT + ".path" if truth.get(PARENT) is False else ("[]" if truth.get(PARENT) is True else None)
        good = fname == "ChildInfo" and kw.get("parent") == PARENT and kw.get("routines") == ROUT and want_name is not None and kw.get("name") == want_name \
            and want_pp is not None and strip(kw.get("parent_path")) == want_pp
        if good:
            nn = truth.get(want_name)
            if nn is False:
                want_np = _TT.parse_key(f"[{want_name}]") + (_TT.parse_key(want_pp) if want_pp != "[]" else _TT.Term())
                got_np = _TT.parse_key(strip(kw.get("next_path", "?")))
                good = got_np == want_np
            elif nn is True:
                good = strip(kw.get("next_path")) == want_pp
            else:
                good = False
        if not good:
            ok, det = False, f"under [{p_.cond_key()[:100]}] returns {p_.ret.key()[:200]}"
    ok = ok and n_ret >= 4
    ctx.ob("N9", pc, "pull_child_info: parent from the context, parent_path = parent.path, next_path = parent_path + [name]", ok, det, inst="pull_child_info")
    _pull_ctx_ob(ctx, "N9")
    from .streams import _walk as _wk
    cd = ctx.fn("smpl_extract/cdda/image.py", "CompactDiskAudioImageAdapter.from_bin_cue", "N9")
    cs = [c for c in own_nodes(cd) if isinstance(c, ast.Call) and norm(c.func) == "AudioTrack"]
    ok = len(cs) == 2 and all({k.arg: norm(k.value) for k in c.keywords}.get("_parent") == "image" and {k.arg: norm(k.value) for k in c.keywords}.get("_path") == "track_path" for c in cs)
    tp = [a for a in own_nodes(cd) if isinstance(a, ast.Assign) and norm(a.targets[0]) == "track_path"]
    ok = ok and len(tp) == 2 and all(norm(a.value) == "element_path + [title]" for a in tp)
    ctx.ob("N9", cd, "CDDA tracks: parent = the image, path = image path + [title]", ok, "", inst="AudioTrack")
    ve = ctx.fn("smpl_extract/roland/s7xx/volume_entry.py", "VolumeEntry.path", "N9")
    vr = [p_ for p_ in run_paths(ctx, ve, rule="N9") if p_.end == "return"]
    ok = bool(vr) and all(p_.ret is not None and p_.ret.key() == "[self.name]" for p_ in vr)
    ctx.ob("N9", ve, "Roland volumes sit directly under the image: path = [name]", ok, "", inst="VolumeEntry.path")
    pe = ctx.fn("smpl_extract/roland/s7xx/partial_entry.py", "PartialEntry.sample_entries", "N9")
    pcfg = ctx.cfg(pe, "N9")
    ploops = [f_ for f_ in own_nodes(pe) if isinstance(f_, ast.For) and any(isinstance(n_, ast.Attribute) and n_.attr in ("_parent", "_path") and isinstance(n_.ctx, ast.Store)
                                                                        for n_ in ast.walk(f_))]
    ok, det = len(ploops) == 1, "re-parenting loop not found"
    if ok:
        n_it = 0
        for kind, path, edge in pcfg.iteration_paths(pcfg.loop_of(ploops[0])):
            if kind != "back":
                continue
            # values before the loop (e.g. `path = self.path`) are part of the environment
            pre = {}
            holder = next((b_ for n_ in ast.walk(pe) for b_ in (getattr(n_, "body", None), getattr(n_, "orelse", None))
                           if isinstance(b_, list) and any(x_ is ploops[0] for x_ in b_)), pe.body)
            for st_ in holder:
                if st_ is ploops[0]:
                    break
                if isinstance(st_, ast.Assign) and len(st_.targets) == 1 and isinstance(st_.targets[0], ast.Name):
                    pre[st_.targets[0].id] = _evn(ctx, pe, pre).ev(st_.value)
            pr = _wk(ctx, pe, pcfg, path, env0=pre, keep=tuple(pre))
            n_it += 1
            apps = [(c_, e_) for c_, e_, st_ in calls_on(pr) if isinstance(c_.func, ast.Attribute) and c_.func.attr == "append"]
            if len(apps) != 1:
                ok, det = False, f"{len(apps)} entries collected per reference"
                continue
            nt = lambda k_: k_.replace("~", "")  # noqa: E731  (havoc marks are irrelevant inside one iteration)
            X = nt(_evn(ctx, pe, apps[0][1]).ev(apps[0][0].args[0]).key())
            par = [nt(v_.key()) for k_, v_ in pr.env.items() if k_.endswith("._parent") and nt(_evn(ctx, pe, pr.env).ev(ast.parse(k_[:-len("._parent")], mode="eval").body).key()) == X]
            pth = [_TT.parse_key(nt(v_.key())) for k_, v_ in pr.env.items() if k_.endswith("._path") and nt(_evn(ctx, pe, pr.env).ev(ast.parse(k_[:-len("._path")], mode="eval").body).key()) == X]
            want_path = _TT.parse_key("self.path") + _TT.Term.atom(f"[sub({X}.path,-1)]")
            if par != ["self"] or len(pth) != 1 or pth[0] != want_path:
                ok, det = False, f"entry `{X}` gets parent {par} and path {[v_.key() for v_ in pth]}"
        ok = ok and n_it >= 1
    ctx.ob("N9", pe, "samples shown under a partial are re-parented to it", ok, det, inst="partial-reparent")
    for prop in ("path", "parent"):
        f = ctx.fn("smpl_extract/base.py", f"Element.{prop}", "N9")
        fr = [p_ for p_ in run_paths(ctx, f, rule="N9") if p_.end == "return"]
        # the stored value when there is one; the empty default otherwise (getattr(self, name, default) spelling included)
        ok = bool(fr)
        n_stored = 0
        for p_ in fr:
            has = None
            for c_, t_, _n in p_.conds:
                if c_ == f"truthy(hasattr(self,'_{prop}'))":
                    has = t_
                elif c_ == f"not(truthy(hasattr(self,'_{prop}')))":
                    has = not t_
            rk = p_.ret.key() if p_.ret is not None else None
            if rk == f"self._{prop}" and has is not False:
                n_stored += 1
            elif rk in (f"getattr(self,'_{prop}',[])", f"getattr(self,'_{prop}',None)"):
                n_stored += 1
            elif has is False and rk in ("[]", "None"):
                pass
            else:
                ok = False
        ok = ok and n_stored >= 1
        ctx.ob("N9", f, f"Element.{prop} returns the stored _{prop}", ok, "", inst=f"Element.{prop}")
    ep = ctx.fn("smpl_extract/base.py", "Element.export_path", "N9")
    cc = _chain_climb(ctx, ep, "N9")
    # an iteration runs exactly for a cursor that exists and has a path; the walk ends at the first node that is None or has an empty path
    ok = not cc["problems"] and cc.get("continue_when") == {(False, False)} and cc.get("stop_when") == {(False, True), (True, False), (True, True)}
    ctx.ob("N9", ep, "export_path stops at the root (the image has an empty path) and includes every level below it", ok,
           "" if ok else f"{cc['problems'] or {k: sorted(cc.get(k, ())) for k in ('continue_when', 'stop_when')}}"[:300], inst="export_path-stop")
    for path, cls in (("smpl_extract/structural.py", "Image"), ("smpl_extract/cdda/image.py", "CompactDiskAudioImage")):
        v = ctx.prog.class_assigned(path, cls, "_path", "N9")
        ctx.ob("N9", v, f"{cls} is the root: its path is empty", norm(v) == "[]", norm(v), inst=f"{cls}._path", file=path, qualname=cls)


# ------------------------------------------------------------------------ X1
def rule_X1(ctx):
    """info rendering keeps every row and every value (below the line cap and the column limit)"""
    ip = "smpl_extract/info.py"
    pt = ctx.fn(ip, "InfoTable.print_table", "X1")
    t = full(pt)
    ok = "if len(self.rows) <= 0:" in t and "result = '(*empty*)'" in t
    ctx.ob("X1", pt, "an empty directory lists as (*empty*) instead of failing", ok, "", inst="empty")
    from .sem import emitted_lines
    # the statements after the empty-table guard assemble header, divider and one line per row
    tail = [st for st in pt.body if not (isinstance(st, ast.If) and any(isinstance(n, ast.Return) for n in ast.walk(st)))]
    tail = [st for st in tail if not isinstance(st, (ast.FunctionDef,))]
    seq = emitted_lines(pt, tail)
    ok = seq is not None and len(seq) == 3 and seq[0] == ("one", "make_line(self.header)") and seq[1][0] == "one" and seq[1][1].startswith("'-' * ") \
        and seq[2] == ("each", "self.rows", "make_line(_c0)")
    ctx.ob("X1", pt, "every row of the listing is written, in order", ok, "" if ok else f"lines assembled: {seq}", inst="all-rows")
    ok = "row[i].ljust(column_widths[i])" in t and "elif width > column_widths[i]" in t
    ctx.ob("X1", pt, "columns widen to the longest value (names are padded, never cut)", ok, "", inst="no-cut")
    tr = ctx.fn(ip, "InfoTree.print_tree", "X1")
    bi = ctx.fn(ip, "InfoTree.print_tree.build_inner", "X1")
    # the row record: whatever class the rows appended to the row list are built with (local dataclass or module-level one)
    tr0 = ctx.fn(ip, "InfoTree.print_tree", "X1")
    _classes = {c_.name for c_ in ast.walk(ctx.prog.module(ip).tree) if isinstance(c_, ast.ClassDef)}
    rcls = {c.args[0].func.id for c in ast.walk(tr0) if isinstance(c, ast.Call) and isinstance(c.func, ast.Attribute) and c.func.attr == "append" and len(c.args) == 1
            and isinstance(c.args[0], ast.Call) and isinstance(c.args[0].func, ast.Name) and c.args[0].func.id in _classes}
    ROWCLS = sorted(rcls)[0] if len(rcls) == 1 else "RowEntry"
    from .streams import _walk as _wx
    from .util import evaluator as _evx
    bcfg = ctx.cfg(bi, "X1")
    item = bi.args.args[0].arg
    loops = [f for f in own_nodes(bi) if isinstance(f, ast.For) and isinstance(f.target, ast.Tuple) and len(f.target.elts) == 2]
    ok, det = len(loops) == 1, "key/value loop not found"
    kinds_ok, kdet = False, "source of the key/value pairs not understood"
    if ok:
        lp_ = bcfg.loop_of(loops[0])
        kv, vv = loops[0].target.elts[0].id, loops[0].target.elts[1].id
        K, V = kv + "~", vv + "~"
        label = [f"opaque(f'{{{kv}}}:')", f"{K} + ':'"]
        seen_cases = set()
        for kind, path, edge in bcfg.iteration_paths(lp_):
            if kind == "exit" and len(path) == 1:
                continue
            pr = _wx(ctx, bi, bcfg, path)
            if kind != "back":
                ok, det = False, "an entry can end the rendering of its siblings"
                continue
            is_str = None
            empty = None
            for s_ in pr.steps:
                if s_.kind == "test" and s_.label in ("true", "false") and s_.ast is not None and hasattr(s_.ast, "test"):
                    tst, neg = s_.ast.test, False
                    while isinstance(tst, ast.UnaryOp) and isinstance(tst.op, ast.Not):
                        tst, neg = tst.operand, not neg
                    tk = (s_.label == "true") != neg
                    if isinstance(tst, ast.Call) and norm(tst.func) == "isinstance" and norm(tst.args[0]) == vv and norm(tst.args[1]) == "str":
                        if is_str is not None and is_str != tk:
                            is_str = "contradiction"
                        elif is_str is None:
                            is_str = tk
                    from .sem import emptiness_by as _ebx
                    e_ = _ebx(s_.ast.test, lambda x: isinstance(x, ast.Name) and x.id == vv)
                    if e_ is not None:
                        empty = (s_.label == "true") == e_
            if is_str == "contradiction":
                continue
            rows_ = [(c, e) for c, e, st in calls_on(pr) if isinstance(c.func, ast.Name) and c.func.id == ROWCLS]
            recs = [(c, e) for c, e, st in calls_on(pr) if isinstance(c.func, ast.Name) and c.func.id == bi.name]
            if len(rows_) != 1:
                ok, det = False, f"{len(rows_)} rows for one key"
                continue
            rk = _evx(ctx, bi, rows_[0][1]).ev(rows_[0][0]).key()
            m_ = re.fullmatch(re.escape(ROWCLS) + r"\(tuple\((.*)\),(.*)\)", rk)
            if m_ is None or m_.group(2).replace("~", "") != "depth":
                ok, det = False, f"row built as `{rk[:120]}`"
                continue
            cells = m_.group(1)
            lab = next((l for l in label if cells.startswith(l)), None)
            if lab is None:
                ok, det = False, f"row does not start with the key label: `{cells[:80]}`"
                continue
            rest = cells[len(lab):].lstrip(",")
            if is_str is True:
                seen_cases.add("str")
                good = rest in (f"str({V})", V) and not recs
            elif is_str is False and empty is True:
                seen_cases.add("empty")
                good = rest == "'None'" and len(recs) == 1
            elif is_str is False and empty is False:
                seen_cases.add("nested")
                good = rest == "" and len(recs) == 1
            else:
                good = False
            if good and recs:
                rk2 = _evx(ctx, bi, recs[0][1]).ev(recs[0][0]).key().replace("~", "")
                good = rk2 in (f"{bi.name}({vv},1 + depth,{kv},row_entries)", f"{bi.name}({vv},depth=1 + depth,prev_key={kv},row_entries=row_entries)")
                if not good:
                    det = f"nested value expanded as `{rk2[:120]}`"
            if not good:
                ok = False
                det = det or f"value case str={is_str} empty={empty}: row cells `{cells[:100]}`, {len(recs)} recursive call(s)"
        ok = ok and seen_cases == {"str", "empty", "nested"}
        if ok is False and not det:
            det = f"cases seen {sorted(seen_cases)}"
        # where the pairs come from: sequences by index (prev_key[i]), mappings by items()
        from .sem import decision_table as _dt, path_tests as _ptx
        src_terms = {}
        for p in run_paths(ctx, bi, rule="X1", limit=4000):
            for s_ in p.steps:
                if s_.kind == "for" and s_.ast is loops[0]:
                    tests = _ptx(p)
                    seqv = mapv = None
                    for tst, taken in tests:
                        parts = tst.values if isinstance(tst, ast.BoolOp) and isinstance(tst.op, ast.Or) else [tst]
                        for part in parts:
                            if isinstance(part, ast.Call) and norm(part.func) == "isinstance" and norm(part.args[0]) == item:
                                if norm(part.args[1]) == "Sequence" and len(parts) == 1:
                                    seqv = taken
                                if norm(part.args[1]) == "Mapping" and len(parts) == 1:
                                    mapv = taken
                    it_key = _evx(ctx, bi, s_.env).ev(loops[0].iter).key()
                    if isinstance(loops[0].iter, ast.Name):
                        # the iterable kept in a local: the expression last assigned to it on this path (its text, not an abbreviated term)
                        for s2_ in p.steps:
                            if s2_ is s_:
                                break
                            if s2_.kind == "stmt" and isinstance(s2_.ast, ast.Assign) and len(s2_.ast.targets) == 1 and isinstance(s2_.ast.targets[0], ast.Name) \
                                    and s2_.ast.targets[0].id == loops[0].iter.id:
                                it_key = norm(s2_.ast.value)
                    src_terms[(seqv, mapv)] = it_key
        seq_src = [v for (sq, mp), v in src_terms.items() if sq is True]
        map_src = [v for (sq, mp), v in src_terms.items() if sq is False and mp is not False]
        none_src = [v for (sq, mp), v in src_terms.items() if sq is False and mp is False]  # neither kind: nothing to render
        kinds_ok = all(v in ("()", "[]", "tuple()", "list()", "{}") for v in none_src) and bool(seq_src) and bool(map_src) and all("enumerate(" + item + ")" in v and "prev_key" in v for v in seq_src) and all(v == f"{item}.items()" for v in map_src)
        kdet = "" if kinds_ok else f"pairs come from {src_terms}"
    ctx.ob("X1", bi, "every key of an item produces one row; nested values are expanded below it", ok, "" if ok else det, inst="tree-rows")
    ctx.ob("X1", bi, "sequences are rendered element by element, mappings key by key", kinds_ok, kdet, inst="tree-kinds")
    # the render loop, decided per iteration path: what is written for a row, when the output is cut, when a line is shortened
    from .util import atomic_facts as _afx
    tcfg = ctx.cfg(tr, "X1")
    rloops = [f for f in own_nodes(tr) if isinstance(f, ast.For) and any(isinstance(c, ast.Call) and isinstance(c.func, ast.Attribute) and c.func.attr == "write" for c in ast.walk(f))]
    ok_cap = ok_width = len(rloops) == 1
    det_cap = det_width = "" if ok_cap else f"{len(rloops)} render loops"
    if ok_cap:
        rl = rloops[0]
        # for i, row in enumerate(rows)
        it_ok = isinstance(rl.iter, ast.Call) and norm(rl.iter.func) == "enumerate" and len(rl.iter.args) == 1 and isinstance(rl.target, ast.Tuple) and len(rl.target.elts) == 2
        iv, rv = (rl.target.elts[0].id, rl.target.elts[1].id) if it_ok and all(isinstance(e_, ast.Name) for e_ in rl.target.elts) else ("?", "?")
        ok_cap = ok_cap and it_ok
        n_cap = n_div = n_row = n_short = 0
        for kind, path, edge in tcfg.iteration_paths(tcfg.loop_of(rl)):
            if kind == "exit" and len(path) == 1:
                continue
            pr = _wx(ctx, tr, tcfg, path)
            facts = dict((c_.replace("~", ""), t_) for c_, t_ in _afx(pr))
            writes = [_evx(ctx, tr, e_).ev(c_.args[0]).key().replace("~", "") for c_, e_, st_ in calls_on(pr)
                      if isinstance(c_.func, ast.Attribute) and c_.func.attr == "write" and len(c_.args) == 1]
            from .util import path_conds_struct as _pcs
            from ..core.terms import same_cmp as _same, NEG as _NEG, Term as _Tm
            cs_ = [(d_, op_ if tk_ else _NEG[op_]) for d_, op_, tk_, nd_ in _pcs(ctx, tr, pr)]
            I_, M_, W_ = _Tm.atom(iv + "~"), _Tm.atom("self.max_rows"), _Tm.atom("self.total_width")
            capped = True if any(_same(c_, (I_ - M_, ">")) for c_ in cs_) else (False if any(_same(c_, (I_ - M_, "<=")) for c_ in cs_) else None)
            if capped is True:
                n_cap += 1
                if kind != "exit" or not any("exceeded" in w_ and "max_rows" in w_ for w_ in writes):
                    ok_cap, det_cap = False, f"past the row limit the loop writes {writes} and {'goes on' if kind != 'exit' else 'stops'}"
                continue
            if capped is None:
                ok_cap, det_cap = False, "a row is rendered on a path that does not test the row limit"
                continue
            if kind != "back":
                ok_cap, det_cap = False, "rendering stops before the row limit"
                continue
            if facts.get(f"truthy({rv}.is_divider)") is True:
                n_div += 1
                if writes not in ([f"'-'*self.total_width + '\\n'"], [f"'\\n' + '-'*self.total_width"]):
                    ok_width, det_width = False, f"a divider is written as {writes}"
                continue
            n_row += 1
            if len(writes) != 1:
                ok_width, det_width = False, f"{len(writes)} writes for one row"
                continue
            w_ = writes[0]
            long_, joined = None, None
            for d_, op_ in cs_:
                la_ = [a_ for a_ in d_.atoms() if a_.startswith("len(")]
                if len(la_) == 1 and d_.atoms() == {la_[0], "self.total_width"}:
                    L_ = _Tm.atom(la_[0])
                    if _same((d_, op_), (L_ - W_, ">")):
                        long_, joined = True, la_[0][4:-1].replace("~", "")
                    elif _same((d_, op_), (L_ - W_, "<=")):
                        long_, joined = False, la_[0][4:-1].replace("~", "")
            if long_ is None or joined is None or not (joined.startswith(("(self.delimiter).join(", "self.delimiter.join(")) and f"{rv}.content" in joined and f"{rv}.depth" in joined):
                ok_width, det_width = False, f"a row is written as `{w_[:100]}` without comparing the joined cells with the total width"
            elif long_ is True:
                n_short += 1
                if w_ not in (f"'...' + '\\n' + slice({joined},:-3 + self.total_width:)", f"'...' + '\\n' + slice({joined},0:-3 + self.total_width:)",
                              f"'\\n' + '...' + slice({joined},:-3 + self.total_width:)", f"'\\n' + '...' + slice({joined},0:-3 + self.total_width:)"):
                    ok_width, det_width = False, f"an over-long line is written as `{w_[:140]}`"
            else:
                if w_ not in (f"'\\n' + {joined}", f"{joined} + '\\n'"):
                    ok_width, det_width = False, f"a line that fits is written as `{w_[:140]}`"
        ok_cap = ok_cap and n_cap >= 1 and n_row >= 1
        ok_width = ok_width and n_row >= 2 and n_short >= 1 and n_div >= 1
    ctx.ob("X1", tr, "output is cut only after max_rows rows, with a notice", ok_cap, det_cap, inst="row-cap")
    ctx.ob("X1", tr, "a line is shortened only when it exceeds the total width", ok_width, det_width, inst="width-cap")
    init = ctx.fn(ip, "InfoTree.__init__", "X1")
    d = {a.arg: norm(v) for a, v in zip(init.args.args[-len(init.args.defaults):], init.args.defaults)}
    ok = d.get("total_width") == "80" and d.get("max_rows") == "300"
    ctx.ob("X1", init, "defaults: 80 columns, 300 rows", ok, f"{d}", inst="defaults")
    # before rendering: header row, divider, then every item through build_inner - in that order, on every path
    ok, n_p = True, 0
    for p_ in run_paths(ctx, tr, rule="X1", limit=4000):
        if p_.end != "return":
            continue
        n_p += 1
        evs = []
        for c_, e_, st_ in calls_on(p_):
            if isinstance(c_.func, ast.Attribute) and c_.func.attr == "append" and len(c_.args) == 1 and isinstance(c_.args[0], ast.Call):
                evs.append(("row", _evx(ctx, tr, e_).ev(c_.args[0]).key()))
            elif isinstance(c_.func, ast.Name) and c_.func.id == bi.name:
                evs.append(("items", _evx(ctx, tr, e_).ev(c_).key()))
        rowc = ROWCLS
        ok = ok and len(evs) >= 3 and evs[0] == ("row", f"{rowc}(tuple(self.header))") and evs[1] in (("row", f"{rowc}(is_divider=1)"), ("row", f"{rowc}(tuple(''),0,1)")) \
            and evs[2] == ("items", f"{bi.name}(self.items)") and len([e_ for e_ in evs if e_[0] == "items"]) == 1
    ctx.ob("X1", tr, "the tree starts with the header and renders all items", ok and n_p >= 1, "", inst="tree-start")
    gi = ctx.fn("smpl_extract/elements.py", "LeafElement.get_info", "X1")
    from .util import return_keys as _rkx
    ok = _rkx(ctx, gi, "X1") == {"InfoTree(tuple(self.safe_name,2*' ',self.type_name),self.itemize())"}
    ctx.ob("X1", gi, "a leaf's info = header (safe name, type) + its itemised fields", ok, "", inst="leaf-info")
    ig = ctx.fn("smpl_extract/util/dataclass.py", "itemize_general", "X1")
    pv = ctx.fn("smpl_extract/util/dataclass.py", "process_value", "X1")
    from .sem import decision_table, path_return
    from ..core.symexec import run_paths as _rpx

    def isinst(node, var, cls):
        """True when node is isinstance(var, cls) (or a tuple containing only cls)"""
        return isinstance(node, ast.Call) and norm(node.func) == "isinstance" and len(node.args) == 2 and norm(node.args[0]) == var and norm(node.args[1]) == cls

    def isinst_any(node, var, classes):
        """isinstance(var, (A, B)) as the disjunction of its members: handled by splitting in the recogniser set below"""
        return isinstance(node, ast.Call) and norm(node.func) == "isinstance" and len(node.args) == 2 and norm(node.args[0]) == var \
            and isinstance(node.args[1], ast.Tuple) and sorted(norm(e) for e in node.args[1].elts) == sorted(classes)

    # ---- process_value: decision table over (has itemize, dataclass, str, stream, iterable)
    v = pv.args.args[0].arg
    atoms = {
        "H": lambda n: True if (isinstance(n, ast.Call) and norm(n.func) == "hasattr" and len(n.args) == 2 and norm(n.args[0]) == v and norm(n.args[1]) == "'itemize'") else None,
        "D": lambda n: True if (isinstance(n, ast.Call) and norm(n.func) == "is_dataclass" and len(n.args) == 1 and norm(n.args[0]) == v) else None,
        "S": lambda n: True if isinst(n, v, "str") else None,
        "I": lambda n: True if isinst(n, v, "IOBase") else None,
        "T": lambda n: True if isinst(n, v, "Iterable") else None,
    }
    import copy as _copy

    class _SplitIsinstance(ast.NodeTransformer):
        # isinstance(x, (A, B)) -> isinstance(x, A) or isinstance(x, B)
        def visit_Call(self, n):
            self.generic_visit(n)
            if isinstance(n.func, ast.Name) and n.func.id == "isinstance" and len(n.args) == 2 and isinstance(n.args[1], ast.Tuple) and n.args[1].elts:
                return ast.BoolOp(op=ast.Or(), values=[ast.Call(func=n.func, args=[_clone(n.args[0]), e], keywords=[]) for e in n.args[1].elts])
            return n

    def table_of(fn, atoms_):
        import sa.rules.sem as _sem
        prs_ = [p for p in _rpx(ctx, fn, rule="X1", limit=4000) if p.end == "return"]
        orig = _sem.path_tests

        def pt(p):
            return [(_SplitIsinstance().visit(_clone(t)), tk) for t, tk in orig(p)]

        _sem.path_tests = pt
        try:
            return decision_table(prs_, atoms_)
        finally:
            _sem.path_tests = orig

    names_, table, unknown = table_of(pv, atoms)
    ok, det = not unknown, f"tests not understood: {unknown[:3]}"
    for vals, feas in table.items():
        a_ = dict(zip(names_, vals))
        rets = sorted({path_return(p) for p in feas})
        if a_["H"]:
            want = f"{v}.itemize()"
        elif a_["D"] or (not a_["S"] and not a_["I"] and a_["T"]):
            want = f"itemize_general({v})"
        else:
            want = f"str({v})"
        if rets != [want]:
            ok, det = False, f"for {a_} the value is rendered as {rets}, expected {want}"
    ctx.ob("X1", pv, "a value is itemised by its own itemize(), as a dataclass / collection through itemize_general, else rendered with str()", ok, "" if ok else det, inst="process_value")
    # ---- itemize_general: decision table over (construct Container, dict, dataclass)
    sv = ig.args.args[0].arg
    atoms2 = {
        "C": lambda n: True if isinst(n, sv, "Container") else None,
        "M": lambda n: True if isinst(n, sv, "dict") else None,
        "D": lambda n: True if (isinstance(n, ast.Call) and norm(n.func) == "is_dataclass" and len(n.args) == 1 and norm(n.args[0]) == sv) else None,
    }
    names2, table2, unknown2 = table_of(ig, atoms2)
    ok2, det2 = not unknown2, f"tests not understood: {unknown2[:3]}"
    for vals, feas in table2.items():
        a_ = dict(zip(names2, vals))
        rets = sorted({path_return(p) for p in feas})
        if a_["C"]:
            want = [f"{{_c0: process_value(_c1) for _c0, _c1 in sanitize_container({sv}).items()}}"]
        elif a_["M"]:
            want = [f"{{_c0: process_value(_c1) for _c0, _c1 in {sv}.items()}}"]
        elif a_["D"]:
            want = [f"{{_c0.name: process_value(getattr({sv}, _c0.name)) for _c0 in fields({sv})}}"]
        else:
            want = [f"tuple((process_value(_c0) for _c0 in {sv}))", f"tuple([process_value(_c0) for _c0 in {sv}])"]
        if len(rets) != 1 or rets[0] not in want:
            ok2, det2 = False, f"for {a_} the result is {rets}"
    ctx.ob("X1", ig, "itemisation keeps every field / element / key and renders scalars with str()", ok2, "" if ok2 else det2, inst="itemize_general")
