"""D1 CHAIN-COMMIT, D2 FLAG-CONSTANTS, D3 INSTALL-AT-END, D4 SLICE-BY-CLUSTER-TOP  (C01, C02, C07)."""
import ast

from ..core.loader import AnalysisError, dotted, norm, own_nodes, where
from ..core.terms import Evaluator, Term
from .streams import _walk, _inside

AKAI = ("smpl_extract/akai/sat.py", "SegmentAllocationTableAdapter._decode")
ROLAND = ("smpl_extract/roland/s7xx/fat.py", "FatAreaAdapter._decode")
AKAI_DT = "smpl_extract/akai/data_types.py"
ROLAND_DT = "smpl_extract/roland/s7xx/data_types.py"

FLAG_NAMES = {
    "AKAI_SAT_FREE_FLAG": "FREE", "AKAI_SAT_EOF_FLAG": "END", "AKAI_SAT_RESERVED_FLAG_STD": "DIRFLAG",
    "AKAI_SAT_RESERVED_FLAG_V2": "DIRFLAG",
    "FAT_FREE_FLAG": "FREE", "FAT_RESERVED_FLAG": "RESERVED", "FAT_ERROR_FLAG": "ERROR", "FAT_IS_END_F": "END", "FAT_END": "END",
}


class WalkInfo:
    pass


def _find_walk(ctx, path, qualname, rule):
    fn = ctx.fn(path, qualname, rule)
    installs = [c for c in own_nodes(fn) if isinstance(c, ast.Call) and isinstance(c.func, ast.Name) and c.func.id == "add_to_sector_links"]
    if not installs:
        raise AnalysisError(rule, where(fn), "decoder does not call add_to_sector_links")
    links = {c.args[0].id for c in installs if c.args and isinstance(c.args[0], ast.Name)}
    if len(links) != 1:
        raise AnalysisError(rule, where(fn), f"ambiguous link-list variable: {links}")
    whiles = [n for n in own_nodes(fn) if isinstance(n, ast.While)]
    if len(whiles) != 1:
        raise AnalysisError(rule, where(fn), f"expected one walk loop, found {len(whiles)}")
    outer = None
    n = whiles[0]
    while n is not None and n is not fn:
        if isinstance(n, ast.For):
            outer = n
        n = getattr(n, "_parent", None)
    w = WalkInfo()
    w.fn, w.loop, w.outer, w.links, w.installs = fn, whiles[0], outer, links.pop(), installs
    # cursor: the value appended to links
    apps = [c for c in ast.walk(w.loop) if isinstance(c, ast.Call) and isinstance(c.func, ast.Attribute) and c.func.attr == "append"
            and isinstance(c.func.value, ast.Name) and c.func.value.id == w.links]
    cur = {c.args[0].id for c in apps if c.args and isinstance(c.args[0], ast.Name)}
    if len(cur) != 1:
        raise AnalysisError(rule, where(fn), f"ambiguous cursor (values appended to the link list): {cur}")
    w.cursor = cur.pop()
    w.appends = apps
    # value: local assigned from table[cursor]
    w.value = None
    for st in ast.walk(w.loop):
        if isinstance(st, ast.Assign) and len(st.targets) == 1 and isinstance(st.targets[0], ast.Name) and isinstance(st.value, ast.Subscript) \
                and isinstance(st.value.slice, ast.Name) and st.value.slice.id == w.cursor:
            w.value = st.targets[0].id
            w.table = dotted(st.value.value)
    if w.value is None:
        raise AnalysisError(rule, where(fn), "table word read `value = table[cursor]` not found")
    # per-walk vs table-wide visited structures
    w.per_walk, w.table_wide = set(), set()
    for st in own_nodes(fn):
        if isinstance(st, ast.Assign) and len(st.targets) == 1 and isinstance(st.targets[0], ast.Name):
            v = st.value
            is_set = (isinstance(v, ast.Call) and isinstance(v.func, ast.Name) and v.func.id == "set") or isinstance(v, ast.Set)
            is_flags = isinstance(v, ast.BinOp) and isinstance(v.op, ast.Mult) and isinstance(v.left, ast.List) and len(v.left.elts) == 1 \
                and isinstance(v.left.elts[0], ast.Constant) and v.left.elts[0].value is False
            if is_set or is_flags:
                nm = st.targets[0].id
                if outer is not None and _inside(st, outer):
                    w.per_walk.add(nm)
                else:
                    w.table_wide.add(nm)
    return w


def _is_shortcircuit_step(node):
    """`if t: t = B` / `if not t: t = B` (nothing else): the second half of the statement form of `t = A and B` / `t = A or B`"""
    if not isinstance(node, ast.If) or node.orelse or len(node.body) != 1:
        return False
    b = node.body[0]
    t = node.test
    if isinstance(t, ast.UnaryOp) and isinstance(t.op, ast.Not):
        t = t.operand
    return isinstance(t, ast.Name) and isinstance(b, ast.Assign) and len(b.targets) == 1 and isinstance(b.targets[0], ast.Name) and b.targets[0].id == t.id


def _classify(w, test, mod, ctx):
    """Decompose a boolean test into a tree of classified atoms.
    returns ('or'|'and', [children]) | ('not', child) | ('atom', class, text)"""
    if isinstance(test, ast.BoolOp):
        return ("or" if isinstance(test.op, ast.Or) else "and", [_classify(w, v, mod, ctx) for v in test.values])
    if isinstance(test, ast.UnaryOp) and isinstance(test.op, ast.Not):
        return ("not", _classify(w, test.operand, mod, ctx))
    txt = norm(test)
    # boolean locals defined from a classified expression in the loop (e.g. current_sector_is_directory)
    if isinstance(test, ast.Name) and test.id == w.links:
        return ("atom", "NONEMPTY", txt)  # truthiness of the accumulated link list
    if isinstance(test, ast.Call) and isinstance(test.func, ast.Name) and test.func.id == "len" and len(test.args) == 1 and isinstance(test.args[0], ast.Name) \
            and test.args[0].id == w.links:
        return ("atom", "NONEMPTY", txt)
    if isinstance(test, ast.Name):
        defs_ = [st for st in ast.walk(w.loop) if isinstance(st, ast.Assign) and len(st.targets) == 1 and isinstance(st.targets[0], ast.Name) and st.targets[0].id == test.id]
        if len(defs_) == 2:
            # the statement form of a short-circuit value: `t = A; if t: t = B` is `A and B`, `t = A; if not t: t = B` is `A or B`
            a_, b_ = sorted(defs_, key=lambda d_: (d_.lineno, d_.col_offset))
            par_ = getattr(b_, "_parent", None)
            if isinstance(par_, ast.If) and par_.body == [b_] and not par_.orelse:
                blk = getattr(par_, "_parent", None)
                body_ = next((x for x in (getattr(blk, "body", None), getattr(blk, "orelse", None), getattr(blk, "finalbody", None)) if isinstance(x, list) and par_ in x), None)
                t_ = par_.test
                neg_ = isinstance(t_, ast.UnaryOp) and isinstance(t_.op, ast.Not)
                t_ = t_.operand if neg_ else t_
                if body_ is not None and a_ in body_ and body_.index(par_) == body_.index(a_) + 1 and isinstance(t_, ast.Name) and t_.id == test.id:
                    return ("or" if neg_ else "and", [_classify(w, a_.value, mod, ctx), _classify(w, b_.value, mod, ctx)])
        for st in defs_:
            if isinstance(st.value, (ast.Compare, ast.BoolOp)) or (isinstance(st.value, ast.UnaryOp) and isinstance(st.value.op, ast.Not)):
                return _classify(w, st.value, mod, ctx)
        if "directory" in test.id and "previous" in test.id:
            return ("atom", "PREV-DIR", test.id)
        return ("atom", "FLAGVAR:" + test.id, txt)
    if isinstance(test, ast.Call) and isinstance(test.func, ast.Name) and FLAG_NAMES.get(test.func.id) == "END" and test.args \
            and isinstance(test.args[0], ast.Name) and test.args[0].id == w.value:
        return ("atom", "END", txt)
    if isinstance(test, ast.Subscript) and isinstance(test.value, ast.Name):
        nm = test.value.id
        idx = norm(test.slice)
        who = "value" if idx == w.value else ("cursor" if idx == w.cursor else idx)
        if nm in w.table_wide:
            return ("atom", f"DECODED({who})", txt)
        if nm in w.per_walk:
            return ("atom", f"CYCLE({who})", txt)
    if isinstance(test, ast.Compare) and len(test.ops) == 1:
        l, op, r = test.left, test.ops[0], test.comparators[0]
        names = lambda n: {x.id for x in ast.walk(n) if isinstance(x, ast.Name)}
        # membership in visited structures
        if isinstance(op, (ast.In, ast.NotIn)) and isinstance(r, ast.Name) and (r.id in w.per_walk or r.id in w.table_wide):
            who = "value" if norm(l) == w.value else ("cursor" if norm(l) == w.cursor else norm(l))
            cls = f"CYCLE({who})" if r.id in w.per_walk else f"DECODED({who})"
            return ("atom", cls, txt) if isinstance(op, ast.In) else ("not", ("atom", cls, txt))
        # value in (FLAG, FLAG)
        if isinstance(op, (ast.In, ast.NotIn)) and isinstance(r, (ast.Tuple, ast.List, ast.Set)) and isinstance(l, ast.Name) and l.id == w.value:
            classes = sorted({FLAG_NAMES.get(e.id, "?" + e.id) if isinstance(e, ast.Name) else "?" for e in r.elts})
            node = ("or", [("atom", c, txt) for c in classes]) if len(classes) > 1 else ("atom", classes[0], txt)
            return node if isinstance(op, ast.In) else ("not", node)
        # value == FLAG
        for a, b in ((l, r), (r, l)):
            if isinstance(a, ast.Name) and a.id == w.value and isinstance(b, ast.Name) and b.id in FLAG_NAMES and isinstance(op, (ast.Eq, ast.NotEq)):
                node = ("atom", FLAG_NAMES[b.id], txt)
                return node if isinstance(op, ast.Eq) else ("not", node)
        # range tests
        if isinstance(l, ast.Name) and l.id in (w.cursor, w.value):
            who = "cursor" if l.id == w.cursor else "value"
            bound_ok = norm(r) in ("size", "FAT_NUM_ENTRIES", f"len({w.table})", "len(block)", "len(fat_entries)")
            if bound_ok and isinstance(op, (ast.GtE,)):
                return ("atom", f"RANGE-OUT({who})", txt)
            if bound_ok and isinstance(op, (ast.Lt,)):
                return ("not", ("atom", f"RANGE-OUT({who})", txt))
        # len(links) > 0
        if isinstance(l, ast.Call) and isinstance(l.func, ast.Name) and l.func.id == "len" and l.args and isinstance(l.args[0], ast.Name) \
                and l.args[0].id == w.links and isinstance(r, ast.Constant):
            if (isinstance(op, ast.Gt) and r.value == 0) or (isinstance(op, ast.GtE) and r.value == 1) or (isinstance(op, ast.NotEq) and r.value == 0):
                return ("atom", "NONEMPTY", txt)
            if (isinstance(op, ast.Eq) and r.value == 0) or (isinstance(op, ast.LtE) and r.value == 0) or (isinstance(op, ast.Lt) and r.value == 1):
                return ("not", ("atom", "NONEMPTY", txt))
    return ("atom", "UNKNOWN:" + txt, txt)


def _show(t):
    if t[0] == "atom":
        return t[1]
    if t[0] == "not":
        return "!" + _show(t[1])
    # operands sorted and nested uses of the same operator flattened: the key does not depend on order or bracketing
    def flat(node, op):
        out = []
        for c in node[1]:
            if c[0] == op:
                out += flat(c, op)
            else:
                out.append(c)
        return out

    return "(" + (" | " if t[0] == "or" else " & ").join(sorted(_show(c) for c in flat(t, t[0]))) + ")"


def _nnf(t, pol=True):
    """push negation to atoms: returns ('or'|'and', [...]) | ('lit', class, positive)"""
    if t[0] == "atom":
        return ("lit", t[1], pol)
    if t[0] == "not":
        return _nnf(t[1], not pol)
    kind = t[0] if pol else ("and" if t[0] == "or" else "or")
    return (kind, [_nnf(c, pol) for c in t[1]])


def _facts(nnf):
    """literals that certainly hold when the formula holds (conjunction members)"""
    if nnf[0] == "lit":
        return {(nnf[1], nnf[2])}
    if nnf[0] == "and":
        s = set()
        for c in nnf[1]:
            s |= _facts(c)
        return s
    return set()


MALFORMED = ("RANGE-OUT(cursor)", "RANGE-OUT(value)", "ERROR", "CYCLE(cursor)", "CYCLE(value)")


def _simplify(nnf, facts):
    """drop disjuncts contradicted by known literal facts"""
    if nnf[0] == "lit":
        return nnf
    kids = [_simplify(c, facts) for c in nnf[1]]
    if nnf[0] == "or":
        kids = [c for c in kids if not (c[0] == "lit" and (c[1], not c[2]) in facts)]
        kids = [c for c in kids if not (c[0] == "and" and any(k[0] == "lit" and (k[1], not k[2]) in facts for k in c[1]))]
        if len(kids) == 1:
            return kids[0]
    return (nnf[0], kids)


def _path_facts(tests):
    """literal facts along a path, with unit propagation through disjunctions"""
    nnfs = [_nnf(t, taken) for t, taken, node in tests]
    facts = set()
    for _ in range(4):
        before = len(facts)
        for n in nnfs:
            facts |= _facts(_simplify(n, facts))
        if len(facts) == before:
            break
    return facts, [_simplify(n, facts) for n in nnfs]


def _justified(nnf, facts, free_ok):
    """does every way of satisfying this (taken) test involve a malformed-table atom?"""
    if nnf[0] == "lit":
        cls, pos = nnf[1], nnf[2]
        if pos and cls in MALFORMED:
            return True
        if pos and cls == "RESERVED" and ("NONEMPTY", True) in facts:
            return True
        if pos and cls == "FREE":
            # a free entry in mid-chain is malformed; right after a directory run it is well-formed, so
            # (where the format has directory runs) the run-end install must have been considered first
            return free_ok
        return False
    if nnf[0] == "or":
        return bool(nnf[1]) and all(_justified(c, facts, free_ok) for c in nnf[1])
    return any(_justified(c, facts, free_ok) for c in nnf[1])


def _analyse(ctx, which, rule_ids):
    path, qn = which
    w = _find_walk(ctx, path, qn, "D1")
    fn = w.fn
    cfg = ctx.cfg(fn, "D1")
    lp = cfg.loop_of(w.loop)
    mod = fn._module
    out = []
    for kind, p, edge in cfg.iteration_paths(lp):
        pr = _walk(ctx, fn, cfg, p)
        tests = []
        for s in pr.steps:
            if s.kind == "test" and s.label in ("true", "false") and isinstance(s.ast, (ast.If, ast.While)):
                if _is_shortcircuit_step(s.ast):
                    continue  # `if t: t = B` only finishes computing the boolean t = A and B; the test that uses t is classified whole
                tests.append((_classify(w, s.ast.test, mod, ctx), s.label == "true", s.ast))
        stmts = [s.ast for s in pr.steps if s.kind in ("stmt", "raise", "return", "break") and s.ast is not None]
        installed = any(any(c in w.installs for c in ast.walk(st)) for st in stmts)
        appended = any(any(c in w.appends for c in ast.walk(st)) for st in stmts)
        out.append((kind, pr, tests, installed, appended, edge))
    return w, cfg, out


def rule_D1(ctx, decoders=(AKAI, ROLAND)):
    """every exit of a decoder walk that may hold accumulated links installs them, unless the exit is
    taken only for a malformed table"""
    total = 0
    for which in decoders:
        w, cfg, paths = _analyse(ctx, which, "D1")
        has_dirrun = any("PREV-DIR" in _show(t) for kind, pr, tests, i, a, e in paths for t, taken, node in tests)
        # guard-variable exits: `while flag:` where the flag is cleared only on paths that break anyway
        flag = w.loop.test.id if isinstance(w.loop.test, ast.Name) else None
        flag_exit_dead = False
        if flag is not None:
            cleared_on_back = False
            for kind, pr, tests, installed, appended, edge in paths:
                if kind == "back":
                    for s in pr.steps:
                        if s.kind == "stmt" and isinstance(s.ast, ast.Assign) and any(isinstance(t, ast.Name) and t.id == flag for t in s.ast.targets):
                            cleared_on_back = True
            inits = [n for n in own_nodes(w.fn) if isinstance(n, ast.Assign) and any(isinstance(t, ast.Name) and t.id == flag for t in n.targets)
                     and not _inside(n, w.loop)]
            flag_exit_dead = (not cleared_on_back) and inits and all(isinstance(n.value, ast.Constant) and n.value.value is True for n in inits)
        for kind, pr, tests, installed, appended, edge in paths:
            if kind != "exit":
                continue
            if flag_exit_dead and len(pr.steps) == 1:
                ctx.note(f"D1 {which[1]}: the `while {flag}` guard exit is unreachable (flag is cleared only right before a break)")
                continue
            total += 1
            facts, simp = _path_facts(tests)
            desc = " & ".join(_show(t) if taken else "!" + _show(t) for t, taken, node in tests if not _show(t).startswith("FLAGVAR") and _show(t) != "UNKNOWN:True")
            how = cfg.nodes[edge[0]].kind
            empty = ("NONEMPTY", False) in facts and not appended
            dirrun_tested = any(("PREV-DIR" in _show(t)) and ("NONEMPTY" in _show(t)) for t, taken, node in tests[:-1])
            free_ok = dirrun_tested or not has_dirrun
            just = any(_justified(n, facts, free_ok) for n in simp)
            ok = installed or empty or just
            exit_node = cfg.nodes[edge[0]].ast
            ctx.ob("D1", exit_node or w.loop, "walk exit keeps the links accumulated so far (installs them), or is taken only for a malformed table / empty list", ok,
                   "" if ok else (f"exit ({how}) under [{desc}] drops the accumulated `{w.links}`: a well-formed chain reaching this exit is truncated or rejected"),
                   inst=f"exit[{desc}]->{how}", file=w.fn._module.path, qualname=w.fn._qualname)
    ctx.fact("D1", "walk_exits", total)


def rule_D1a(ctx):
    rule_D1(ctx, (AKAI,))


def rule_D1r(ctx):
    rule_D1(ctx, (ROLAND,))


def rule_D3a(ctx):
    rule_D3(ctx, (AKAI,))


def rule_D3r(ctx):
    rule_D3(ctx, (ROLAND,))


def rule_D3(ctx, decoders=(AKAI, ROLAND)):
    """links are installed only where the chain really ends (END word, or end of a directory run)"""
    n = 0
    for which in decoders:
        w, cfg, paths = _analyse(ctx, which, "D3")
        for kind, pr, tests, installed, appended, edge in paths:
            if not installed:
                continue
            n += 1
            facts, _simp = _path_facts(tests)
            desc = " & ".join(_show(t) if taken else "!" + _show(t) for t, taken, node in tests if not _show(t).startswith("FLAGVAR") and _show(t) != "UNKNOWN:True")
            at_end = ("END", True) in facts
            run_end = ("PREV-DIR", True) in facts and ("NONEMPTY", True) in facts and ("DIRFLAG", False) in facts
            ok = at_end or run_end
            inst_call = [c for st in [s.ast for s in pr.steps if s.ast is not None and s.kind == "stmt"] for c in ast.walk(st) if c in w.installs][0]
            # when installing at END the END cluster itself must be part of the list
            if at_end and not appended:
                ok = False
            ctx.ob("D3", inst_call, "add_to_sector_links marks the last sector as end-of-chain: it is reached only at an END word (with that sector appended) or when a directory run has just ended",
                   ok, "" if ok else f"links are installed under [{desc}]: the last sector's forward link is overwritten with an end marker although the table links further",
                   inst=f"install[{desc}]", file=w.fn._module.path, qualname=w.fn._qualname)
    if n == 0:
        raise AnalysisError("D3", "-", "no installing path found")


def rule_D2(ctx):
    """the decoders compare against the declared constants, which have the documented values"""
    want_akai = {"AKAI_SAT_FREE_FLAG": 0x0000, "AKAI_SAT_RESERVED_FLAG_STD": 0x4000, "AKAI_SAT_RESERVED_FLAG_V2": 0x8000,
                 "AKAI_SAT_EOF_FLAG": 0xC000, "AKAI_SAT_ENTRY_CNT": 11386, "AKAI_SECTOR_SIZE": 8192, "AKAI_VOLUME_ENTRY_CNT": 100}
    want_rol = {"FAT_FREE_FLAG": 0, "FAT_RESERVED_FLAG": 1, "FAT_ERROR_FLAG": 0xfff7, "FAT_END": 0xfff8, "FAT_NUM_ENTRIES": 65536,
                "FAT_AREA_ID": 0xfffa, "FAT_VERSION_1_FLAG": 0xffff, "FAT_VERSION_2_FLAG": 0xfffe, "ROLAND_CLUSTER_SIZE": 9216}
    for path, want in ((AKAI_DT, want_akai), (ROLAND_DT, want_rol)):
        for k, v in want.items():
            got = ctx.const(path, k, "D2")
            node = ctx.prog.assigned(path, k)
            ctx.ob("D2", node, f"{k} == {v:#x}", got == v, f"is {got}", inst=k, file=path, qualname="<module>")
    # FAT_IS_END_F = lambda x: x >= FAT_END
    lam = ctx.prog.assigned(ROLAND_DT, "FAT_IS_END_F", "D2")
    ok = isinstance(lam, ast.Lambda) and isinstance(lam.body, ast.Compare) and len(lam.body.ops) == 1 and isinstance(lam.body.ops[0], ast.GtE) \
        and norm(lam.body.left) == lam.args.args[0].arg and norm(lam.body.comparators[0]) == "FAT_END"
    ctx.ob("D2", lam, "FAT_IS_END_F(x) is x >= FAT_END", ok, norm(lam), inst="FAT_IS_END_F", file=ROLAND_DT, qualname="<module>")
    # the decoders use the named constants for their comparisons (every flag is consulted)
    for which, need in ((AKAI, {"AKAI_SAT_FREE_FLAG", "AKAI_SAT_EOF_FLAG", "AKAI_SAT_RESERVED_FLAG_STD", "AKAI_SAT_RESERVED_FLAG_V2"}),
                        (ROLAND, {"FAT_FREE_FLAG", "FAT_RESERVED_FLAG", "FAT_ERROR_FLAG", "FAT_IS_END_F", "FAT_NUM_ENTRIES"})):
        fn = ctx.fn(which[0], which[1], "D2")
        used = {n.id for n in ast.walk(fn) if isinstance(n, ast.Name)}
        # each must resolve to the data_types constant
        for k in sorted(need):
            r = ctx.prog.resolve(fn._module, k)
            ok = k in used and r is not None and r[0] == "assign" and r[2].path in (AKAI_DT, ROLAND_DT)
            ctx.ob("D2", fn, f"decoder consults {k} (the declared constant)", ok, "" if ok else "not used or shadowed", inst=f"uses:{k}")
    # the table handed to the FileAllocationTable has the table's own size
    for which in (AKAI, ROLAND):
        fn = ctx.fn(which[0], which[1], "D2")
        for c in own_nodes(fn):
            if isinstance(c, ast.Call) and isinstance(c.func, ast.Name) and c.func.id in ("SegmentAllocationTable", "RolandFileAllocationTable"):
                from .util import positional_args as _pa
                a = [norm(x) for x in _pa(ctx, fn._module, c)]
                ok = len(a) == 3 and a[1] in ("size", "FAT_NUM_ENTRIES") and a[2] == "sector_links"
                ctx.ob("D2", c, "allocation table object receives (stream, table size, decoded links)", ok, f"args {a}", inst=c.func.id)
    # Roland: walks start at 2 and skip the trailer words; sector_links / dirty flags sized by the table
    rf = ctx.fn(ROLAND[0], ROLAND[1], "D2")
    fors = [n for n in own_nodes(rf) if isinstance(n, ast.For) and isinstance(n.iter, ast.Call) and norm(n.iter.func) == "range"
            and any(isinstance(x, ast.While) for x in ast.walk(n))]
    ok = len(fors) == 1 and norm(fors[0].iter.args[0]) == "2" and len(fors[0].iter.args) == 2
    ctx.ob("D2", fors[0] if fors else rf, "Roland walks start at FAT[2] (first data cluster)", ok, "", inst="roland-range")
    af = ctx.fn(AKAI[0], AKAI[1], "D2")
    fors = [n for n in own_nodes(af) if isinstance(n, ast.For) and isinstance(n.iter, ast.Call) and norm(n.iter.func) == "range"
            and any(isinstance(x, ast.While) for x in ast.walk(n))]
    ok = len(fors) == 1 and [norm(a) for a in fors[0].iter.args] == ["size"]
    if not ok and len(fors) == 1 and len(fors[0].iter.args) == 1:
        # range(len(L)) with L created as `[x] * size` and never resized is range(size)
        a_ = fors[0].iter.args[0]
        if isinstance(a_, ast.Call) and isinstance(a_.func, ast.Name) and a_.func.id == "len" and len(a_.args) == 1 and isinstance(a_.args[0], ast.Name):
            L_ = a_.args[0].id
            defs_ = [x for x in own_nodes(af) if isinstance(x, ast.Assign) and len(x.targets) == 1 and norm(x.targets[0]) == L_]
            stores_ = [x for x in own_nodes(af) if isinstance(x, ast.Name) and x.id == L_ and isinstance(x.ctx, (ast.Store, ast.Del))]
            grows_ = [x for x in own_nodes(af) if isinstance(x, ast.Call) and isinstance(x.func, ast.Attribute) and norm(x.func.value) == L_]
            ok = len(defs_) == 1 and len(stores_) == 1 and not grows_ and isinstance(defs_[0].value, ast.BinOp) and isinstance(defs_[0].value.op, ast.Mult) \
                and isinstance(defs_[0].value.left, ast.List) and len(defs_[0].value.left.elts) == 1 and norm(defs_[0].value.right) == "size"
    ctx.ob("D2", fors[0] if fors else af, "AKAI walks start at every sector of the table", ok, "", inst="akai-range")


def rule_D4(ctx):
    """get_segment / get_file build the stream from get_path's list; get_file drops exactly cluster_offset leading clusters"""
    gf = ctx.fn(ROLAND[0], "RolandFileAllocationTable.get_file", "D4")
    from ..core.symexec import run_paths, calls_on
    from .util import evaluator, path_conds_struct, cond_taken
    # the two stream factories accept every chain get_path resolves: they reject nothing themselves (a chain may use any sector of the
    # table, the last one included)
    for path_, qn_ in ((ROLAND[0], "RolandFileAllocationTable.get_file"), (AKAI[0], "SegmentAllocationTable.get_segment")):
        f_ = ctx.fn(path_, qn_, "D4")
        raises_ = [r_ for r_ in own_nodes(f_) if isinstance(r_, ast.Raise)]
        ctx.ob("D4", raises_[0] if raises_ else f_, f"{qn_} turns every resolved chain into a stream (it has no rejection of its own)", not raises_,
               "" if not raises_ else f"`{norm(raises_[0])[:70]}`: a well-formed chain can be refused", inst=f"no-own-raise:{qn_}")
    params = [a.arg for a in gf.args.args][1:]
    prs = [p for p in run_paths(ctx, gf, rule="D4") if p.end == "return"]
    if not prs:
        raise AnalysisError("D4", where(gf), "no return path")
    A = Term.atom
    for p in prs:
        cs = [x for x in calls_on(p, name="RolandFile")]
        ok = len(cs) == 1
        det = ""
        if ok:
            ev = evaluator(ctx, gf, cs[0][1])
            key = ev.ev(cs[0][0]).key()
            base = f"self.get_path({params[0]})"
            off = params[1]
            conds = path_conds_struct(ctx, gf, p)
            sliced = {f"RolandFile(self.parent_stream,slice({base},{off}::))", f"RolandFile(self.parent_stream,slice({base},max(0,{off})::))"}
            if key in sliced:
                ok = True
            elif key == f"RolandFile(self.parent_stream,{base})":
                ok = cond_taken(conds, A(off), "<=")
            else:
                ok = False
            det = "" if ok else f"{key} under [{p.cond_key()}]"
        ctx.ob("D4", p.ret_node, "file = chain from get_path(index) minus exactly `cluster_offset` leading clusters (all of it when the offset is 0)", ok, det,
               inst=f"get_file:{p.cond_key()}")
        okr = p.ret is not None and len(cs) == 1 and p.ret.key().startswith("RolandFile(")
        ctx.ob("D4", p.ret_node, "get_file returns that RolandFile", okr, "", inst=f"get_file-ret:{p.cond_key()}")
    gs = ctx.fn(AKAI[0], "SegmentAllocationTable.get_segment", "D4")
    ps = [a.arg for a in gs.args.args][1:]
    prs = [p for p in run_paths(ctx, gs, rule="D4") if p.end == "return"]
    for p in prs:
        ok = p.ret == A(f"Segment(self.parent_stream,self.get_path({ps[0]}))")
        ctx.ob("D4", p.ret_node, "segment = Segment(partition stream, get_path(index))", ok, "" if ok else f"returns {p.ret.key() if p.ret else None}", inst="get_segment")
    # the sample entry passes the directory's fat_entry and the parameter's cluster_top
    se = ctx.fn("smpl_extract/roland/s7xx/sample_entry.py", "SampleEntryAdapter._decode_element", "D4")
    keys = set()
    n_calls = 0
    for p in run_paths(ctx, se, rule="D4", limit=4000):
        for c, e, st in calls_on(p, attr="get_file"):
            n_calls += 1
            k = evaluator(ctx, se, e).ev(c).key()
            keys.add(k[k.index(".get_file("):] if ".get_file(" in k else k)
    obj = se.args.args[1].arg
    want = {f".get_file({c}.directory.fat_entry,{c}.parameter.cluster_top)" for c in (obj, f"cast(SampleEntryContainer,{obj})")}
    ok = n_calls >= 1 and keys <= want and bool(keys)
    ctx.ob("D4", se, "sample data stream = FAT chain of directory.fat_entry, skipping parameter.cluster_top clusters", ok, "" if ok else f"{sorted(keys)}", inst="sample_entry-get_file")
    # AKAI: volume directory and file streams come from get_segment(start)
    va = ctx.fn("smpl_extract/akai/volume.py", "VolumesAdapter._decode_element", "D4")
    calls = [c for c in own_nodes(va) if isinstance(c, ast.Call) and isinstance(c.func, ast.Attribute) and c.func.attr == "get_segment"]
    ok = len(calls) == 1 and norm(calls[0].args[0]) in ("volume_sector", "volume_entry.start")
    ctx.ob("D4", calls[0] if calls else va, "volume directory stream = segment starting at the volume entry's start sector", ok, "", inst="volume-get_segment")
    fe = ctx.prog.assigned("smpl_extract/akai/file_entry.py", "FileEntryConstruct", "D4")
    from ..core.layout import Layouts, Describer
    comp = [c for c in ast.walk(fe) if isinstance(c, ast.Call) and isinstance(c.func, ast.Name) and c.func.id == "Computed" and c.args]
    got = []
    d = Describer(Layouts(ctx))
    for c in comp:
        try:
            got.append(d.canon(c.args[0], ctx.prog.module("smpl_extract/akai/file_entry.py")))
        except Exception as e:  # unrecognised expression: reported as a mismatch with its reason
            got.append(f"<{type(e).__name__}>")
    ok = "StreamWrapper(this._.sat.get_segment(this.start),this.size)" in got
    ctx.ob("D4", fe, "file stream = StreamWrapper(segment at entry.start, entry.size)", ok, "" if ok else f"{got}",
           inst="file_entry-stream", file="smpl_extract/akai/file_entry.py", qualname="<module>")
