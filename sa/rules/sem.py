"""Small semantic helpers shared by rules: a concrete mini-interpreter for case analysis over a few
statements (no repository code is executed: expressions are interpreted over constants and opaque
symbols), list-growth events, helper-function discovery."""
import ast
from ..core.loader import clone as _clone

from ..core.loader import norm, dotted, own_nodes
from ..core.consts import NotConst


class Sym(str):
    """opaque symbolic value"""

    def __repr__(self):
        return f"<{str(self)}>"


class Mini:
    def __init__(self, ctx, mod, env=None, assume=None, special=None):
        self.ctx, self.mod = ctx, mod
        self.env = dict(env or {})
        self.assume = assume or (lambda text: None)
        self.special = special or (lambda node, interp: None)
        self.calls = []  # (callee text, [arg values], {kw: value})

    def ev(self, node):
        sp = self.special(node, self)
        if sp is not None:
            return sp
        t = norm(node)
        if t in self.env:
            return self.env[t]
        if isinstance(node, ast.Constant):
            return node.value
        if isinstance(node, ast.Name):
            try:
                v = self.ctx.folder.name(self.mod, node.id)
                if isinstance(v, (int, str, bytes, float, bool)):
                    return v
            except (NotConst, AttributeError):
                pass
            # a module-level table (dict / list / tuple literal) is interpreted in its own module
            try:
                r = self.ctx.prog.resolve(self.mod, node.id)
            except AttributeError:
                r = None
            if r is not None and r[0] == "assign" and isinstance(r[1], (ast.Dict, ast.List, ast.Tuple)) and getattr(self, "_depth", 0) < 3:
                sub = Mini(self.ctx, r[2])
                sub._depth = getattr(self, "_depth", 0) + 1
                return sub.ev(r[1])
            return Sym(node.id)
        if isinstance(node, (ast.List, ast.Tuple)):
            vals = [self.ev(e) for e in node.elts]
            return vals if isinstance(node, ast.List) else tuple(vals)
        if isinstance(node, ast.IfExp):
            c = self.truth(node.test)
            if c is None:
                return Sym(t)
            return self.ev(node.body) if c else self.ev(node.orelse)
        if isinstance(node, ast.Dict) and all(k is not None for k in node.keys):
            return {self.ev(k): self.ev(v) for k, v in zip(node.keys, node.values)}
        if isinstance(node, (ast.Compare, ast.BoolOp)) or (isinstance(node, ast.UnaryOp) and isinstance(node.op, ast.Not)):
            c = self.truth(node)
            return c if c is not None else Sym(t)
        if isinstance(node, ast.Subscript):
            base = self.ev(node.value)
            idx = self.ev(node.slice) if not isinstance(node.slice, ast.Slice) else None
            if isinstance(base, (list, tuple)) and isinstance(idx, int) and not isinstance(idx, bool):
                try:
                    return base[idx]
                except IndexError:
                    return Sym(t)
            if isinstance(base, dict) and idx is not None and not isinstance(idx, Sym) and idx in base:
                return base[idx]
            return Sym(t)
        if isinstance(node, ast.Call):
            f = node.func
            args = [self.ev(a) for a in node.args]
            kw = {k.arg: self.ev(k.value) for k in node.keywords if k.arg}
            ft = norm(f)
            self.calls.append((ft, args, kw, node))
            if ft == "cast" and len(args) == 2:
                return args[1]
            if isinstance(f, ast.Attribute) and f.attr == "get" and len(args) in (1, 2) and not isinstance(args[0], Sym):
                base = self.ev(f.value)
                if isinstance(base, dict):
                    try:
                        return base.get(args[0], args[1] if len(args) == 2 else None)
                    except TypeError:
                        pass
            if ft == "len" and len(args) == 1 and not isinstance(args[0], Sym) and isinstance(args[0], (str, bytes, list, tuple)):
                return len(args[0])
            if isinstance(f, ast.Attribute) and f.attr == "join" and len(args) == 1 and isinstance(args[0], (list, tuple)):
                sep = self.ev(f.value)
                if isinstance(sep, str) and not isinstance(sep, Sym) and all(isinstance(x, str) and not isinstance(x, Sym) for x in args[0]):
                    return sep.join(args[0])
                return Sym("join(" + ",".join(str(x) for x in args[0]) + ")")
            return Sym(t)
        if isinstance(node, ast.BinOp) and isinstance(node.op, ast.Add):
            a, b = self.ev(node.left), self.ev(node.right)
            if type(a) is type(b) and not isinstance(a, Sym) and isinstance(a, (str, list, tuple, int)):
                return a + b
            return Sym(t)
        if isinstance(node, ast.JoinedStr):
            # f"{a}{b}.." of known strings (no conversion, no format spec) is their concatenation
            parts = []
            for v_ in node.values:
                if isinstance(v_, ast.Constant) and isinstance(v_.value, str):
                    parts.append(v_.value)
                elif isinstance(v_, ast.FormattedValue) and v_.conversion == -1 and v_.format_spec is None:
                    x_ = self.ev(v_.value)
                    if isinstance(x_, Sym) or not isinstance(x_, str):
                        return Sym(t)
                    parts.append(x_)
                else:
                    return Sym(t)
            return "".join(parts)
        return Sym(t)

    def truth(self, node):
        if isinstance(node, ast.UnaryOp) and isinstance(node.op, ast.Not):
            c = self.truth(node.operand)
            return None if c is None else not c
        if isinstance(node, ast.BoolOp):
            vals = [self.truth(v) for v in node.values]
            if isinstance(node.op, ast.And):
                if any(v is False for v in vals):
                    return False
                return True if all(v is True for v in vals) else None
            if any(v is True for v in vals):
                return True
            return False if all(v is False for v in vals) else None
        if isinstance(node, ast.Compare) and len(node.ops) == 1:
            a, b = self.ev(node.left), self.ev(node.comparators[0])
            op = node.ops[0]
            if not isinstance(a, Sym) and not isinstance(b, Sym):
                try:
                    if isinstance(op, ast.Eq):
                        return a == b
                    if isinstance(op, ast.NotEq):
                        return a != b
                    if isinstance(op, ast.In):
                        return a in b
                    if isinstance(op, ast.NotIn):
                        return a not in b
                    if isinstance(op, ast.Is) and (a is None or b is None):
                        return a is b
                    if isinstance(op, ast.IsNot) and (a is None or b is None):
                        return a is not b
                    if isinstance(op, (ast.Lt, ast.LtE, ast.Gt, ast.GtE)) and isinstance(a, (int, float)) and isinstance(b, (int, float)):
                        return {ast.Lt: a < b, ast.LtE: a <= b, ast.Gt: a > b, ast.GtE: a >= b}[type(op)]
                except TypeError:
                    pass
        if isinstance(node, ast.Name) and node.id in self.env and not isinstance(self.env[node.id], Sym) and isinstance(self.env[node.id], (bool, int, str, bytes, tuple, list, dict, type(None))):
            return bool(self.env[node.id])  # a local whose value is known
        v = self.assume(norm(node))
        if v is not None:
            return v
        val = self.env.get(norm(node))
        if isinstance(val, bool):
            return val
        if not isinstance(node, (ast.Compare, ast.BoolOp)):
            val = self.ev(node)
            if not isinstance(val, Sym) and (val is None or isinstance(val, (bool, int, str, bytes, list, tuple))):
                return bool(val)
        return None

    def bind(self, target, value):
        if isinstance(target, ast.Name):
            self.env[target.id] = value
        elif isinstance(target, (ast.Tuple, ast.List)) and isinstance(value, (list, tuple)) and len(value) == len(target.elts):
            for t, v in zip(target.elts, value):
                self.bind(t, v)
        else:
            self.env[norm(target)] = value

    def run(self, stmts):
        """execute statements; returns 'continue' / 'break' / 'return' / None"""
        for st in stmts:
            if isinstance(st, ast.Assign):
                v = self.ev(st.value)
                for t in st.targets:
                    self.bind(t, v)
            elif isinstance(st, ast.AnnAssign) and st.value is not None:
                self.bind(st.target, self.ev(st.value))
            elif isinstance(st, ast.Expr):
                self.ev(st.value)
            elif isinstance(st, ast.If):
                c = self.truth(st.test)
                if c is None:
                    self.undecided = getattr(self, "undecided", 0) + 1
                    c = True
                r = self.run(st.body if c else st.orelse)
                if r:
                    return r
            elif isinstance(st, ast.Continue):
                return "continue"
            elif isinstance(st, ast.Break):
                return "break"
            elif isinstance(st, ast.Return):
                self.env["<return>"] = self.ev(st.value) if st.value is not None else None
                return "return"
        return None


def grow_events(root, L):
    """statements that add elements to list variable L inside `root`:
    yields (node, kind, value expr) with kind in append|extend|iadd|concat|prepend|insert"""
    for n in ast.walk(root):
        if isinstance(n, ast.Call) and isinstance(n.func, ast.Attribute) and dotted(n.func.value) == L:
            if n.func.attr == "append" and n.args:
                yield n, "append", n.args[0]
            elif n.func.attr == "extend" and n.args:
                yield n, "extend", n.args[0]
            elif n.func.attr == "insert" and len(n.args) == 2:
                yield n, "insert", n.args[1]
        if isinstance(n, ast.AugAssign) and dotted(n.target) == L and isinstance(n.op, ast.Add):
            yield n, "iadd", n.value
        if isinstance(n, ast.Assign) and len(n.targets) == 1 and dotted(n.targets[0]) == L and isinstance(n.value, ast.BinOp) and isinstance(n.value.op, ast.Add):
            if dotted(n.value.left) == L:
                yield n, "concat", n.value.right
            elif dotted(n.value.right) == L:
                yield n, "prepend", n.value.left


def local_function(ctx, mod, name, cls=None):
    """module-level function or method of `cls` with that name defined in the same module"""
    r = ctx.prog.resolve(mod, name)
    if r and r[0] == "func" and r[2] is mod:
        return r[1]
    if cls is not None:
        return ctx.prog.find_method(cls, name)
    return None


# ---------------------------------------------------------------- canonical expressions
class _Inline(ast.NodeTransformer):
    def __init__(self, defs, skip=()):
        self.defs, self.skip = defs, set(skip)

    def visit_Name(self, node):
        if isinstance(node.ctx, ast.Load) and node.id in self.defs and node.id not in self.skip:
            import copy
            return _Inline(self.defs, self.skip | {node.id}).visit(_clone(self.defs[node.id]))
        return node


class _Alpha(ast.NodeTransformer):
    """rename comprehension targets to _c0, _c1, ... and turn list(<genexp>) into a list comprehension"""

    def __init__(self):
        self.n = 0
        self.map = {}

    def visit_Call(self, node):
        node = self.generic_visit(node)
        if isinstance(node.func, ast.Name) and node.func.id == "list" and len(node.args) == 1 and isinstance(node.args[0], ast.GeneratorExp) and not node.keywords:
            return ast.ListComp(elt=node.args[0].elt, generators=node.args[0].generators)
        return node

    def _comp(self, node):
        saved = dict(self.map)
        for g in node.generators:
            g.iter = self.visit(g.iter)
            for t in ast.walk(g.target):
                if isinstance(t, ast.Name):
                    self.map[t.id] = f"_c{self.n}"
                    self.n += 1
            g.target = self.visit(g.target)
            g.ifs = [self.visit(i) for i in g.ifs]
        if hasattr(node, "elt"):
            node.elt = self.visit(node.elt)
        else:
            node.key = self.visit(node.key)
            node.value = self.visit(node.value)
        self.map = saved
        return node

    visit_ListComp = visit_GeneratorExp = visit_SetComp = visit_DictComp = _comp

    def visit_Name(self, node):
        if node.id in self.map:
            return ast.Name(id=self.map[node.id], ctx=node.ctx)
        return node


def single_defs(fn):
    """locals of fn assigned exactly once (plain `name = expr`), never augmented / rebound by loops"""
    counts, vals = {}, {}
    for n in own_nodes(fn):
        tg = []
        if isinstance(n, ast.Assign):
            tg = n.targets
        elif isinstance(n, (ast.AugAssign, ast.AnnAssign)):
            tg = [n.target]
        elif isinstance(n, (ast.For, ast.comprehension)):
            tg = [n.target]
        elif isinstance(n, ast.With):
            tg = [i.optional_vars for i in n.items if i.optional_vars is not None]
        elif isinstance(n, ast.ExceptHandler) and n.name:
            counts[n.name] = counts.get(n.name, 0) + 2
        for t in tg:
            for sub in ast.walk(t):
                if isinstance(sub, ast.Name) and isinstance(sub.ctx, ast.Store):
                    counts[sub.id] = counts.get(sub.id, 0) + (1 if isinstance(n, (ast.Assign, ast.AnnAssign)) and isinstance(t, ast.Name) else 2)
                    if isinstance(n, ast.Assign) and isinstance(t, ast.Name):
                        vals[sub.id] = n.value
                    elif isinstance(n, ast.AnnAssign) and isinstance(t, ast.Name) and n.value is not None:
                        vals[sub.id] = n.value
    params = {a.arg for a in fn.args.args} if hasattr(fn, "args") else set()

    def container(v):
        # a fresh mutable container is an accumulator, not a value: never inlined
        if isinstance(v, (ast.List, ast.Dict, ast.Set, ast.ListComp, ast.DictComp, ast.SetComp)):
            return True
        return isinstance(v, ast.Call) and isinstance(v.func, ast.Name) and v.func.id in ("list", "dict", "set", "bytearray", "deque", "defaultdict", "OrderedDict") and not v.args

    mutated = set()
    for n in own_nodes(fn):
        if isinstance(n, ast.Call) and isinstance(n.func, ast.Attribute) and isinstance(n.func.value, ast.Name) \
                and n.func.attr in ("append", "extend", "insert", "add", "update", "pop", "remove", "clear", "setdefault", "sort", "reverse"):
            mutated.add(n.func.value.id)
        if isinstance(n, (ast.Assign, ast.AugAssign)):
            for t in (n.targets if isinstance(n, ast.Assign) else [n.target]):
                if isinstance(t, ast.Subscript) and isinstance(t.value, ast.Name):
                    mutated.add(t.value.id)
    return {k: v for k, v in vals.items() if counts.get(k) == 1 and k not in params and not (k in mutated and container(v))}


def canon_expr(fn, expr, keep=()):
    """normalised text of expr with single-definition locals inlined (except those in keep), list(genexp) = [listcomp] and
    comprehension variables alpha-renamed"""
    import copy
    e = _Inline(single_defs(fn), keep).visit(_clone(expr))
    e = _Alpha().visit(e)
    ast.fix_missing_locations(e)
    return " ".join(ast.unparse(e).split())


def canon_text(text_expr):
    """canonical form of an expected expression given as source text (no local inlining)"""
    e = _Alpha().visit(ast.parse(text_expr, mode="eval").body)
    ast.fix_missing_locations(e)
    return " ".join(ast.unparse(e).split())


def return_canons(fn):
    return sorted({canon_expr(fn, r.value) for r in own_nodes(fn) if isinstance(r, ast.Return) and r.value is not None})


# ---------------------------------------------------------------- boolean DNF of predicate functions
def dnf_of_paths(ctx, fn, this_names=("this",)):
    """Disjunctive normal form (frozenset of frozensets of (atom, polarity)) of the truth of a predicate
    function, from its return paths; None when a path is not understood."""
    from ..core.symexec import run_paths
    prs = [p for p in run_paths(ctx, fn, this_names=this_names, rule="dnf") if p.end == "return"]
    if not prs:
        return None
    out = set()
    for p in prs:
        conj_sets = [frozenset()]
        for ctext, taken, node in p.conds:
            lits = _lits(ctext, taken)
            conj_sets = [c | l for c in conj_sets for l in lits]
        r = p.ret
        if r is None:
            return None
        k = r.key()
        if k == "1":
            pass
        elif k == "0":
            continue
        elif k.startswith("cond(") and k.endswith(")"):
            lits = _lits(k[5:-1], True)
            conj_sets = [c | l for c in conj_sets for l in lits]
        else:
            conj_sets = [c | frozenset({(f"truthy({k})", True)}) for c in conj_sets]
        for c in conj_sets:
            if not any((a, not pol) in c for a, pol in c):
                out.add(c)
    return frozenset(out)


def _split_top(s):
    parts, depth, cur = [], 0, ""
    for ch in s:
        if ch == "(":
            depth += 1
        elif ch == ")":
            depth -= 1
        if ch == "," and depth == 0:
            parts.append(cur)
            cur = ""
        else:
            cur += ch
    parts.append(cur)
    return parts


def _lits(ctext, taken):
    """list of alternative conjunctions (frozensets of literals) equivalent to ctext == taken"""
    if ctext.startswith("not(") and ctext.endswith(")"):
        return _lits(ctext[4:-1], not taken)
    if ctext.startswith("and(") and ctext.endswith(")"):
        parts = _split_top(ctext[4:-1])
        if taken:
            res = [frozenset()]
            for p in parts:
                res = [a | b for a in res for b in _lits(p, True)]
            return res
        out = []
        for p in parts:
            out += _lits(p, False)
        return out
    if ctext.startswith("or(") and ctext.endswith(")"):
        parts = _split_top(ctext[3:-1])
        if taken:
            out = []
            for p in parts:
                out += _lits(p, True)
            return out
        res = [frozenset()]
        for p in parts:
            res = [a | b for a in res for b in _lits(p, False)]
        return res
    return [frozenset({(ctext, taken)})]


def dnf_text(d):
    if d is None:
        return None
    return " | ".join(sorted(" & ".join(sorted((a if pol else f"!({a})") for a, pol in c)) for c in d))


def emptiness(fn, test, name):
    """True when `test` holds exactly when container `name` is empty, False when exactly when it is non-empty,
    None when the test is something else.  Recognised: len(x) <= 0, len(x) == 0, len(x) < 1, not x, not len(x) and the
    mirrored / negated forms."""
    t = test
    neg = False
    while isinstance(t, ast.UnaryOp) and isinstance(t.op, ast.Not):
        neg = not neg
        t = t.operand
    def is_len(e):
        return isinstance(e, ast.Call) and isinstance(e.func, ast.Name) and e.func.id == "len" and len(e.args) == 1 and isinstance(e.args[0], ast.Name) and e.args[0].id == name
    res = None
    if isinstance(t, ast.Name) and t.id == name or is_len(t):
        res = False
    elif isinstance(t, ast.Compare) and len(t.ops) == 1:
        l, op, r = t.left, t.ops[0], t.comparators[0]
        flip = {ast.Lt: ast.Gt, ast.Gt: ast.Lt, ast.LtE: ast.GtE, ast.GtE: ast.LtE, ast.Eq: ast.Eq, ast.NotEq: ast.NotEq}
        if is_len(r) and isinstance(l, ast.Constant):
            l, r, op = r, l, flip[type(op)]()
        if is_len(l) and isinstance(r, ast.Constant) and isinstance(r.value, int):
            k = r.value
            if (isinstance(op, ast.LtE) and k == 0) or (isinstance(op, ast.Eq) and k == 0) or (isinstance(op, ast.Lt) and k == 1):
                res = True
            elif (isinstance(op, ast.Gt) and k == 0) or (isinstance(op, ast.NotEq) and k == 0) or (isinstance(op, ast.GtE) and k == 1):
                res = False
    if res is None:
        return None
    return (not res) if neg else res


# ---------------------------------------------------------------- straight-line value reconstruction
class _SubstEnv(ast.NodeTransformer):
    def __init__(self, env):
        self.env = env
        self.bound = set()

    def visit_Name(self, node):
        if isinstance(node.ctx, ast.Load) and node.id in self.env and node.id not in self.bound:
            import copy
            return _clone(self.env[node.id])
        return node

    def _comp(self, node):
        saved = set(self.bound)
        for g in node.generators:
            g.iter = self.visit(g.iter)
            for t in ast.walk(g.target):
                if isinstance(t, ast.Name):
                    self.bound.add(t.id)
            g.ifs = [self.visit(i) for i in g.ifs]
        if hasattr(node, "elt"):
            node.elt = self.visit(node.elt)
        else:
            node.key = self.visit(node.key)
            node.value = self.visit(node.value)
        self.bound = saved
        return node

    visit_ListComp = visit_GeneratorExp = visit_SetComp = visit_DictComp = _comp

    def visit_Lambda(self, node):
        saved = set(self.bound)
        self.bound |= {a.arg for a in node.args.args}
        node.body = self.visit(node.body)
        self.bound = saved
        return node

    def visit_Attribute(self, node):
        d = dotted(node)
        if d is not None and d in self.env and isinstance(node.ctx, ast.Load):
            import copy
            return _clone(self.env[d])
        return self.generic_visit(node)


def straightline(stmts, env=None):
    """Sequential substitution through simple statements: returns (env, return-expression or None, rest) where env maps
    each local to its value expression over the names live at entry, and rest is the list of statements from the first
    compound statement on (empty when the block was straight-line to its return)."""
    import copy
    env = dict(env or {})
    for i, st in enumerate(stmts):
        if isinstance(st, ast.Expr) and isinstance(st.value, ast.Constant):
            continue
        if isinstance(st, ast.Pass):
            continue
        if isinstance(st, ast.Assign) and len(st.targets) == 1 and isinstance(st.targets[0], ast.Name):
            env[st.targets[0].id] = _SubstEnv(env).visit(_clone(st.value))
        elif isinstance(st, ast.AnnAssign) and isinstance(st.target, ast.Name) and st.value is not None:
            env[st.target.id] = _SubstEnv(env).visit(_clone(st.value))
        elif isinstance(st, ast.AugAssign) and isinstance(st.target, ast.Name):
            cur = _clone(env[st.target.id]) if st.target.id in env else ast.Name(id=st.target.id, ctx=ast.Load())
            env[st.target.id] = ast.BinOp(left=cur, op=st.op, right=_SubstEnv(env).visit(_clone(st.value)))
        elif isinstance(st, ast.Return):
            val = _SubstEnv(env).visit(_clone(st.value)) if st.value is not None else ast.Constant(value=None)
            return env, val, []
        else:
            return env, None, stmts[i:]
    return env, None, []


def canon_ast(e):
    """alpha-normalised text of an expression AST (list(genexp) = [listcomp])"""
    import copy
    e = _Alpha().visit(_clone(e))
    ast.fix_missing_locations(e)
    return " ".join(ast.unparse(e).split())


def straightline_return(fn):
    """canonical text of the value a straight-line function returns, in terms of its parameters; None when not straight-line"""
    env, val, rest = straightline(fn.body)
    if val is None:
        return None
    return canon_ast(val)


def emptiness_by(test, is_x):
    """like emptiness() but the container is identified by predicate is_x(expr); also accepts
    `x is None or len(x) <= 0` (an or of empty-tests) and `x is not None and len(x) > 0` (an and of non-empty tests)."""
    t = test
    neg = False
    while isinstance(t, ast.UnaryOp) and isinstance(t.op, ast.Not):
        neg = not neg
        t = t.operand

    def is_len(e):
        return isinstance(e, ast.Call) and isinstance(e.func, ast.Name) and e.func.id == "len" and len(e.args) == 1 and is_x(e.args[0])

    res = None
    if is_x(t) or is_len(t):
        res = False
    elif isinstance(t, ast.BoolOp):
        subs = [emptiness_by(v, is_x) for v in t.values]
        if isinstance(t.op, ast.Or) and all(v is True for v in subs):
            res = True
        elif isinstance(t.op, ast.And) and all(v is False for v in subs):
            res = False
    elif isinstance(t, ast.Compare) and len(t.ops) == 1:
        l, op, r = t.left, t.ops[0], t.comparators[0]
        if is_x(l) and isinstance(r, ast.Constant) and r.value is None and isinstance(op, (ast.Is, ast.Eq)):
            res = True
        elif is_x(l) and isinstance(r, ast.Constant) and r.value is None and isinstance(op, (ast.IsNot, ast.NotEq)):
            res = False
        else:
            flip = {ast.Lt: ast.Gt, ast.Gt: ast.Lt, ast.LtE: ast.GtE, ast.GtE: ast.LtE, ast.Eq: ast.Eq, ast.NotEq: ast.NotEq}
            if is_len(r) and isinstance(l, ast.Constant) and type(op) in flip:
                l, r, op = r, l, flip[type(op)]()
            if is_len(l) and isinstance(r, ast.Constant) and isinstance(r.value, int) and not isinstance(r.value, bool):
                k = r.value
                if (isinstance(op, ast.LtE) and k == 0) or (isinstance(op, ast.Eq) and k == 0) or (isinstance(op, ast.Lt) and k == 1):
                    res = True
                elif (isinstance(op, ast.Gt) and k == 0) or (isinstance(op, ast.NotEq) and k == 0) or (isinstance(op, ast.GtE) and k == 1):
                    res = False
    if res is None:
        return None
    return (not res) if neg else res


def grow_multiset(stmts, L, splice=False):
    """how list L grows in a statement block, as [(count expr or None for 1, element expr, node)]; None when some
    growth is not one of: L.append(E) | for _ in range(N): L.append(E) | L.extend(E for _ in range(N)) |
    L.extend([E] * N) | L += [E] * N | L += [E, ...]"""
    out = []

    def rng(it):
        if isinstance(it, ast.Call) and isinstance(it.func, ast.Name) and it.func.id == "range" and len(it.args) == 1 and not it.keywords:
            return it.args[0]
        return None

    def times(e):
        if isinstance(e, ast.BinOp) and isinstance(e.op, ast.Mult):
            for a, b in ((e.left, e.right), (e.right, e.left)):
                if isinstance(a, ast.List) and len(a.elts) == 1:
                    return b, a.elts[0]
        return None

    def seq(e, node):
        tm = times(e)
        if tm:
            out.append((tm[0], tm[1], node))
            return True
        if isinstance(e, (ast.GeneratorExp, ast.ListComp)) and len(e.generators) == 1 and not e.generators[0].ifs and rng(e.generators[0].iter) is not None:
            bound = {n.id for n in ast.walk(e.generators[0].target) if isinstance(n, ast.Name)}
            if not any(isinstance(n, ast.Name) and n.id in bound for n in ast.walk(e.elt)):
                out.append((rng(e.generators[0].iter), e.elt, node))
                return True
        if isinstance(e, ast.List):
            for x in e.elts:
                out.append((None, x, node))
            return True
        if splice:
            out.append((ast.Constant(value="*"), e, node))  # every element of the sequence e
            return True
        return False

    def visit(sts, mult):
        for st in sts:
            if isinstance(st, ast.For) and rng(st.iter) is not None and mult is None and not st.orelse:
                bound = {n.id for n in ast.walk(st.target) if isinstance(n, ast.Name)}
                before = len(out)
                if not visit(st.body, rng(st.iter)):
                    return False
                for c, e, n in out[before:]:
                    if any(isinstance(x, ast.Name) and x.id in bound for x in ast.walk(e)):
                        return False
                continue
            evs = list(grow_events(st, L))
            if not evs:
                if isinstance(st, (ast.For, ast.While, ast.If, ast.Try, ast.With)) and any(True for _ in grow_events(st, L)):
                    return False
                continue
            if len(evs) != 1 or not isinstance(st, (ast.Expr, ast.AugAssign, ast.Assign)):
                return False
            n, kind, v = evs[0]
            if kind == "append":
                out.append((mult, v, n))
            elif kind in ("extend", "iadd", "concat") and mult is None:
                if not seq(v, n):
                    return False
            else:
                return False
        return True

    return out if visit(stmts, None) else None


def straightline_ex(stmts, env=None, effect_havoc=None):
    """straightline() with attribute stores tracked (`self.a = e` binds the dotted name) and side-effect calls recorded.
    effect_havoc: callable(call node) -> iterable of dotted names whose value is unknown after that call (they are bound
    to the marker Name `<after:callee>`).  Returns dict(env, ret, rest, effects) where effects is the list of
    (substituted call expr, index of the statement)."""
    import copy
    env = dict(env or {})
    effects = []
    for i, st in enumerate(stmts):
        if isinstance(st, ast.Expr) and isinstance(st.value, ast.Constant):
            continue
        if isinstance(st, ast.Pass):
            continue
        tgt = None
        if isinstance(st, ast.Assign) and len(st.targets) == 1:
            tgt, val = st.targets[0], st.value
        elif isinstance(st, ast.AnnAssign) and st.value is not None:
            tgt, val = st.target, st.value
        elif isinstance(st, ast.AnnAssign) and st.value is None:
            continue
        if tgt is not None and isinstance(tgt, (ast.Tuple, ast.List)) and isinstance(val, (ast.Tuple, ast.List)) and len(tgt.elts) == len(val.elts) \
                and all(isinstance(t_, ast.Name) or (isinstance(t_, ast.Attribute) and dotted(t_)) for t_ in tgt.elts) \
                and not any(isinstance(v_, ast.Starred) for v_ in val.elts):
            # a, b = e1, e2: all right-hand sides are evaluated before any name is bound
            subs = [_SubstEnv(env).visit(_clone(v_)) for v_ in val.elts]
            for t_, sv in zip(tgt.elts, subs):
                env[t_.id if isinstance(t_, ast.Name) else dotted(t_)] = sv
            continue
        if tgt is not None:
            key = tgt.id if isinstance(tgt, ast.Name) else dotted(tgt)
            sub = _SubstEnv(env).visit(_clone(val))
            for c in ast.walk(sub):
                pass
            if key is not None:
                env[key] = sub
                continue
            if isinstance(tgt, ast.Subscript):
                effects.append((ast.Assign(targets=[_SubstEnv(env).visit(_clone(tgt))], value=sub), i))
                continue
            return {"env": env, "ret": None, "rest": stmts[i:], "effects": effects}
        if isinstance(st, ast.AugAssign):
            key = st.target.id if isinstance(st.target, ast.Name) else dotted(st.target)
            if key is None:
                return {"env": env, "ret": None, "rest": stmts[i:], "effects": effects}
            cur = _clone(env[key]) if key in env else _clone(st.target)
            if isinstance(cur, (ast.Name, ast.Attribute)):
                cur.ctx = ast.Load()
            env[key] = ast.BinOp(left=cur, op=st.op, right=_SubstEnv(env).visit(_clone(st.value)))
            continue
        if isinstance(st, ast.Expr) and isinstance(st.value, ast.Call):
            call = _SubstEnv(env).visit(_clone(st.value))
            effects.append((call, i))
            if effect_havoc is not None:
                for name in effect_havoc(st.value):
                    env[name] = ast.Name(id=f"<after:{norm(st.value.func)}>", ctx=ast.Load())
            continue
        if isinstance(st, ast.Return):
            val = _SubstEnv(env).visit(_clone(st.value)) if st.value is not None else ast.Constant(value=None)
            return {"env": env, "ret": val, "rest": [], "effects": effects}
        return {"env": env, "ret": None, "rest": stmts[i:], "effects": effects}
    return {"env": env, "ret": None, "rest": [], "effects": effects}


# numpy call signatures used by the filters: positional parameter names and defaults
_NP_SIG = {
    "concatenate": (["arrays", "axis"], {"axis": "0"}),
    "convolve": (["a", "v", "mode"], {"mode": "'full'"}),
    "zeros": (["shape", "dtype"], {"dtype": "np.float64"}),
    "asarray": (["a", "dtype"], {"dtype": "None"}),
}


class _NpCanon(ast.NodeTransformer):
    def visit_Call(self, node):
        self.generic_visit(node)
        f = node.func
        if isinstance(f, ast.Attribute) and isinstance(f.value, ast.Name) and f.value.id in ("np", "numpy") and f.attr in _NP_SIG \
                and not any(isinstance(a, ast.Starred) for a in node.args) and all(k.arg for k in node.keywords):
            params, defaults = _NP_SIG[f.attr]
            if len(node.args) <= len(params):
                bound = dict(zip(params, node.args))
                for k in node.keywords:
                    bound[k.arg] = k.value
                kws = []
                pos = []
                for i, p in enumerate(params):
                    if p not in bound:
                        continue
                    v = bound[p]
                    txt = " ".join(ast.unparse(v).split())
                    if p in defaults and txt in (defaults[p], defaults[p].replace("np.float64", "float"), defaults[p].replace("np.float64", "numpy.float64")):
                        continue
                    if p == "arrays" and isinstance(v, ast.Tuple):
                        v = ast.List(elts=v.elts, ctx=ast.Load())
                    if i == len(pos) and p not in defaults:
                        pos.append(v)
                    else:
                        kws.append(ast.keyword(arg=p, value=v))
                extra = [k for k in node.keywords if k.arg not in params]
                node = ast.Call(func=ast.Attribute(value=ast.Name(id="np", ctx=ast.Load()), attr=f.attr, ctx=ast.Load()), args=pos,
                                keywords=sorted(kws + extra, key=lambda k: k.arg))
        return node


def np_canon(e):
    """canon_ast with numpy calls in a normal form (defaults dropped, keywords for optional parameters, list of arrays)"""
    import copy
    e = _NpCanon().visit(_clone(e))
    ast.fix_missing_locations(e)
    return canon_ast(e)


# ---------------------------------------------------------------- aggregations over a sequence
class _Rename(ast.NodeTransformer):
    def __init__(self, mapping):
        self.m = mapping

    def visit_Name(self, node):
        if node.id in self.m:
            return ast.copy_location(ast.Name(id=self.m[node.id], ctx=node.ctx), node)
        return node


def _txt(e):
    return " ".join(ast.unparse(e).split())


def _loop_element_forms(loop, acc, fn):
    """body of `for v in S:` as straight-line code -> (iter text, env of substituted locals) or None"""
    if not isinstance(loop.target, ast.Name) or loop.orelse:
        return None
    sl = straightline_ex(loop.body)
    if sl["rest"] or sl["ret"] is not None:
        return None
    return sl


def sum_builder(fn, name):
    """canonical (iterable text, element text over `_c0`) when local `name` is the sum of one term per element of a sequence:
    `name = sum(<comprehension>)` or `name = 0; for v in S: ...; name += e`.  None when not of that form."""
    import copy
    asg = [a for a in own_nodes(fn) if isinstance(a, ast.Assign) and len(a.targets) == 1 and isinstance(a.targets[0], ast.Name) and a.targets[0].id == name]
    aug = [a for a in own_nodes(fn) if isinstance(a, ast.AugAssign) and isinstance(a.target, ast.Name) and a.target.id == name]
    if len(asg) != 1:
        return None
    v = asg[0].value
    if not aug and isinstance(v, ast.Call) and isinstance(v.func, ast.Name) and v.func.id == "sum" and len(v.args) == 1 and not v.keywords \
            and isinstance(v.args[0], (ast.ListComp, ast.GeneratorExp)) and len(v.args[0].generators) == 1 and not v.args[0].generators[0].ifs \
            and isinstance(v.args[0].generators[0].target, ast.Name):
        g = v.args[0].generators[0]
        elt = _Rename({g.target.id: "_c0"}).visit(_clone(v.args[0].elt))
        return _txt(_Inline(single_defs(fn)).visit(_clone(g.iter))), _txt(elt)
    if isinstance(v, ast.Constant) and v.value == 0 and len(aug) == 1 and isinstance(aug[0].op, ast.Add):
        loop = getattr(aug[0], "_parent", None)
        if isinstance(loop, ast.For) and isinstance(loop.target, ast.Name) and not loop.orelse and getattr(loop, "_parent", None) is fn:
            body = [st for st in loop.body if st is not aug[0]]
            if loop.body and loop.body[-1] is aug[0]:
                env, ret, rest = straightline(body)
                if not rest and ret is None:
                    e = _SubstEnv(env).visit(_clone(aug[0].value))
                    e = _Rename({loop.target.id: "_c0"}).visit(e)
                    return _txt(loop.iter), _txt(e)
    return None


def list_builder(fn, name):
    """canonical (iterable text, [(count text or None, element text over `_c0`)]) when local list `name` gets, per element of a
    sequence, a fixed pattern of entries: a comprehension (optionally with an inner `for _ in range(n)`), or
    `name = []; for v in S: ...; name.append(e) / name.extend([e] * n) / ...`.  None when not of that form."""
    import copy
    asg = [a for a in own_nodes(fn) if isinstance(a, (ast.Assign, ast.AnnAssign)) and
           ((isinstance(a, ast.Assign) and len(a.targets) == 1 and isinstance(a.targets[0], ast.Name) and a.targets[0].id == name) or
            (isinstance(a, ast.AnnAssign) and isinstance(a.target, ast.Name) and a.target.id == name and a.value is not None))]
    if len(asg) != 1:
        return None
    v = asg[0].value
    if isinstance(v, ast.Call) and isinstance(v.func, ast.Name) and v.func.id == "list" and len(v.args) == 1 and not v.keywords:
        v = v.args[0]
    if isinstance(v, ast.Call) and isinstance(v.func, ast.Name) and v.func.id == "map" and len(v.args) == 2 and not v.keywords \
            and isinstance(v.args[0], ast.Lambda) and len(v.args[0].args.args) == 1 and not v.args[0].args.defaults:
        # map(lambda x: E, S) is (E for x in S)
        lam = v.args[0]
        v = ast.GeneratorExp(elt=lam.body, generators=[ast.comprehension(target=ast.Name(id=lam.args.args[0].arg, ctx=ast.Store()), iter=v.args[1], ifs=[], is_async=0)])
    elif isinstance(v, ast.Call) and isinstance(v.func, ast.Name) and v.func.id == "map" and len(v.args) == 2 and not v.keywords \
            and isinstance(v.args[0], ast.Name):
        v = ast.GeneratorExp(elt=ast.Call(func=v.args[0], args=[ast.Name(id="_c0", ctx=ast.Load())], keywords=[]),
                             generators=[ast.comprehension(target=ast.Name(id="_c0", ctx=ast.Store()), iter=v.args[1], ifs=[], is_async=0)])
    if isinstance(v, (ast.ListComp, ast.GeneratorExp)):
        gens = v.generators
        if any(g.ifs for g in gens) or not isinstance(gens[0].target, ast.Name):
            return None
        ren = _Rename({gens[0].target.id: "_c0"})
        if len(gens) == 1:
            return _txt(gens[0].iter), [(None, _txt(ren.visit(_clone(v.elt))))]
        if len(gens) == 2 and isinstance(gens[1].iter, ast.Call) and isinstance(gens[1].iter.func, ast.Name) and gens[1].iter.func.id == "range" \
                and len(gens[1].iter.args) == 1:
            inner = {n.id for n in ast.walk(gens[1].target) if isinstance(n, ast.Name)}
            if not any(isinstance(n, ast.Name) and n.id in inner for n in ast.walk(v.elt)):
                return _txt(gens[0].iter), [(_txt(ren.visit(_clone(gens[1].iter.args[0]))), _txt(ren.visit(_clone(v.elt))))]
        return None
    empty = (isinstance(v, ast.List) and not v.elts) or (isinstance(v, ast.Call) and isinstance(v.func, ast.Name) and v.func.id == "list" and not v.args)
    if not empty:
        return None
    loops = [f for f in fn.body if isinstance(f, ast.For) and any(True for _ in grow_events(f, name))]
    others = [n for st in fn.body if not isinstance(st, ast.For) for n, k, vv in grow_events(st, name)]
    if len(loops) != 1 or others or not isinstance(loops[0].target, ast.Name) or loops[0].orelse:
        return None
    loop = loops[0]
    # split the body into plain local assignments and growth statements
    env = {}
    entries = []
    for st in loop.body:
        gm = grow_multiset([st], name, splice=True)
        if gm:
            for cnt, el, node in gm:
                c2 = _SubstEnv(env).visit(_clone(cnt)) if cnt is not None else None
                e2 = _SubstEnv(env).visit(_clone(el))
                ren = _Rename({loop.target.id: "_c0"})
                entries.append((_txt(ren.visit(c2)) if c2 is not None else None, _txt(ren.visit(e2))))
            continue
        if gm is None:
            return None
        if isinstance(st, (ast.Assign, ast.AnnAssign, ast.AugAssign)):
            env2, ret, rest = straightline([st], env)
            if rest or ret is not None:
                return None
            env = env2
        elif any(isinstance(n, ast.Name) and n.id == name for n in ast.walk(st)):
            return None  # the list is used by something this analysis does not model
        # other statements (effects on other variables) do not change what this list receives
    # single-definition constants of the enclosing function are folded in
    consts = {k: v for k, v in single_defs(fn).items() if isinstance(v, ast.Constant)} if hasattr(fn, "args") else {}
    if consts:
        entries = [(c if c is None else _txt(_Inline(consts).visit(ast.parse(c, mode="eval").body)), _txt(_Inline(consts).visit(ast.parse(e, mode="eval").body))) for c, e in entries]
    return _txt(loop.iter), entries


def returned_map(fn):
    """see _returned_map; a source that is itself `map(f, S)` with a plain function name f is folded into the element: (w, S, E[f(_c0)])"""
    r = _returned_map(fn)
    import re as _re
    while r is not None:
        m = _re.fullmatch(r"map\(([A-Za-z_][A-Za-z_0-9.]*), (.+)\)", r[1] or "")
        if not m or "(" in m.group(2).split(",")[0] and False:
            break
        r = (r[0], m.group(2), _re.sub(r"\b_c0\b", f"{m.group(1)}(_c0)", r[2]))
    return r


def _returned_map(fn):
    """what a function returns when that is one value per element of a sequence, in order:
    (wrapper, iterable text, element text over `_c0`) with wrapper None (a list) or "join:<sep>" (`sep.join(...)`); None otherwise"""
    rets = [r for r in own_nodes(fn) if isinstance(r, ast.Return)]
    if len(rets) != 1 or rets[0] is not fn.body[-1] or rets[0].value is None:
        return None
    e = rets[0].value
    wrapper = None

    def last_def(name):
        ds = [a for a in fn.body if (isinstance(a, ast.Assign) and len(a.targets) == 1 and isinstance(a.targets[0], ast.Name) and a.targets[0].id == name)
              or (isinstance(a, ast.AnnAssign) and isinstance(a.target, ast.Name) and a.target.id == name and a.value is not None)]
        alld = [a for a in own_nodes(fn) if isinstance(a, (ast.Assign, ast.AnnAssign, ast.AugAssign)) and
                any(isinstance(t, ast.Name) and t.id == name and isinstance(t.ctx, ast.Store) for t in ast.walk(a))]
        return ds[0].value if len(ds) == 1 and len(alld) == 1 else None

    for _ in range(4):
        if isinstance(e, ast.Call) and isinstance(e.func, ast.Attribute) and e.func.attr == "join" and isinstance(e.func.value, ast.Constant) \
                and isinstance(e.func.value.value, str) and len(e.args) == 1 and not e.keywords and wrapper is None:
            wrapper = "join:" + e.func.value.value
            e = e.args[0]
            continue
        if isinstance(e, ast.Name):
            lb = list_builder(fn, e.id)
            if lb is not None:
                it, entries = lb
                if len(entries) == 1 and entries[0][0] is None:
                    return wrapper, it, entries[0][1]
                return None
            d = last_def(e.id)
            if d is None:
                return None
            e = d
            continue
        break
    # an expression: evaluate it as the single definition of a scratch name
    import copy
    scratch = ast.FunctionDef(name="_", args=fn.args, body=[ast.Assign(targets=[ast.Name(id="_ret", ctx=ast.Store())], value=_clone(e))], decorator_list=[])
    ast.fix_missing_locations(scratch)
    lb = list_builder(scratch, "_ret")
    if lb is None:
        return None
    it, entries = lb
    if len(entries) == 1 and entries[0][0] is None:
        return wrapper, it, entries[0][1]
    return None


def fmt_parts(fn, e, keep=()):
    """a string-building expression as a list of parts: literal text (str) and ("expr", canonical text) for interpolated values.
    Handles f-strings, "..{}..".format(a, b) (auto / numbered positional fields, no format specs), "+" chains and
    "..%s.." % x.  Adjacent literals are merged.  None when the expression is something else."""
    import copy
    if fn is not None:
        e = _Inline(single_defs(fn), keep).visit(_clone(e))

    def lit(x):
        return isinstance(x, ast.Constant) and isinstance(x.value, str)

    def rec(x):
        if lit(x):
            return [x.value]
        if isinstance(x, ast.JoinedStr):
            out = []
            for v in x.values:
                if lit(v):
                    out.append(v.value)
                elif isinstance(v, ast.FormattedValue) and v.format_spec is None and v.conversion in (-1, 115):
                    out.append(("expr", canon_ast(v.value)))
                else:
                    return None
            return out
        if isinstance(x, ast.BinOp) and isinstance(x.op, ast.Add):
            a, b = rec(x.left), rec(x.right)
            if a is None and b is None:
                return None
            return (a if a is not None else [("expr", canon_ast(x.left))]) + (b if b is not None else [("expr", canon_ast(x.right))])
        if isinstance(x, ast.Call) and isinstance(x.func, ast.Attribute) and x.func.attr == "format" and lit(x.func.value) and not x.keywords:
            import string
            out, auto = [], 0
            try:
                for text, field, spec, conv in string.Formatter().parse(x.func.value.value):
                    if text:
                        out.append(text)
                    if field is None:
                        continue
                    if spec or conv not in (None, "s"):
                        return None
                    if field == "":
                        idx = auto
                        auto += 1
                    elif field.isdigit():
                        idx = int(field)
                    else:
                        return None
                    if idx >= len(x.args):
                        return None
                    sub_ = rec(x.args[idx])  # a literal, str(e) or nested format contributes its own parts
                    out += sub_ if sub_ is not None else [("expr", canon_ast(x.args[idx]))]
            except ValueError:
                return None
            return out
        if isinstance(x, ast.BinOp) and isinstance(x.op, ast.Mod) and lit(x.left):
            args = list(x.right.elts) if isinstance(x.right, ast.Tuple) else [x.right]
            pieces = x.left.value.split("%s")
            if len(pieces) != len(args) + 1 or "%" in "".join(pieces).replace("%%", ""):
                return None
            out = []
            for i, pz in enumerate(pieces):
                if pz:
                    out.append(pz.replace("%%", "%"))
                if i < len(args):
                    sub_ = rec(args[i])
                    out += sub_ if sub_ is not None else [("expr", canon_ast(args[i]))]
            return out
        if isinstance(x, ast.Call) and isinstance(x.func, ast.Name) and x.func.id == "str" and len(x.args) == 1 and not x.keywords:
            return [("expr", canon_ast(x.args[0]))]
        if isinstance(x, ast.Call) and isinstance(x.func, ast.Attribute) and x.func.attr == "join" and lit(x.func.value) and len(x.args) == 1 \
                and not x.keywords and isinstance(x.args[0], (ast.List, ast.Tuple)) and not any(isinstance(e_, ast.Starred) for e_ in x.args[0].elts):
            out = []
            for i, e_ in enumerate(x.args[0].elts):
                if i and x.func.value.value:
                    out.append(x.func.value.value)
                r = rec(e_)
                out += r if r is not None else [("expr", canon_ast(e_))]
            return out
        return None

    parts = rec(e)
    if parts is None:
        return None
    merged = []
    for pz in parts:
        if isinstance(pz, str) and merged and isinstance(merged[-1], str):
            merged[-1] += pz
        elif pz != "":
            merged.append(pz)
    return merged


def dict_items(fn, e):
    """{key: canonical value text} of a dict-valued expression: a dict literal with constant keys, `dict(k=v, ...)`, or a
    single-definition local bound to one of these; None otherwise"""
    defs = single_defs(fn) if fn is not None else {}
    for _ in range(3):
        if isinstance(e, ast.Name) and e.id in defs:
            e = defs[e.id]
        else:
            break
    if isinstance(e, ast.Name) and fn is not None:
        # an accumulator: d = {...} / dict(...) assigned once even when mutated later is not followed
        cands = [a.value for a in own_nodes(fn) if isinstance(a, (ast.Assign, ast.AnnAssign)) and a.value is not None
                 and norm(a.targets[0] if isinstance(a, ast.Assign) else a.target) == e.id]
        if len(cands) == 1:
            e = cands[0]
    if isinstance(e, ast.Dict) and all(isinstance(k, ast.Constant) for k in e.keys):
        return {k.value: canon_expr(fn, v) if fn is not None else canon_ast(v) for k, v in zip(e.keys, e.values)}
    if isinstance(e, ast.Call) and isinstance(e.func, ast.Name) and e.func.id == "dict" and not e.args and all(k.arg for k in e.keywords):
        return {k.arg: canon_expr(fn, k.value) if fn is not None else canon_ast(k.value) for k in e.keywords}
    return None


# ---------------------------------------------------------------- record construction (dict of fields -> Cls(**d) -> attribute stores)
def record_fields(fn, assume):
    """Follow how the object a function returns gets its fields.  Understands:  d = dict((f.name, copy.copy(getattr(X, f.name)))
    for f in fields(X)) and the equivalent loop (base = shallow copy of every field of X);  d[k] = v;  d.update({...} | dict
    variable);  obj = Cls(**d);  obj.a = v;  obj.a += v;  `if <test>:` decided by assume(test text) -> bool.
    Returns (record, order) for the returned variable: record maps field -> canonical value text, with '__base__' -> X and
    ('iadd', text) values for in-place extensions; order lists the fields in the order they were last written.  None when a
    statement is not understood."""
    dicts, objs = {}, {}
    order = []

    def is_copy_pair(k, v, var, X):
        return _txt(k) == f"{var}.name" and _txt(v) in (f"copy.copy(getattr({X}, {var}.name))", f"copy(getattr({X}, {var}.name))")

    def fields_of(it):
        if isinstance(it, ast.Call) and isinstance(it.func, ast.Name) and it.func.id == "fields" and len(it.args) == 1 and isinstance(it.args[0], ast.Name):
            return it.args[0].id
        return None

    def dict_value(v):
        # dict(<genexp of (name, copy) pairs over fields(X)>)  /  {f.name: copy.copy(getattr(X, f.name)) for f in fields(X)}
        if isinstance(v, ast.Call) and isinstance(v.func, ast.Name) and v.func.id == "dict" and len(v.args) == 1 and not v.keywords \
                and isinstance(v.args[0], (ast.GeneratorExp, ast.ListComp)) and len(v.args[0].generators) == 1:
            g = v.args[0].generators[0]
            X = fields_of(g.iter)
            e = v.args[0].elt
            if X and isinstance(g.target, ast.Name) and isinstance(e, ast.Tuple) and len(e.elts) == 2 and is_copy_pair(e.elts[0], e.elts[1], g.target.id, X) and not g.ifs:
                return {"__base__": X}
            if X and isinstance(g.target, ast.Name) and isinstance(e, ast.Tuple) and len(e.elts) == 2 and is_copy_pair(e.elts[0], e.elts[1], g.target.id, X) and len(g.ifs) == 1 \
                    and _txt(g.ifs[0]) == f"{X}.is_public_field({g.target.id}.name)":
                return {"__base__": X, "__public_only__": True}  # the fields whose names do not start with an underscore
        if isinstance(v, ast.DictComp) and len(v.generators) == 1:
            g = v.generators[0]
            X = fields_of(g.iter)
            if X and isinstance(g.target, ast.Name) and is_copy_pair(v.key, v.value, g.target.id, X) and not g.ifs:
                return {"__base__": X}
            if X and isinstance(g.target, ast.Name) and is_copy_pair(v.key, v.value, g.target.id, X) and len(g.ifs) == 1 and _txt(g.ifs[0]) == f"{X}.is_public_field({g.target.id}.name)":
                return {"__base__": X, "__public_only__": True}
        if isinstance(v, ast.Dict) and all(isinstance(k, ast.Constant) for k in v.keys):
            return {k.value: _txt(x) for k, x in zip(v.keys, v.values)}
        if isinstance(v, ast.Call) and isinstance(v.func, ast.Name) and v.func.id == "dict" and not v.args:
            return {k.arg: _txt(k.value) for k in v.keywords}
        return None

    def run(stmts):
        for st in stmts:
            if isinstance(st, ast.Expr) and isinstance(st.value, ast.Constant):
                continue
            if isinstance(st, (ast.Assign, ast.AnnAssign)) and getattr(st, "value", None) is not None:
                tgt = st.targets[0] if isinstance(st, ast.Assign) else st.target
                if isinstance(st, ast.Assign) and len(st.targets) != 1:
                    return False
                v = st.value
                if isinstance(tgt, ast.Name):
                    dv = dict_value(v)
                    if dv is not None:
                        dicts[tgt.id] = dv
                        continue
                    if isinstance(v, ast.Call) and norm(v.func) in ("replace", "dataclasses.replace", "copy.copy") and len(v.args) == 1 and isinstance(v.args[0], ast.Name) \
                            and all(k.arg for k in v.keywords):
                        # a shallow copy: every field not given anew is the very object the source holds (shared, not copied)
                        objs[tgt.id] = {"__base__": v.args[0].id, "__shared__": True, "__iadd_on_shared__": []}
                        for k in v.keywords:
                            objs[tgt.id][k.arg] = _txt(k.value)
                            order.append(k.arg)
                        continue
                    if isinstance(v, ast.Call) and isinstance(v.func, ast.Name) and v.func.id[:1].isupper() and not v.args and v.keywords and all(k.arg for k in v.keywords) \
                            and len(v.keywords) >= 3:
                        # obj = Cls(a=.., b=.., ..): every field is what the call gives it; a field not given keeps the class default
                        sd_ = single_defs(fn)
                        rec_ = {"__class__": _txt(v.func), "__explicit__": True}
                        for k in v.keywords:
                            kv_ = k.value
                            if isinstance(kv_, ast.Name) and kv_.id in sd_ and not isinstance(sd_[kv_.id], ast.Call):
                                kv_ = sd_[kv_.id]
                            elif isinstance(kv_, ast.Call) and any(isinstance(x_, ast.Name) and x_.id in sd_ for x_ in ast.walk(kv_)):
                                kv_ = _Inline(sd_, ()).visit(_clone(kv_))
                            rec_[k.arg] = _txt(kv_)
                            order.append(k.arg)
                        objs[tgt.id] = rec_
                        continue
                    if isinstance(v, ast.Call) and len(v.keywords) == 1 and v.keywords[0].arg is None and not v.args:
                        kv = v.keywords[0].value
                        src = dicts.get(kv.id) if isinstance(kv, ast.Name) else dict_value(kv)
                        if src is not None:
                            objs[tgt.id] = dict(src)
                            objs[tgt.id]["__class__"] = _txt(v.func)
                            continue
                    if isinstance(v, ast.Call) and not v.args and v.keywords and v.keywords[0].arg is None and all(k_.arg is not None for k_ in v.keywords[1:]):
                        # Cls(**copied, k=v, ..): the copied fields, then the ones given by name
                        kv = v.keywords[0].value
                        src = dicts.get(kv.id) if isinstance(kv, ast.Name) else dict_value(kv)
                        if src is not None:
                            objs[tgt.id] = dict(src)
                            objs[tgt.id]["__class__"] = _txt(v.func)
                            for k_ in v.keywords[1:]:
                                objs[tgt.id][k_.arg] = _txt(k_.value)
                                order.append(k_.arg)
                            continue
                    continue  # some other local
                if isinstance(tgt, ast.Subscript) and isinstance(tgt.value, ast.Name) and tgt.value.id in dicts and isinstance(tgt.slice, ast.Constant):
                    dicts[tgt.value.id][tgt.slice.value] = _txt(v)
                    continue
                if isinstance(tgt, ast.Attribute) and isinstance(tgt.value, ast.Name) and tgt.value.id in objs:
                    objs[tgt.value.id][tgt.attr] = _txt(v)
                    order.append(tgt.attr)
                    continue
                return False
            if isinstance(st, ast.AugAssign) and isinstance(st.op, ast.Add) and isinstance(st.target, ast.Attribute) and isinstance(st.target.value, ast.Name) \
                    and st.target.value.id in objs:
                o_ = objs[st.target.value.id]
                if o_.get("__shared__") and st.target.attr not in o_:
                    o_["__iadd_on_shared__"].append(st.target.attr)
                o_[st.target.attr] = ("iadd", _txt(st.value))
                order.append(st.target.attr)
                continue
            if isinstance(st, ast.Expr) and isinstance(st.value, ast.Call) and isinstance(st.value.func, ast.Attribute) and isinstance(st.value.func.value, ast.Name):
                recv, meth, call = st.value.func.value.id, st.value.func.attr, st.value
                if recv in dicts and meth == "update" and len(call.args) == 1:
                    other = dict_value(call.args[0]) if not isinstance(call.args[0], ast.Name) else dicts.get(call.args[0].id)
                    if other is None or "__base__" in other:
                        return False
                    dicts[recv].update(other)
                    continue
                if isinstance(st.value.func.value, ast.Attribute):
                    pass
                return False
            if isinstance(st, ast.Expr) and isinstance(st.value, ast.Call) and isinstance(st.value.func, ast.Attribute) and isinstance(st.value.func.value, ast.Attribute) \
                    and isinstance(st.value.func.value.value, ast.Name) and st.value.func.value.value.id in objs and st.value.func.attr == "extend" and len(st.value.args) == 1:
                o_ = objs[st.value.func.value.value.id]
                if o_.get("__shared__") and st.value.func.value.attr not in o_:
                    o_["__iadd_on_shared__"].append(st.value.func.value.attr)
                o_[st.value.func.value.attr] = ("iadd", _txt(st.value.args[0]))
                order.append(st.value.func.value.attr)
                continue
            if isinstance(st, ast.For) and isinstance(st.target, ast.Name) and fields_of(st.iter) and len(st.body) == 1 and isinstance(st.body[0], ast.Assign) \
                    and isinstance(st.body[0].targets[0], ast.Subscript) and isinstance(st.body[0].targets[0].value, ast.Name) \
                    and st.body[0].targets[0].value.id in dicts and not dicts[st.body[0].targets[0].value.id] \
                    and is_copy_pair(st.body[0].targets[0].slice, st.body[0].value, st.target.id, fields_of(st.iter)):
                dicts[st.body[0].targets[0].value.id]["__base__"] = fields_of(st.iter)
                continue
            if isinstance(st, ast.If):
                t = assume(_txt(st.test))
                if t is None:
                    return False
                if run(st.body if t else st.orelse) is False:
                    return False
                continue
            if isinstance(st, ast.Return):
                if isinstance(st.value, ast.Name) and st.value.id in objs:
                    dicts["<return>"] = objs[st.value.id]
                    dicts["<return>"]["__var__"] = st.value.id
                    return True
                return False
            return False
        return None

    body = [x for x in fn.body]
    r = run(body)
    if r is not True:
        return None
    return dicts["<return>"], order


def bool_eval(test, atom):
    """three-valued evaluation of a boolean expression with Python's short-circuit order: atom(node) -> True / False / None
    (not an atom) / "undef" (evaluating it would fail).  Returns True / False / None (unknown) / "undef"."""
    if isinstance(test, ast.UnaryOp) and isinstance(test.op, ast.Not):
        v = bool_eval(test.operand, atom)
        return (not v) if isinstance(v, bool) else v
    if isinstance(test, ast.BoolOp):
        is_and = isinstance(test.op, ast.And)
        unknown = False
        for v_ in test.values:
            v = bool_eval(v_, atom)
            if v == "undef":
                return "undef"
            if v is None:
                unknown = True
                continue
            if is_and and v is False:
                return None if unknown else False
            if not is_and and v is True:
                return None if unknown else True
        return None if unknown else is_and
    return atom(test)


def _returned_value(fn, stmts):
    """canonical text of what the statement list returns: the return expression, a returned local resolved through its last
    top-level assignment in that list"""
    rets = [r for r in stmts if isinstance(r, ast.Return) and r.value is not None]
    if not rets:
        return None
    v = rets[-1].value
    if isinstance(v, ast.Name):
        defs = [a.value for a in stmts if isinstance(a, ast.Assign) and len(a.targets) == 1 and isinstance(a.targets[0], ast.Name) and a.targets[0].id == v.id]
        if defs:
            v = defs[-1]
    return canon_ast(v)


def emitted_lines(fn, stmts=None):
    """The text a function assembles line by line, as a sequence of ("one", canonical expr) / ("each", iterable, canonical
    element over `_c0`) items.  Two shapes are understood (after any leading guard returns, which the caller handles):
    a buffer object that receives `.write(<line> + "\n")` calls (plain statements and simple for-loops) and is finally read with
    `.getvalue()`; or a list of lines (literal, append, extend, comprehension) finally joined with "\n" per line.
    None when the code has another shape."""
    import copy
    stmts = list(fn.body if stmts is None else stmts)
    seq = []
    nl = lambda e: isinstance(e, ast.Constant) and e.value == "\n"

    def line_of(arg):
        # X + "\n"
        if isinstance(arg, ast.BinOp) and isinstance(arg.op, ast.Add) and nl(arg.right):
            return arg.left
        return None

    bufs = {a.targets[0].id for a in stmts if isinstance(a, ast.Assign) and len(a.targets) == 1 and isinstance(a.targets[0], ast.Name)
            and isinstance(a.value, ast.Call) and _txt(a.value.func) in ("StringIO", "io.StringIO")}
    if bufs:
        buf = sorted(bufs)[0]
        for st in stmts:
            writes = [c for c in ast.walk(st) if isinstance(c, ast.Call) and isinstance(c.func, ast.Attribute) and c.func.attr == "write"
                      and isinstance(c.func.value, ast.Name) and c.func.value.id == buf]
            if not writes:
                continue
            if isinstance(st, ast.Expr) and st.value is writes[0] and len(writes) == 1:
                ln = line_of(writes[0].args[0]) if len(writes[0].args) == 1 else None
                if ln is None:
                    return None
                seq.append(("one", canon_expr(fn, ln)))
            elif isinstance(st, ast.For) and isinstance(st.target, ast.Name) and len(st.body) == 1 and isinstance(st.body[0], ast.Expr) \
                    and st.body[0].value is writes[0] and len(writes) == 1 and not st.orelse:
                ln = line_of(writes[0].args[0]) if len(writes[0].args) == 1 else None
                if ln is None:
                    return None
                seq.append(("each", canon_expr(fn, st.iter), _txt(_Rename({st.target.id: "_c0"}).visit(_clone(ln)))))
            else:
                return None
        if _returned_value(fn, stmts) != f"{buf}.getvalue()":
            return None
        return seq
    # list-of-lines shape
    lists = [a.targets[0].id for a in stmts if isinstance(a, ast.Assign) and len(a.targets) == 1 and isinstance(a.targets[0], ast.Name) and isinstance(a.value, ast.List)]
    for L in lists:
        seq = []
        ok = True
        for st in stmts:
            if isinstance(st, ast.Assign) and len(st.targets) == 1 and isinstance(st.targets[0], ast.Name) and st.targets[0].id == L and isinstance(st.value, ast.List):
                seq = [("one", canon_expr(fn, e)) for e in st.value.elts]
                continue
            evs = list(grow_events(st, L))
            if not evs:
                continue
            if len(evs) != 1 or not isinstance(st, (ast.Expr, ast.AugAssign)):
                ok = False
                break
            n, kind, v = evs[0]
            if kind == "append":
                seq.append(("one", canon_expr(fn, v)))
            elif kind in ("extend", "iadd") and isinstance(v, (ast.ListComp, ast.GeneratorExp)) and len(v.generators) == 1 and not v.generators[0].ifs \
                    and isinstance(v.generators[0].target, ast.Name):
                g = v.generators[0]
                seq.append(("each", canon_expr(fn, g.iter), _txt(_Rename({g.target.id: "_c0"}).visit(_clone(v.elt)))))
            elif kind in ("extend", "iadd") and isinstance(v, ast.List):
                seq += [("one", canon_expr(fn, e)) for e in v.elts]
            else:
                ok = False
                break
        if not ok:
            continue
        rv = _returned_value(fn, stmts)
        if rv is None:
            continue
        joined = (f"''.join([_c0 + '\\n' for _c0 in {L}])", f"''.join((_c0 + '\\n' for _c0 in {L}))", f"'\\n'.join({L}) + '\\n'")
        if rv in joined:
            return seq
    return None


# ---------------------------------------------------------------- decision tables over classified predicates
class _FuseComp(ast.NodeTransformer):
    """{k: f(v) for k, v in ((a(x), b(x)) for x in S)}  ->  {a(x): f(b(x)) for x in S}   (same for list / generator forms)"""

    def _fuse(self, node):
        self.generic_visit(node)
        if len(node.generators) != 1:
            return node
        g = node.generators[0]
        inner = g.iter
        if isinstance(g.target, ast.Tuple) and isinstance(inner, (ast.GeneratorExp, ast.ListComp)) and len(inner.generators) == 1 and not g.ifs \
                and isinstance(inner.elt, ast.Tuple) and len(inner.elt.elts) == len(g.target.elts) and all(isinstance(t, ast.Name) for t in g.target.elts):
            import copy
            m = {t.id: e for t, e in zip(g.target.elts, inner.elt.elts)}

            class S(ast.NodeTransformer):
                def visit_Name(self, n):
                    if n.id in m and isinstance(n.ctx, ast.Load):
                        return _clone(m[n.id])
                    return n

            if hasattr(node, "elt"):
                node.elt = S().visit(node.elt)
            else:
                node.key = S().visit(node.key)
                node.value = S().visit(node.value)
            node.generators = inner.generators
        return node

    visit_DictComp = visit_ListComp = visit_GeneratorExp = visit_SetComp = _fuse


def canon_value(e):
    import copy
    e = _FuseComp().visit(_clone(e))
    ast.fix_missing_locations(e)
    return canon_ast(e)


def path_return(p):
    """canonical text of the value returned on symexec path p, by sequential substitution of the plain local assignments made
    on that path (parameters and attribute reads stay symbolic)"""
    import copy
    if hasattr(p, "_path_return"):
        return p._path_return
    p._path_return = None
    env = {}
    for s_ in p.steps:
        st = s_.ast
        if s_.kind == "stmt" and isinstance(st, ast.Assign) and len(st.targets) == 1 and isinstance(st.targets[0], ast.Name):
            env[st.targets[0].id] = _SubstEnv(env).visit(_clone(st.value))
        elif s_.kind == "stmt" and isinstance(st, ast.AnnAssign) and isinstance(st.target, ast.Name) and st.value is not None:
            env[st.target.id] = _SubstEnv(env).visit(_clone(st.value))
        elif s_.kind == "for" and isinstance(st, ast.For):
            for t in ast.walk(st.target):
                if isinstance(t, ast.Name):
                    env.pop(t.id, None)
    if p.ret_node is None or p.ret_node.value is None:
        return None
    p._path_return_ast = _SubstEnv(env).visit(_clone(p.ret_node.value))
    p._path_return = canon_value(p._path_return_ast)
    return p._path_return


def path_return_ast(p):
    """the expression behind path_return(p) (an AST), or None"""
    path_return(p)
    return getattr(p, "_path_return_ast", None)


def path_tests(p):
    """[(test AST with the path's plain local assignments substituted, taken)] for the branch tests on path p"""
    import copy
    env = {}
    out = []
    for s_ in p.steps:
        st = s_.ast
        if s_.kind == "stmt" and isinstance(st, ast.Assign) and len(st.targets) == 1 and isinstance(st.targets[0], ast.Name):
            env[st.targets[0].id] = _SubstEnv(env).visit(_clone(st.value))
        elif s_.kind == "test" and s_.label in ("true", "false") and st is not None and hasattr(st, "test"):
            out.append((_SubstEnv(env).visit(_clone(st.test)), s_.label == "true"))
    return out


def decision_table(paths, atoms):
    """atoms: {name: recogniser(node) -> True (the atom) / False (its negation) / None}.  For every truth assignment of the atoms,
    the set of paths whose every test evaluates (three-valued, short-circuit) to the branch the path took.
    Returns {assignment tuple: [path, ...]} and the list of tests no atom explains."""
    import itertools
    names = sorted(atoms)
    table = {}
    unknown = []
    tests_of = {id(p): path_tests(p) for p in paths}
    for vals in itertools.product((True, False), repeat=len(names)):
        asg = dict(zip(names, vals))

        def atom(node):
            for nm in names:
                r = atoms[nm](node)
                if r is not None:
                    return asg[nm] == r
            return None

        feas = []
        for p in paths:
            ok = True
            for tst, taken in tests_of[id(p)]:
                v = bool_eval(tst, atom)
                if v is None or v == "undef":
                    if _txt(tst) not in unknown:
                        unknown.append(_txt(tst))
                    ok = False
                    break
                if v != taken:
                    ok = False
                    break
            if ok:
                feas.append(p)
        table[vals] = feas
    return names, table, unknown
