"""Shared helpers for rules."""
import ast

from ..core.loader import AnalysisError, dotted, norm, own_nodes, where
from ..core.terms import Evaluator, Term, cmp_struct, holds_at, same_cmp, NEG
from ..core.symexec import run_paths, calls_on


def evaluator(ctx, fn, env, this_names=("this",)):
    mod = getattr(fn, "_module", None)
    e = Evaluator(env=env, const_of=ctx.folder.const_of(mod) if mod else None, this_names=this_names)
    par = getattr(fn, "_parent", None)
    if isinstance(par, ast.ClassDef) and any(isinstance(d, ast.Name) and d.id == "classmethod" for d in getattr(fn, "decorator_list", [])):
        e.owner = par.name
    return e


def call_dotted(call):
    return dotted(call.func) if isinstance(call.func, (ast.Attribute, ast.Name)) else None


def rdotted(call, env):
    """dotted text of the callee with a local alias of the receiver resolved through the path environment
    (`parent = self.substream; parent.seek(..)` -> 'self.substream.seek')"""
    f = call.func
    d = dotted(f) if isinstance(f, (ast.Attribute, ast.Name)) else None
    if d is None or not isinstance(f, ast.Attribute):
        return d
    base = f
    chain = []
    while isinstance(base, ast.Attribute):
        chain.append(base.attr)
        base = base.value
    if isinstance(base, ast.Name) and base.id in env:
        t = env[base.id]
        if isinstance(t, Term) and len(t.p) == 1:
            (k, c), = t.p.items()
            if c == 1 and len(k) == 1 and all(part.isidentifier() for part in k[0].split(".")):
                return k[0] + "." + ".".join(reversed(chain))
    return d


def truth_of(p, name):
    """(truth, argument key) of the test `name(arg)` on symexec path p (not(...) wrappers resolved), or None"""
    for c, t, _ in p.conds:
        neg = False
        x = c
        while x.startswith("not(") and x.endswith(")"):
            x, neg = x[4:-1], not neg
        if x.startswith(f"truthy({name}(") and x.endswith("))"):
            return (t != neg), x[len(f"truthy({name}("):-2]
    return None


def regex_value(ctx, node, mod, rule, at):
    """(pattern, flags) of an expression that evaluates to a compiled regex: re.compile(<const>, <flags>) directly, through
    module constants, or through a straight-line helper that builds the pattern"""
    from ..core.consts import RegexVal, NotConst
    try:
        v = ctx.folder.ev(node, mod)
    except NotConst as e:
        raise AnalysisError(rule, at, f"not a constant compiled regex: {e}")
    if not isinstance(v, RegexVal):
        raise AnalysisError(rule, at, "not a re.compile(...) value")
    return v.pattern, v.flags


def call_parts(key):
    """'f(a,b,k=c)' (a canonical call term key, keywords already folded into their positions where the signature is
    known) -> ('f', ['a', 'b'], {'k': 'c'})"""
    from ..core.terms import _split_top
    if not key.endswith(")") or "(" not in key:
        return key, [], {}
    depth = 0
    start = None
    for i, ch in enumerate(key):
        if ch == "(":
            if depth == 0 and start is None:
                start = i
            depth += 1
        elif ch == ")":
            depth -= 1
            if depth == 0 and i != len(key) - 1:
                start = None  # not the final call: e.g. (x).f(...)
    if start is None:
        return key, [], {}
    inner = key[start + 1:-1]
    pos, kw = [], {}
    for part in (_split_top(inner, ",") if inner else []):
        import re as _re
        m = _re.match(r"^([A-Za-z_][A-Za-z_0-9]*)=(?!=)(.*)$", part)
        if m:
            kw[m.group(1)] = m.group(2)
        else:
            pos.append(part)
    return key[:start], pos, kw


def is_super_call(call, name=None):
    f = call.func
    return isinstance(f, ast.Attribute) and isinstance(f.value, ast.Call) and isinstance(f.value.func, ast.Name) \
        and f.value.func.id == "super" and (name is None or f.attr == name)


def path_conds_struct(ctx, fn, pr):
    """[(Term d, op, taken, test node)] for the simple comparisons on a path"""
    out = []
    for s in pr.steps:
        if s.kind == "test" and s.label in ("true", "false") and s.ast is not None:
            ev = evaluator(ctx, fn, s.env)
            cs = cmp_struct(ev, s.ast.test)
            if cs is not None:
                out.append((cs[0], cs[1], s.label == "true", s.ast))
                continue
            # truthiness of a plain value: for the numeric quantities the rules ask about, `if x` is `x != 0`
            t_, neg = s.ast.test, False
            while isinstance(t_, ast.UnaryOp) and isinstance(t_.op, ast.Not):
                t_, neg = t_.operand, not neg
            if isinstance(t_, (ast.Name, ast.Attribute)):
                out.append((ev.ev(t_), "==" if neg else "!=", s.label == "true", s.ast))
    return out


def cond_taken(conds, d, op):
    """is the constraint `d op 0` known to hold on the path (as one of its simple comparisons)?"""
    for dd, oo, taken, _ in conds:
        c = (dd, oo if taken else NEG[oo])
        if same_cmp(c, (d, op)):
            return True
    return False


def find_try_handler(node, stop, exc_names):
    """innermost enclosing Try (below `stop`) whose body contains node and that has a handler for one
    of exc_names -> handler or None"""
    t = node
    while t is not None and t is not stop:
        par = getattr(t, "_parent", None)
        if isinstance(par, ast.Try) and any(b is t or any(n is t for n in ast.walk(b)) for b in par.body):
            for h in par.handlers:
                if h.type is None:
                    return h
                if any(n in exc_names for n in handler_names(h)):
                    return h
        t = par
    return None


def _module_of(node):
    n = node
    while n is not None:
        if hasattr(n, "_module") and isinstance(n, ast.Module):
            return n._module
        if isinstance(n, ast.Module):
            return getattr(n, "_module", None)
        n = getattr(n, "_parent", None)
    return None


def handler_names(h, dotted_names=False):
    """exception class names an `except` clause catches; a name bound at module level to a tuple of exception classes
    (`_ERRORS = (A, B)` ... `except _ERRORS`) is expanded"""
    if h.type is None:
        return ["<bare>"]
    out = []
    mod = _module_of(h)

    def add(n, depth=0):
        if isinstance(n, ast.Tuple):
            for e in n.elts:
                add(e, depth)
            return
        if isinstance(n, ast.Name) and mod is not None and depth < 3:
            b = mod.env.get(n.id)
            if b and b[0] == "assign" and isinstance(b[1], (ast.Tuple, ast.Name)):
                add(b[1], depth + 1)
                return
        out.append((dotted(n) or "?") if dotted_names else (dotted(n) or "?").split(".")[-1])

    add(h.type)
    return out


def raises_in(body):
    """names of exceptions raised by the last statement of a handler/branch body"""
    out = []
    for st in body:
        for n in ast.walk(st):
            if isinstance(n, ast.Raise) and n.exc is not None:
                e = n.exc.func if isinstance(n.exc, ast.Call) else n.exc
                out.append((dotted(e) or "?").split(".")[-1])
    return out


def single_return_term(ctx, fn, env0, rule):
    """Term returned by a function all of whose normal paths return the same term (else None)"""
    prs = [p for p in run_paths(ctx, fn, env0=env0, rule=rule) if p.end == "return"]
    terms = {p.ret for p in prs if p.ret is not None}
    if len(terms) == 1:
        return terms.pop()
    return None


def norm_conds(pr):
    """[(condition text without leading not(...) wrappers, truth of that text on the path)]"""
    out = []
    for c, t, _ in pr.conds:
        while c.startswith("not(") and c.endswith(")"):
            c, t = c[4:-1], not t
        out.append((c, t))
    return out


def atomic_facts(pr):
    """[(atomic condition text, truth)] known on the path: a true `and(..)` makes every conjunct true, a false `or(..)` makes every
    disjunct false (other compound conditions are kept whole)"""
    from ..core.terms import _split_top
    out = []

    def add(c, t):
        while c.startswith("not(") and c.endswith(")"):
            c, t = c[4:-1], not t
        if c.startswith("and(") and c.endswith(")") and t:
            for part in _split_top(c[4:-1], ","):
                add(part, True)
        elif c.startswith("or(") and c.endswith(")") and not t:
            for part in _split_top(c[3:-1], ","):
                add(part, False)
        else:
            out.append((c, t))

    for c, t, _ in pr.conds:
        add(c, t)
    return out


def path_call_keys(ctx, fn, rule, ends=("return", "fall"), limit=4000, include_exc=False):
    """[[canonical call term keys in execution order] for every path of fn that ends normally]"""
    out = []
    for p in run_paths(ctx, fn, rule=rule, limit=limit, include_exc=include_exc):
        if p.end not in ends:
            continue
        out.append([evaluator(ctx, fn, e).ev(c).key() for c, e, st in calls_on(p)])
    return out


def every_path_calls(ctx, fn, rule, key, ends=("return", "fall")):
    """does every normally ending path of fn make a call whose canonical term is `key` (a string or a predicate)?"""
    ks = path_call_keys(ctx, fn, rule, ends)
    pred = key if callable(key) else (lambda k: k == key)
    return bool(ks) and all(any(pred(k) for k in path) for path in ks)


def return_keys(ctx, fn, rule):
    """set of canonical terms returned on the paths of fn (None for a bare return / falling off the end)"""
    out = set()
    for p in run_paths(ctx, fn, rule=rule, limit=4000):
        if p.end == "return":
            out.add(p.ret.key() if p.ret is not None else None)
        elif p.end == "fall":
            out.add(None)
    return out


def positional_args(ctx, mod, call):
    """the argument expressions of `call` in the callee's parameter order, keywords put in their places (callee: a function or a class
    of the package - its __init__ through the MRO); the call's own positional list when the callee or a keyword cannot be resolved"""
    f = call.func
    if not isinstance(f, ast.Name) or any(isinstance(a, ast.Starred) for a in call.args) or any(k.arg is None for k in call.keywords):
        return list(call.args)
    r = ctx.prog.resolve(mod, f.id)
    fn = None
    if r and r[0] == "func":
        fn, skip = r[1], 0
    elif r and r[0] == "class":
        for c in ctx.prog.mro(r[1]):
            for st in c.body:
                if isinstance(st, ast.FunctionDef) and st.name == "__init__":
                    fn, skip = st, 1
                    break
            if fn is not None:
                break
    if fn is None or fn.args.vararg or fn.args.kwarg:
        return list(call.args)
    params = [a.arg for a in fn.args.posonlyargs + fn.args.args][skip:]
    out = list(call.args)
    if len(out) > len(params):
        return list(call.args)
    kw = {k.arg: k.value for k in call.keywords}
    for p_ in params[len(out):]:
        if p_ in kw:
            out.append(kw.pop(p_))
        else:
            break
    return out if not kw else list(call.args)
