"""B1 CHAR-MAPS, B2 NOTE-TABLES, B3 TUNE-INVERSE  (C18)."""
import ast
from ..core.loader import clone as _clone
from fractions import Fraction

from ..core.loader import AnalysisError, dotted, norm, own_nodes, where, full
from ..core.terms import Evaluator, Term, cmp_struct
from ..core.symexec import run_paths, calls_on
from ..core.consts import NotConst, EnumVal
from ..core import rx
from .util import evaluator, path_conds_struct, cond_taken, raises_in, find_try_handler

DT = "smpl_extract/akai/data_types.py"
AS = "smpl_extract/akai/akai_string.py"
MIDI = "smpl_extract/midi.py"
A = Term.atom
C = Term.const

RANGES = (("ZERO", "NINE", "0", "9", 0x00, 0x09), ("A", "Z", "A", "Z", 0x0B, 0x24))
SYMBOLS = (("SPACE", " ", 0x0A), ("POUND", "#", 0x25), ("PLUS", "+", 0x26), ("MINUS", "-", 0x27), ("PERIOD", ".", 0x28))


def _maps(ctx):
    out = {}
    for nm in ["ZERO", "NINE", "A", "Z"] + [s[0] for s in SYMBOLS]:
        v = ctx.const(DT, "CHAR_MAP_" + nm, "B1")
        if not isinstance(v, dict):
            raise AnalysisError("B1", f"{DT}:CHAR_MAP_{nm}", "not a dict literal")
        d = {}
        for k, x in v.items():
            d[k.name if isinstance(k, EnumVal) else str(k)] = x
        out[nm] = d
    return out


def rule_B1(ctx):
    maps = _maps(ctx)
    node = ctx.prog.assigned(DT, "CHAR_MAP_ZERO", "B1")
    for lo, hi, clo, chi, alo, ahi in RANGES:
        ok = maps[lo] == {"ASCII": ord(clo), "AKAI": alo} and maps[hi] == {"ASCII": ord(chi), "AKAI": ahi}
        ctx.ob("B1", ctx.prog.assigned(DT, "CHAR_MAP_" + lo), f"range {clo}..{chi}: ASCII {ord(clo)}..{ord(chi)} <-> AKAI {alo:#x}..{ahi:#x}", ok,
               f"{maps[lo]} {maps[hi]}", inst=f"range:{lo}", file=DT, qualname="<module>")
        w1 = maps[hi]["ASCII"] - maps[lo]["ASCII"]
        w2 = maps[hi]["AKAI"] - maps[lo]["AKAI"]
        ctx.ob("B1", node, f"range {clo}..{chi} has the same width in both character sets", w1 == w2, f"{w1} vs {w2}", inst=f"width:{lo}", file=DT, qualname="<module>")
    for nm, ch, ak in SYMBOLS:
        ok = maps[nm] == {"ASCII": ord(ch), "AKAI": ak}
        ctx.ob("B1", ctx.prog.assigned(DT, "CHAR_MAP_" + nm), f"symbol {ch!r}: ASCII {ord(ch)} <-> AKAI {ak:#x}", ok, f"{maps[nm]}", inst=f"symbol:{nm}", file=DT, qualname="<module>")
    for fmt in ("ASCII", "AKAI"):
        vals = []
        for lo, hi, *_ in RANGES:
            vals += list(range(maps[lo][fmt], maps[hi][fmt] + 1))
        vals += [maps[s[0]][fmt] for s in SYMBOLS]
        ok = len(vals) == 41 and len(set(vals)) == 41
        ctx.ob("B1", node, f"{fmt}: the two ranges and five symbols are 41 pairwise distinct codes", ok, f"{len(vals)} codes, {len(set(vals))} distinct", inst=f"disjoint:{fmt}", file=DT, qualname="<module>")
    # generic converter (used for encoding): symbolic in src_fmt/dst_fmt
    fn = ctx.fn(AS, "_char_format_convert_byte", "B1")
    b, sf, df = [a.arg for a in fn.args.args]
    prs = run_paths(ctx, fn, rule="B1")
    seen = set()
    for p in prs:
        if p.end != "return":
            continue
        for lo, hi, *_ in RANGES:
            slo, shi, dlo = A(f"sub(CHAR_MAP_{lo},{sf})"), A(f"sub(CHAR_MAP_{hi},{sf})"), A(f"sub(CHAR_MAP_{lo},{df})")
            if p.ret == A(b) + dlo - slo:
                conds = path_conds_struct(ctx, fn, p)
                txt = [c for c, t, _ in p.conds if t]
                ok = any(f"sub(CHAR_MAP_{lo},{sf})" in c and f"sub(CHAR_MAP_{hi},{sf})" in c and c.startswith("and(") for c in txt)
                seen.add(lo)
                ctx.ob("B1", p.ret_node, f"generic converter: a byte inside [{lo}..{hi}] of the source set maps to dst_{lo} + (byte - src_{lo})", ok,
                       "" if ok else f"guard {txt} does not bound the byte by the same range", inst=f"generic-range:{lo}")
    for lo, hi, *_ in RANGES:
        if lo not in seen:
            ctx.ob("B1", fn, f"generic converter handles the range {lo}..{hi} by offsetting within the same map entries", False, "no such return path", inst=f"generic-range:{lo}")
    _symbol_map(ctx, fn, sf, df, "generic")
    ok = any(p.end == "raise" and (p.raised or "").endswith("InvalidCharacter") for p in prs)
    ctx.ob("B1", fn, "generic converter rejects every other byte (InvalidCharacter)", ok, "", inst="generic-reject")
    # fast decoder: constants folded
    fd = ctx.fn(AS, "_fast_akai_to_ascii_byte", "B1")
    b = fd.args.args[0].arg
    prs = run_paths(ctx, fd, rule="B1", fold=True)
    for lo, hi, *_ in RANGES:
        off = maps[lo]["ASCII"] - maps[lo]["AKAI"]
        hit = False
        for p in prs:
            if p.end == "return" and p.ret == A(b) + C(off):
                want = f"and({b} >= 0,-{maps[hi]['AKAI']} + {b} <= 0)" if maps[lo]["AKAI"] == 0 else f"and(-{maps[hi]['AKAI']} + {b} <= 0,-{maps[lo]['AKAI']} + {b} >= 0)"
                g = [c for c, t, _ in p.conds if t and c.startswith("and(")]
                ok = any(sorted(c[4:-1].split(",")) == sorted(want[4:-1].split(",")) for c in g)
                hit = True
                ctx.ob("B1", p.ret_node, f"decoder: AKAI {maps[lo]['AKAI']:#x}..{maps[hi]['AKAI']:#x} -> byte {off:+d}", ok, f"guards {g}", inst=f"fast-range:{lo}")
        if not hit:
            ctx.ob("B1", fd, f"decoder maps AKAI {maps[lo]['AKAI']:#x}..{maps[hi]['AKAI']:#x} by adding {off}", False, "no such return path", inst=f"fast-range:{lo}")
    _symbol_map(ctx, fd, "CharFormat.AKAI", "CharFormat.ASCII", "fast", maps)
    ok = any(p.end == "raise" and (p.raised or "").endswith("InvalidCharacter") for p in prs)
    ctx.ob("B1", fd, "decoder rejects every other byte (InvalidCharacter)", ok, "", inst="fast-reject")
    # wiring
    enc = ctx.fn(AS, "char_ascii_to_akai", "B1")
    pe = enc.args.args[0].arg
    want_e = {True: f"bytes(_char_format_convert(({pe}.upper()).encode('ascii'),CharFormat.ASCII,CharFormat.AKAI))",
              False: f"bytes(_char_format_convert({pe},CharFormat.ASCII,CharFormat.AKAI))"}
    eps = [p for p in run_paths(ctx, enc, rule="B1")]
    ok = len(eps) >= 2 and all(p.end == "return" and p.ret is not None for p in eps)
    for p in eps:
        is_str = None
        for c_, t_, _ in p.conds:
            if c_ == f"truthy(isinstance({pe},str))":
                is_str = t_
            elif c_ == f"not(truthy(isinstance({pe},str)))":
                is_str = not t_
        ok = ok and is_str is not None and p.ret is not None and p.ret.key() == want_e[is_str]
    ctx.ob("B1", enc, "encoding converts ASCII -> AKAI over every byte", ok, f"{[p.ret.key() if p.ret is not None else None for p in eps]}"[:300], inst="encode-wiring")
    # the construct adapter hands the field bytes / the text to the two converters unchanged (blanks inside and at the start of a
    # name are characters of the name; only the trailing pad is removed, by NullStripped, before the adapter sees the bytes)
    for q, want_r in (("AkaiString._decode", "char_akai_to_ascii({0})"), ("AkaiString._encode", "char_ascii_to_akai({0})")):
        fa = ctx.fn(AS, q, "B1")
        ob_ = fa.args.args[1].arg
        rps = [p_ for p_ in run_paths(ctx, fa, rule="B1") if p_.end == "return"]
        ok = bool(rps) and all(p_.ret is not None and p_.ret.key() == want_r.format(ob_) for p_ in rps)
        ctx.ob("B1", fa, f"{q} returns exactly what the converter gives for the whole field", ok,
               f"{[p_.ret.key() if p_.ret is not None else None for p_ in rps]}"[:200], inst=f"adapter:{q}")
    from .sem import returned_map
    cv = ctx.fn(AS, "_char_format_convert", "B1")
    pa = [a_.arg for a_ in cv.args.args]
    rm = returned_map(cv)
    ok = rm is not None and len(pa) == 3 and rm[0] is None and rm[1] == pa[0] and rm[2].replace(" ", "") in (
        f"_char_format_convert_byte(_c0,{pa[1]},{pa[2]})", f"_char_format_convert_byte(_c0,src_fmt={pa[1]},dst_fmt={pa[2]})",
        f"_char_format_convert_byte(byte_in=_c0,src_fmt={pa[1]},dst_fmt={pa[2]})")
    ctx.ob("B1", cv, "the list converter applies the byte converter with the same formats", ok, f"{rm}", inst="convert-wiring")
    dec = ctx.fn(AS, "_fast_akai_to_ascii", "B1")
    rm = returned_map(dec)
    ok = rm is not None and rm[0] == "join:" and rm[1] == dec.args.args[0].arg and rm[2].replace(" ", "") == "chr(_fast_akai_to_ascii_byte(_c0))"
    ctx.ob("B1", dec, "decoding converts every byte in order", ok, f"{rm}", inst="decode-wiring")
    ca = ctx.fn(AS, "char_akai_to_ascii", "B1")
    from .util import return_keys as _rk
    ctx.ob("B1", ca, "char_akai_to_ascii uses the byte decoder", _rk(ctx, ca, "B1") == {f"_fast_akai_to_ascii({ca.args.args[0].arg})"}, "", inst="decode-entry")
    ad = ctx.fn(AS, "AkaiString._decode", "B1")
    c = [x for x in own_nodes(ad) if isinstance(x, ast.Call) and norm(x.func) == "char_akai_to_ascii"]
    ok = len(c) == 1 and find_try_handler(c[0], ad, {"InvalidCharacter"}) is not None and "ConstructError" in raises_in(find_try_handler(c[0], ad, {"InvalidCharacter"}).body)
    ctx.ob("B1", ad, "an invalid name byte becomes a ConstructError (the entry is skipped, not the whole listing)", ok, "", inst="AkaiString-decode")
    # the name field itself: a fixed-size field, padded with the AKAI blank, from which exactly the trailing run of AKAI blanks (0x0A) is
    # removed before decoding - nothing else (0x00 is the digit '0')
    from ..core.layout import Layouts, Env as _LEnv, Describer as _Desc, Unknown as _Unk
    Lx = Layouts(ctx)
    try:
        lay_ = Lx.eval_con(ast.parse("AkaiPaddedString(12)", mode="eval").body, _LEnv(ctx.prog.module(AS)))
        lay_ = lay_[-1] if isinstance(lay_, tuple) else lay_
        got_ = (lay_.desc(), _Desc(Lx).annotate(lay_))
    except _Unk as e_:
        raise AnalysisError("B1", f"{AS}:AkaiPaddedString", f"layout: {e_}")
    ok = got_ == ("AkaiString(FixedSized(12,Padded(12,NullStripped(GreedyBytes()))))", ["AkaiString[]", "NullStripped[b:0a]"])
    ctx.ob("B1", ctx.fn(AS, "AkaiPaddedString", "B1"), "an AKAI name field is `length` bytes of which only the trailing AKAI blanks (0x0A) are dropped", ok, "" if ok else f"{got_}",
           inst="decode-field")
    ae = ctx.fn(AS, "AkaiString._encode", "B1")
    ctx.ob("B1", ae, "AkaiString encodes through char_ascii_to_akai", _rk(ctx, ae, "B1") == {f"char_ascii_to_akai({ae.args.args[1].arg})"}, "", inst="AkaiString-encode")


def rule_B1d(ctx):
    """the decoding half of B1 (C01: every stored AKAI name decodes, so no file is dropped for its name): the character tables, the
    fast decoder and its wiring - the encoder is not on the export path"""
    before = len(ctx.obs)
    rule_B1(ctx)
    keep = [o for o in ctx.obs[before:] if o.inst.startswith(("range:", "width:", "symbol:", "disjoint:AKAI", "fast-", "decode-", "AkaiString-decode", "adapter:AkaiString._decode"))]
    for o in keep:
        o.rule = "B1d"
    ctx.obs[before:] = keep


def _symbol_map(ctx, fn, sf, df, label, maps=None):
    from .sem import canon_expr, single_defs, _Inline
    import copy
    dicts = [d for d in own_nodes(fn) if isinstance(d, ast.Dict)]
    mod_tbl = None
    if not dicts:
        # the table kept as a module-level constant: the dict the lookup `.get(byte)` is made on
        for c in own_nodes(fn):
            if isinstance(c, ast.Call) and isinstance(c.func, ast.Attribute) and c.func.attr == "get" and isinstance(c.func.value, ast.Name):
                b_ = fn._module.env.get(c.func.value.id)
                if b_ and b_[0] == "assign" and isinstance(b_[1], ast.Dict):
                    dicts.append(b_[1])
                    mod_tbl = c.func.value.id
    if len(dicts) != 1:
        ctx.ob("B1", fn, f"{label} converter has one symbol table", False, f"{len(dicts)} dict literals", inst=f"{label}-symbols")
        return
    d = dicts[0]
    seen = set()
    defs = single_defs(fn)
    for k, v in zip(d.keys, d.values):
        kt, vt = canon_expr(fn, k), canon_expr(fn, v)
        ok = False
        name = None
        if maps is not None:
            # concrete formats: decide by value (source code of the symbol -> destination code of the same symbol)
            try:
                kv = ctx.folder.ev(_Inline(defs).visit(_clone(k)), fn._module)
                vv = ctx.folder.ev(_Inline(defs).visit(_clone(v)), fn._module)
            except NotConst:
                kv = vv = None
            sfn, dfn = sf.split(".")[-1], df.split(".")[-1]
            for nm, ch, ak in SYMBOLS:
                if kv is not None and kv == maps[nm][sfn]:
                    name = nm
                    ok = vv == maps[nm][dfn]
        else:
            for nm, ch, ak in SYMBOLS:
                if kt == f"CHAR_MAP_{nm}[{sf}]":
                    name = nm
                    ok = vt == f"CHAR_MAP_{nm}[{df}]"
        if name:
            seen.add(name)
        ctx.ob("B1", d, f"{label} converter: symbol entry `{norm(k)}` maps to the same symbol in the other set", ok,
               "" if ok else f"maps to `{vt}`: the two directions no longer invert each other", inst=f"{label}-symbol:{name or kt}")
    ok = seen == {s[0] for s in SYMBOLS}
    ctx.ob("B1", d, f"{label} converter covers the five symbols", ok, f"{sorted(seen)}", inst=f"{label}-symbols")
    # lookup is by the byte, default None -> raise
    tbl = mod_tbl
    for a in own_nodes(fn):
        if isinstance(a, (ast.Assign, ast.AnnAssign)) and a.value is d:
            t = a.targets[0] if isinstance(a, ast.Assign) else a.target
            tbl = t.id if isinstance(t, ast.Name) else None
    gets = [c for c in own_nodes(fn) if isinstance(c, ast.Call) and isinstance(c.func, ast.Attribute) and c.func.attr == "get"
            and (c.func.value is d or (isinstance(c.func.value, ast.Name) and c.func.value.id == tbl))]
    ok = len(gets) == 1 and norm(gets[0].args[0]) == fn.args.args[0].arg and len(gets[0].args) == 1
    ctx.ob("B1", fn, f"{label} converter looks the byte itself up in the symbol table", ok, "", inst=f"{label}-lookup")


# ------------------------------------------------------------------------ B2
def _dict_in(fn, name):
    for a in own_nodes(fn):
        if isinstance(a, (ast.Assign, ast.AnnAssign)):
            t = a.targets[0] if isinstance(a, ast.Assign) else a.target
            if isinstance(t, ast.Name) and t.id == name and isinstance(a.value, ast.Dict):
                return a.value
    return None


def rule_B2(ctx):
    m = ctx.prog.module(MIDI)
    fi = ctx.fn(MIDI, "MidiNote.from_int_a0", "B2")
    ti = ctx.fn(MIDI, "MidiNote.to_int_a0", "B2")
    def as_dict(v):
        """a dict literal, or dict(<sequence of (key, value) pairs>) read as one"""
        if isinstance(v, ast.Dict):
            return v
        if isinstance(v, ast.Call) and isinstance(v.func, ast.Name) and v.func.id == "dict" and len(v.args) == 1 and not v.keywords \
                and isinstance(v.args[0], (ast.Tuple, ast.List)) and all(isinstance(e, (ast.Tuple, ast.List)) and len(e.elts) == 2 for e in v.args[0].elts):
            d = ast.Dict(keys=[e.elts[0] for e in v.args[0].elts], values=[e.elts[1] for e in v.args[0].elts])
            return ast.copy_location(d, v)
        if isinstance(v, ast.Call) and isinstance(v.func, ast.Name) and v.func.id == "dict" and len(v.args) == 1 and not v.keywords \
                and isinstance(v.args[0], ast.Call) and isinstance(v.args[0].func, ast.Name) and v.args[0].func.id == "enumerate" and not v.args[0].keywords \
                and 1 <= len(v.args[0].args) <= 2 and isinstance(v.args[0].args[0], (ast.Tuple, ast.List)) \
                and (len(v.args[0].args) == 1 or (isinstance(v.args[0].args[1], ast.Constant) and isinstance(v.args[0].args[1].value, int))):
            # dict(enumerate(SEQ[, start])): the position in SEQ is the key
            start = v.args[0].args[1].value if len(v.args[0].args) == 2 else 0
            els = v.args[0].args[0].elts
            d = ast.Dict(keys=[ast.Constant(value=start + i) for i in range(len(els))], values=list(els))
            ast.copy_location(d, v)
            ast.fix_missing_locations(d)
            return d
        return None

    def only_dict(fn):
        ds = [d for d in (as_dict(n) for n in own_nodes(fn)) if d is not None and len(d.keys) >= 6]
        if len(ds) == 1:
            return ds[0]
        if ds:
            return None
        # the table may live at module level: the one name the function subscripts that is bound to a table there
        cands = []
        for n in own_nodes(fn):
            if isinstance(n, ast.Subscript) and isinstance(n.value, ast.Name):
                r = ctx.prog.resolve(m, n.value.id)
                if r and r[0] == "assign" and r[2] is m:
                    d = as_dict(r[1])
                    if d is not None and len(d.keys) >= 6 and not any(d is c for c in cands):
                        cands.append(d)
        return cands[0] if len(cands) == 1 else None

    d1, d2 = only_dict(fi), only_dict(ti)
    if d1 is None and d2 is not None:
        # the printing side computes letter and sharp flag instead of reading them from a 12-entry table: nothing here shows that each
        # semitone gets the letter / sharp pair that the parsing table maps back to it
        ctx.ob("B2", fi, "number -> note mapping is a 12-entry table that can be compared with the parsing table entry by entry", False,
               "from_int_a0 computes the note instead of looking it up: agreement with to_int_a0's table (each of the 12 semitones) is not established", inst="from-keys")
        return
    if d1 is None or d2 is None:
        raise AnalysisError("B2", MIDI, "scale tables not found")
    try:
        f = {ctx.folder.ev(k, m): norm(v) for k, v in zip(d1.keys, d1.values)}
        t = {norm(k): ctx.folder.ev(v, m) for k, v in zip(d2.keys, d2.values)}
    except NotConst as e:
        raise AnalysisError("B2", MIDI, f"tables not foldable: {e}")
    ctx.ob("B2", d1, "number -> note table has the 12 semitones 0..11", sorted(f) == list(range(12)), f"{sorted(f)}", inst="from-keys")
    for k in range(12):
        v = f.get(k)
        back = t.get(v)
        ctx.ob("B2", d1, f"semitone {k} -> {v} -> {back} round-trips", back == k, "" if back == k else "to_table(from_table(k)) != k", inst=f"roundtrip:{k}")
    want = {0: "(ScaleDegree.A, False)", 1: "(ScaleDegree.A, True)", 2: "(ScaleDegree.B, False)", 3: "(ScaleDegree.C, False)", 4: "(ScaleDegree.C, True)",
            5: "(ScaleDegree.D, False)", 6: "(ScaleDegree.D, True)", 7: "(ScaleDegree.E, False)", 8: "(ScaleDegree.F, False)", 9: "(ScaleDegree.F, True)",
            10: "(ScaleDegree.G, False)", 11: "(ScaleDegree.G, True)"}
    ctx.ob("B2", d1, "semitones are named A, A#, B, C, C#, D, D#, E, F, F#, G, G# (octaves start at A)", f == want, "", inst="from-table")
    prs = [p for p in run_paths(ctx, fi, rule="B2") if p.end == "return"]
    b = fi.args.args[1].arg
    import re as _re
    shapes = []
    for p in prs:
        k = p.ret.key() if p.ret is not None else ""
        m = None
        if k.startswith("cls(sub(") and k.endswith(f",floordiv({b},12))"):
            inner = k[len("cls("):-len(f",floordiv({b},12))")]
            # inner = sub(X,0),sub(X,1) with X = sub(<table>,mod(b,12))
            half = (len(inner) - 1) // 2
            l, r = inner[:half], inner[half + 1:]
            if l.endswith(",0)") and r.endswith(",1)") and l[:-3] == r[:-3] and l.startswith("sub(sub(") and l[:-3].endswith(f",mod({b},12))"):
                m = True
        elif k.startswith("cls(*sub(") and k.endswith(f",floordiv({b},12))"):
            # cls(*table[n % 12], octave): the table's entries are the (degree, sharp) pairs checked above
            inner = k[len("cls(*"):-len(f",floordiv({b},12))")]
            if inner.endswith(f",mod({b},12))") and inner.count("mod(") == 1:
                m = True
        shapes.append((bool(m), k.endswith(f",floordiv({b},12))"), f",mod({b},12))" in k))
    ok = bool(prs) and all(sh[1] and sh[2] for sh in shapes)
    ctx.ob("B2", fi, "octave = n // 12, semitone = n % 12", ok, "", inst="from-divmod")
    ok = bool(prs) and all(sh[0] for sh in shapes)
    ctx.ob("B2", fi, "the note is built from (degree, sharp, octave) of that lookup", ok, "" if ok else f"{[p.ret.key()[-90:] for p in prs if p.ret is not None]}", inst="from-build")
    prs = [p for p in run_paths(ctx, ti, rule="B2") if p.end == "return"]
    def _shape(r):
        if r is None or len(r.p) != 2 or r.coeff("self.octave") != 12:
            return False
        rest = [m for m in r.p if m != ("self.octave",)]
        return len(rest) == 1 and r.p[rest[0]] == 1 and len(rest[0]) == 1 and rest[0][0].startswith("sub(") \
            and rest[0][0].endswith(",tuple(self.scale_degree,self.is_sharp))")
    ok = bool(prs) and all(_shape(p.ret) for p in prs)
    ctx.ob("B2", ti, "number = table[(degree, sharp)] + 12 * octave", ok, f"{[p.ret.key() for p in prs if p.ret]}", inst="to-formula")
    n12 = ctx.const(MIDI, "NOTES_IN_OCTAVE", "B2")
    ctx.ob("B2", fi, "NOTES_IN_OCTAVE = 12", n12 == 12, f"{n12}", inst="NOTES_IN_OCTAVE")
    for kind, const in (("akai", "AKAI_SAMPLE_A0"), ("midi", "MIDI_A0")):
        fr = ctx.fn(MIDI, f"MidiNote.from_{kind}_byte", "B2")
        to = ctx.fn(MIDI, f"MidiNote.to_{kind}_byte", "B2")
        v = ctx.const(MIDI, const, "B2")
        p1 = [p for p in run_paths(ctx, fr, rule="B2") if p.end == "return"]
        p2 = [p for p in run_paths(ctx, to, rule="B2") if p.end == "return"]
        ok1 = bool(p1) and all(p.ret == A(f"cls.from_int_a0({(A(fr.args.args[1].arg) - C(v)).key()})") for p in p1)
        ok2 = bool(p2) and all(p.ret == A("self.to_int_a0()") + C(v) for p in p2)
        ctx.ob("B2", fr, f"from_{kind}_byte subtracts {const} and to_{kind}_byte adds the same {const}", ok1 and ok2 and v == 21,
               f"{[p.ret.key() for p in p1 if p.ret]} / {[p.ret.key() for p in p2 if p.ret]}", inst=f"offset:{kind}")
    # text form
    ts = ctx.fn(MIDI, "MidiNote.to_string", "B2")
    from .sem import fmt_parts, path_return_ast as path_return, path_tests, bool_eval
    ok, det, seen = True, "", set()
    for p in run_paths(ctx, ts, rule="B2"):
        if p.end != "return":
            ok, det = False, f"path ends with {p.end}"
            continue
        sharp = None
        for tst, taken in path_tests(p):
            v = bool_eval(tst, lambda n: True if norm(n) == "self.is_sharp" else None)
            if v is None or v == "undef":
                ok, det = False, f"test `{norm(tst)}` not understood"
            else:
                sharp = (v == taken)
        r = path_return(p)
        parts = fmt_parts(None, r) if r is not None else None
        # str(x) and x inside a format are the same text
        want_t = [("expr", "self.scale_degree"), "#", ("expr", "self.octave")]
        want_f = [("expr", "self.scale_degree"), ("expr", "self.octave")]
        if sharp is None:
            # a conditional expression inside the format: both arms must appear through a recognised idiom
            ok, det = False, f"text built as `{norm(r) if r is not None else None}` without a decided sharp flag"
            continue
        seen.add(sharp)
        if parts != (want_t if sharp else want_f):
            ok, det = False, f"is_sharp={sharp}: text parts {parts}"
    ok = ok and seen == {True, False}
    ctx.ob("B2", ts, "text form = letter, optional '#', octave", ok, det or f"cases {sorted(seen)}", inst="to_string")
    rg = ctx.prog.assigned(MIDI, "MIDI_NOTE_STR_REGEX", "B2")
    from .util import regex_value
    pat, _fl = regex_value(ctx, rg, m, "B2", f"{MIDI}:MIDI_NOTE_STR_REGEX")
    tr = rx.parse(pat, _fl or 0)
    gs = rx.groups(tr)
    import re._constants as sc
    ok = len(gs) == 3 and len(tr) == 3
    if ok:
        g1, g2, g3 = gs[0][1], gs[1][1], gs[2][1]
        ok = g1[0][0] is sc.IN and g2[0][0] is sc.MAX_REPEAT and g2[0][1][0] == 0 and g2[0][1][1] == 1 and g3[0][0] is sc.IN and len(g3) == 1
        # the text is upper-cased before matching: the letter class must take A..G and refuse H..Z; the sharp group is an
        # optional '#'; the octave class must take every digit 0..9 (octaves 0-9 are printed by to_string)
        if ok:
            ok = all(rx.class_accepts(g1[0][1], ch) for ch in "ABCDEFG") and not any(rx.class_accepts(g1[0][1], ch) for ch in "HIJKLMNOPQRSTUVWXYZ#0123456789 ")
            sharp = g2[0][1][2]
            ok = ok and len(sharp) == 1 and sharp[0][0] is sc.LITERAL and sharp[0][1] == ord("#")
            ok = ok and all(rx.class_accepts(g3[0][1], ch) for ch in "0123456789") and not any(rx.class_accepts(g3[0][1], ch) for ch in "ABCDEFG# -")
    ctx.ob("B2", rg, "note regex: letter A-G, optional sharp, one octave digit 0-9 (every text to_string prints for octaves 0-9 parses)", ok, pat, inst="note-regex", file=MIDI, qualname="<module>")
    fs = ctx.fn(MIDI, "MidiNote.from_string", "B2")
    rets = [p for p in run_paths(ctx, fs, rule="B2") if p.end == "return"]
    inp = fs.args.args[1].arg
    mt = f"MIDI_NOTE_STR_REGEX.match(({inp}.upper()).strip())"
    mt2 = f"MIDI_NOTE_STR_REGEX.match(({inp}.strip()).upper())"
    def _want(m_):
        return f"cls(ScaleDegree.from_string(sub(({m_}).groups(),0)),cond(len(sub(({m_}).groups(),1)) > 0),int(sub(({m_}).groups(),2)))"
    ok = len(rets) >= 1 and all(p.ret is not None and p.ret.key() in (_want(mt), _want(mt2)) for p in rets)
    # and the no-match case is refused, not defaulted
    ok = ok and all(any(c in (f"Is({mt},None)", f"Is({mt2},None)") and t is False for c, t, _ in p.conds) or
                    any(c in (f"IsNot({mt},None)", f"IsNot({mt2},None)") and t is True for c, t, _ in p.conds) for p in rets)
    ctx.ob("B2", fs, "from_string reads degree, sharp, octave from the three groups in that order", ok,
           "" if ok else f"{[p.ret.key() if p.ret is not None else None for p in rets]} under {[[(c, t) for c, t, _ in p.conds] for p in rets]}"[:400], inst="from_string")
    sd = ctx.prog.klass(MIDI, "ScaleDegree", "B2")
    mem = ctx.folder.enum_members(sd)
    ok = mem == {"A": 0, "B": 1, "C": 2, "D": 3, "E": 4, "F": 5, "G": 6}
    ctx.ob("B2", sd, "ScaleDegree A..G = 0..6", ok, f"{mem}", inst="ScaleDegree")
    s1 = ctx.fn(MIDI, "ScaleDegree.__str__", "B2")
    s2 = ctx.fn(MIDI, "ScaleDegree.from_string", "B2")
    from .util import return_keys as _rk2
    ip2 = s2.args.args[1].arg
    # (an enum member's .name is its letter: the member names A..G are what the ScaleDegree obligation above pins to 0..6)
    ok = _rk2(ctx, s1, "B2") in ({"chr(65 + self.value)"}, {"self.name"}) and _rk2(ctx, s2, "B2") <= {f"cls(-65 + ord(({ip2}.upper()).strip()))", f"cls(-65 + ord(({ip2}.strip()).upper()))", f"cls(-65 + ord({ip2}))"} \
        and bool(_rk2(ctx, s2, "B2"))
    ctx.ob("B2", s1, "degree <-> letter are inverse shifts by ord('A')", ok, "", inst="degree-letter")


# ------------------------------------------------------------------------ B3
def rule_B3(ctx):
    pf = ctx.fn(DT, "parse_akai_tune_cents", "B3")
    bf = ctx.fn(DT, "build_akai_tune_cents", "B3")
    pp = run_paths(ctx, pf, rule="B3")
    bp = run_paths(ctx, bf, rule="B3")
    pa, ba = pf.args.args[0].arg, bf.args.args[0].arg
    line_p = None
    for p in pp:
        if p.end != "return":
            continue
        if p.ret == C(0):
            cs = path_conds_struct(ctx, pf, p)
            ok = len(cs) == 1 and cs[0][2] and cs[0][1] == "==" and cs[0][0] in (A(pa), A("x"), -A(pa), -A("x")) or \
                (len(cs) == 1 and cs[0][2] and cs[0][1] == "==" and cs[0][0].atoms() <= {pa, "x"} and len(cs[0][0].p) == 1)
            ctx.ob("B3", p.ret_node, "byte -> cents: exactly the byte 0 maps to 0 cents", bool(ok), f"[{p.cond_key()}]", inst="parse-zero")
        else:
            line_p = p.ret
    ok = line_p is not None and len(line_p.atoms()) == 1
    want = Term({(list(line_p.atoms())[0],): Fraction(100, 255), (): Fraction(100, 255) * 128 - 50}) if ok else None
    ctx.ob("B3", pf, "byte -> cents is the line through (-128, -50) with slope 100/255", ok and line_p == want, f"{line_p.key() if line_p else None}", inst="parse-line")
    inner = None
    for p in bp:
        if p.end != "return":
            continue
        if p.ret == C(0):
            cs = path_conds_struct(ctx, bf, p)
            ok = len(cs) == 1 and cs[0][2] and cs[0][1] == "==" and len(cs[0][0].p) == 1 and list(cs[0][0].p.values())[0] in (1, -1) and cs[0][0].atoms() <= {ba, "x"}
            ctx.ob("B3", p.ret_node, "cents -> byte: exactly 0 cents maps to byte 0 (no other value is swallowed)", ok,
                   "" if ok else f"zero branch is taken under [{p.cond_key()}]: bytes whose cents fall in that set no longer round-trip", inst="build-zero")
        else:
            r = p.ret
            # round(<line>) + Y1
            k = r.key()
            atoms = [a for a in r.atoms() if a.startswith("round(")]
            if len(atoms) == 1 and r == A(atoms[0]) + C(-128):
                inner = atoms[0][len("round("):-1]
    want_inner = (A("x").scale(Fraction(255, 100)) + C(Fraction(255, 100) * 50)).key()
    want_inner2 = (A(ba).scale(Fraction(255, 100)) + C(Fraction(255, 100) * 50)).key()
    ok = inner in (want_inner, want_inner2)
    ctx.ob("B3", bf, "cents -> byte is round(255/100 * (c + 50)) - 128: the exact inverse line of byte -> cents, rounded", ok, f"round({inner}) - 128", inst="build-line")
    if line_p is not None and ok:
        # inverse check over the rationals: build_line(parse_line(b)) == b
        v = list(line_p.atoms())[0]
        slope_p, icpt_p = line_p.p[(v,)], line_p.p.get((), 0)
        slope_b, icpt_b = Fraction(255, 100), Fraction(255, 100) * 50 - 128
        ok2 = slope_p * slope_b == 1 and slope_b * icpt_p + icpt_b == 0
        ctx.ob("B3", bf, "the two lines are exact inverses over the rationals", ok2, f"{slope_p}*{slope_b}, {slope_b * icpt_p + icpt_b}", inst="inverse")
    # sibling agreement on the special case: byte -> cents sends byte 0 to 0 cents, a point that is NOT on the line
    # (the line gives 100/255*128 - 50 at byte 0).  Coming back, 0 cents lies at 255/100*50 = 127.5 on the inverse line: an exact
    # rounding tie, which the float product 2.55*50 = 127.49999999999999 resolves downwards (byte -1).  Unless the rounded inverse
    # line provably returns the byte (distance to the tie strictly below 1/2 over the rationals), cents -> byte needs its own branch.
    parse_zero = any(p.end == "return" and p.ret == C(0) for p in pp)
    build_zero = any(p.end == "return" and p.ret == C(0) for p in bp)
    if parse_zero:
        off_line = Fraction(255, 100) * (0 + 50) - 128          # inverse line at the special value 0 cents, as a byte
        robust = abs(off_line - 0) < Fraction(1, 2)             # rounds to byte 0 whatever the float error
        ok3 = build_zero or robust
        ctx.ob("B3", bf, "byte 0 <-> 0 cents: the special case of byte -> cents is mirrored by cents -> byte (0 cents is a rounding tie of the inverse line)", ok3,
               "" if ok3 else f"parse_akai_tune_cents maps byte 0 to 0 cents off the line, build_akai_tune_cents has no branch for 0 cents and its line gives {off_line} + 128 = {off_line + 128} before rounding: a tie, byte 0 does not round-trip",
               inst="zero-pairing")
    ad = ctx.fn(DT, "AkaiTuneCents", "B3")
    # the adapter's decoder / encoder (positional or keyword, lambda or - after normalisation - local function) as canonical lambdas
    ok = False
    for p_ in run_paths(ctx, ad, rule="B3"):
        if p_.end != "return" or p_.ret_node is None:
            continue
        from .sem import path_return_ast
        e_ = path_return_ast(p_)
        if isinstance(e_, ast.Call) and norm(e_.func) == "ExprAdapter":
            args_ = list(e_.args[1:]) + [None, None]
            kw_ = {k.arg: k.value for k in e_.keywords}
            dec_, enc_ = kw_.get("decoder", args_[0]), kw_.get("encoder", args_[1])

            def lam_key(l_):
                if not isinstance(l_, ast.Lambda) or not l_.args.args:
                    return None
                ev_ = Evaluator(env={l_.args.args[0].arg: Term.atom("obj")})
                return ev_.ev(l_.body).key()
            ok = lam_key(dec_) == "parse_akai_tune_cents(obj)" and lam_key(enc_) == "build_akai_tune_cents(obj)"
    ctx.ob("B3", ad, "AkaiTuneCents decodes with parse_ and encodes with build_", ok, "", inst="adapter")
