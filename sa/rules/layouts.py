"""L1 STRUCT-REF, L2 STRUCT-SIZE-CONST, L4 POINTER-AFFINE, L5 GEOMETRY  (C01, C02, C04, C09, C14, C20)."""
import ast
import json
import os

from ..core.loader import AnalysisError, dotted, norm, own_nodes, where
from ..core.layout import Layouts, Describer, Unknown, size_at, Struct as LStruct, Zero, Wrap

AK = "smpl_extract/akai/"
RO = "smpl_extract/roland/s7xx/"

STRUCTS = {
    # group -> [(path, module-level name)]
    "akai-export": [(AK + "partition.py", "PartitionParser"), (AK + "partition.py", "PartitionHeaderConstruct"),
                    (AK + "volume.py", "VolumeEntryConstruct"), (AK + "volume.py", "VolumeBodyConstruct"),
                    (AK + "file_entry.py", "FileEntryConstruct"), (AK + "file.py", "FileConstruct"),
                    (AK + "sample.py", "SampleHeaderConstruct"), (AK + "sample.py", "LoopDataConstruct")],
    "akai-info": [(AK + "sample.py", "SampleHeaderConstruct"), (AK + "sample.py", "LoopDataConstruct"),
                  (AK + "program.py", "ProgramParser"), (AK + "program.py", "ProgramHeaderConstruct"),
                  (AK + "program.py", "KeygroupLinkConstruct"), (AK + "keygroup.py", "KeygroupConstruct"),
                  (AK + "keygroup.py", "VelocityZoneConstruct")],
    "roland": [(RO + "image.py", "RolandS7xxImageStruct"), (RO + "image.py", "IdAreaStruct"), (RO + "fat.py", "FatAreaStruct"),
               (RO + "directory_area.py", "DirectoryEntryStruct"), (RO + "volume_entry.py", "VolumeParamEntryStruct"),
               (RO + "performance_entry.py", "PerformanceParamEntryStruct"), (RO + "patch_entry.py", "PatchParamEntryStruct"),
               (RO + "partial_entry.py", "PartialParamEntryStruct"), (RO + "sample_entry.py", "SampleParamEntryStruct"),
               (RO + "sample_entry.py", "SampleParamLoopPointStruct")],
    "roland-info": [(RO + "sample_entry.py", "SampleParamEntryStruct"), (RO + "sample_entry.py", "SampleParamLoopPointStruct"),
                    (RO + "directory_area.py", "DirectoryEntryStruct")],
    "roland-records": [(RO + "directory_area.py", "DirectoryEntryStruct"), (RO + "sample_entry.py", "SampleParamEntryStruct"),
                       (RO + "partial_entry.py", "PartialParamEntryStruct"), (RO + "partial_entry.py", "PartialParamSampleSectionStruct")],
    "wav": [("smpl_extract/formats/wav.py", "RiffStruct"), ("smpl_extract/formats/wav.py", "WavRiffBodyStruct"),
            ("smpl_extract/formats/wav.py", "WavRiffChunkStruct"), ("smpl_extract/formats/wav.py", "WavFormatChunkStruct"),
            ("smpl_extract/formats/wav.py", "WavSampleChunkStruct"), ("smpl_extract/formats/wav.py", "WavLoopStruct"),
            ("smpl_extract/formats/wav.py", "WavDataChunkStruct"), ("smpl_extract/formats/wav.py", "WavRiffChunkType")],
    "containers": [("smpl_extract/alcohol/mdf.py", "MdfSectorHeaderConstruct"), ("smpl_extract/alcohol/mdf.py", "MdfSectorReadConstruct"),
                   ("smpl_extract/alcohol/mdx.py", "MdxHeaderConstruct"), (RO + "image.py", "IdAreaStruct")],
    "akai-table": [(AK + "file_entry.py", "FileEntryConstruct"), (AK + "volume.py", "VolumeEntryConstruct")],
}

_REF = None


def reference():
    global _REF
    if _REF is None:
        p = os.path.join(os.path.dirname(os.path.dirname(os.path.abspath(__file__))), "reference", "layouts.json")
        with open(p) as fh:
            _REF = json.load(fh)
    return _REF


def _l1(ctx, rid, groups):
    ref = reference()
    L = Layouts(ctx)
    D = Describer(L)
    done = set()
    n_structs = 0
    for g in groups:
        for path, name in STRUCTS[g]:
            key = f"{path}:{name}"
            if key in done:
                continue
            done.add(key)
            if key not in ref:
                raise AnalysisError(rid, key, "no reference layout recorded for this struct")
            node = ctx.prog.assigned(path, name, rid)
            try:
                lay = L.of_path(path, name)
                rows = D.rows(lay)
            except Unknown as e:
                ctx.ob(rid, node, f"{name}: declaration can be evaluated to a layout", False,
                       f"layout evaluator cannot interpret the declaration: {e}", inst=f"{name}:evaluable", file=path, qualname="<module>")
                continue
            n_structs += 1
            want = ref[key]
            got_size = D._sz(lay.size)
            ctx.ob(rid, node, f"{name}: total size is {want['size']}", got_size == want["size"],
                   "" if got_size == want["size"] else f"size is now {got_size}", inst=f"{name}:size", file=path, qualname="<module>")
            wrows = {}
            for r in want["rows"]:
                wrows.setdefault(r["path"], []).append(r)
            grows = {}
            for r in rows:
                grows.setdefault(r["path"], []).append(r)
            for pth, wl in wrows.items():
                gl = grows.get(pth, [])
                for i, w in enumerate(wl):
                    inst = f"{name}:{pth}" + (f"#{i}" if len(wl) > 1 else "")
                    if i >= len(gl):
                        ctx.ob(rid, node, f"{name}: field `{pth}` is present", False, "field vanished or was renamed (the value printed / read for it changes)",
                               inst=inst, file=path, qualname="<module>")
                        continue
                    g_ = gl[i]
                    diffs = []
                    for k, label in (("off", "offset"), ("size", "width"), ("leaf", "primitive (width/sign/endianness)"), ("wrap", "adapter chain"), ("ann", "expressions / tables")):
                        if g_[k] != w[k]:
                            diffs.append(f"{label}: expected {w[k]!r}, found {g_[k]!r}")
                    ctx.ob(rid, node, f"{name}: field `{pth}` at offset {w['off']}, {w['leaf'][:40]}, tables/expressions as recorded", not diffs,
                           "; ".join(diffs)[:600], inst=inst, file=path, qualname="<module>")
            for pth, gl in grows.items():
                extra = len(gl) - len(wrows.get(pth, []))
                if extra > 0:
                    ctx.ob(rid, node, f"{name}: no unreviewed field", False, f"new field `{pth}` ({gl[-1]['leaf']}) is not in the reviewed layout",
                           inst=f"{name}:{pth}:new", file=path, qualname="<module>")
    ctx.fact(rid, "structs", n_structs)


def rule_L1_akai_export(ctx):
    _l1(ctx, "L1a", ["akai-export"])


def rule_L1_akai_info(ctx):
    _l1(ctx, "L1i", ["akai-info"])


def rule_L1_roland(ctx):
    _l1(ctx, "L1r", ["roland"])


def rule_L1_roland_info(ctx):
    _l1(ctx, "L1ri", ["roland-info"])


def rule_L1_wav(ctx):
    _l1(ctx, "L1w", ["wav"])


def rule_L1_containers(ctx):
    _l1(ctx, "L1c", ["containers"])


def rule_L1_tables(ctx):
    _l1(ctx, "L1t", ["akai-table", "roland-records"])


# ------------------------------------------------------------------------ L2
def rule_L2(ctx):
    """sizeof(struct) equals the repository's own constants / the documented sizes"""
    L = Layouts(ctx)
    DT = RO + "data_types.py"

    def size(path, name):
        try:
            return L.of_path(path, name).size
        except Unknown as e:
            raise AnalysisError("L2", f"{path}:{name}", f"layout: {e}")

    def const(name, path=DT):
        return ctx.const(path, name, "L2")

    checks = [
        ("directory entry = VOLUME/PERFORMANCE/PATCH/PARTIAL/SAMPLE_DIRECTORY_ENTRY_SIZE", size(RO + "directory_area.py", "DirectoryEntryStruct"),
         {const(k) for k in ("VOLUME_DIRECTORY_ENTRY_SIZE", "PERFORMANCE_DIRECTORY_ENTRY_SIZE", "PATCH_DIRECTORY_ENTRY_SIZE", "PARTIAL_DIRECTORY_ENTRY_SIZE", "SAMPLE_DIRECTORY_ENTRY_SIZE")}, RO + "directory_area.py", "DirectoryEntryStruct"),
        ("volume parameter record = VOLUME_PARAMETER_ENTRY_SIZE", size(RO + "volume_entry.py", "VolumeParamEntryStruct"), {const("VOLUME_PARAMETER_ENTRY_SIZE")}, RO + "volume_entry.py", "VolumeParamEntryStruct"),
        ("performance parameter record = PERFORMANCE_PARAMETER_ENTRY_SIZE", size(RO + "performance_entry.py", "PerformanceParamEntryStruct"), {const("PERFORMANCE_PARAMETER_ENTRY_SIZE")}, RO + "performance_entry.py", "PerformanceParamEntryStruct"),
        ("patch parameter record = PATCH_PARAMETER_ENTRY_SIZE", size(RO + "patch_entry.py", "PatchParamEntryStruct"), {const("PATCH_PARAMETER_ENTRY_SIZE")}, RO + "patch_entry.py", "PatchParamEntryStruct"),
        ("partial parameter record = PARTIAL_PARAMETER_ENTRY_SIZE", size(RO + "partial_entry.py", "PartialParamEntryStruct"), {const("PARTIAL_PARAMETER_ENTRY_SIZE")}, RO + "partial_entry.py", "PartialParamEntryStruct"),
        ("sample parameter record = SAMPLE_PARAMETER_ENTRY_SIZE", size(RO + "sample_entry.py", "SampleParamEntryStruct"), {const("SAMPLE_PARAMETER_ENTRY_SIZE")}, RO + "sample_entry.py", "SampleParamEntryStruct"),
        ("id area fields + 226 spare = ID_AREA_SIZE", size(RO + "image.py", "IdAreaStruct") + 226, {const("ID_AREA_SIZE")}, RO + "image.py", "IdAreaStruct"),
        ("MDF sector header = MDF_SECTOR_HEADER_SIZE", size("smpl_extract/alcohol/mdf.py", "MdfSectorHeaderConstruct"), {const("MDF_SECTOR_HEADER_SIZE", "smpl_extract/alcohol/mdf.py")}, "smpl_extract/alcohol/mdf.py", "MdfSectorHeaderConstruct"),
        ("MDF raw sector = MDF_SECTOR_SIZE", size("smpl_extract/alcohol/mdf.py", "MdfSectorReadConstruct"), {const("MDF_SECTOR_SIZE", "smpl_extract/alcohol/mdf.py")}, "smpl_extract/alcohol/mdf.py", "MdfSectorReadConstruct"),
        ("MDX header = 64 bytes", size("smpl_extract/alcohol/mdx.py", "MdxHeaderConstruct"), {64}, "smpl_extract/alcohol/mdx.py", "MdxHeaderConstruct"),
        ("AKAI file entry = 24 bytes", size(AK + "file_entry.py", "FileEntryConstruct"), {24}, AK + "file_entry.py", "FileEntryConstruct"),
        ("AKAI volume entry = 16 bytes", size(AK + "volume.py", "VolumeEntryConstruct"), {16}, AK + "volume.py", "VolumeEntryConstruct"),
        ("AKAI sample header = 140 bytes (= k*8192-140 sample lengths fill the last sector)", size(AK + "sample.py", "SampleHeaderConstruct"), {140}, AK + "sample.py", "SampleHeaderConstruct"),
        ("AKAI loop entry = 12 bytes", size(AK + "sample.py", "LoopDataConstruct"), {12}, AK + "sample.py", "LoopDataConstruct"),
        ("AKAI velocity zone = 24 bytes", size(AK + "keygroup.py", "VelocityZoneConstruct"), {24}, AK + "keygroup.py", "VelocityZoneConstruct"),
        ("AKAI keygroup = 150 bytes at four zones", size_at(size(AK + "keygroup.py", "KeygroupConstruct"), num_velocity_zones=4), {150}, AK + "keygroup.py", "KeygroupConstruct"),
        ("AKAI program header = 72 bytes", size(AK + "program.py", "ProgramHeaderConstruct"), {72}, AK + "program.py", "ProgramHeaderConstruct"),
        ("AKAI partition header = 202 bytes", size(AK + "partition.py", "PartitionHeaderConstruct"), {202}, AK + "partition.py", "PartitionHeaderConstruct"),
        ("WAV fmt chunk = 16 bytes", size("smpl_extract/formats/wav.py", "WavFormatChunkStruct"), {16}, "smpl_extract/formats/wav.py", "WavFormatChunkStruct"),
        ("WAV loop = 24 bytes", size("smpl_extract/formats/wav.py", "WavLoopStruct"), {24}, "smpl_extract/formats/wav.py", "WavLoopStruct"),
        ("WAV smpl chunk = 36 + 24*loops (+ sampler data)", size_at(size("smpl_extract/formats/wav.py", "WavSampleChunkStruct"), sample_loop_cnt=3, sampler_data_size=0), {36 + 72}, "smpl_extract/formats/wav.py", "WavSampleChunkStruct"),
    ]
    for what, got, want, path, name in checks:
        node = ctx.prog.assigned(path, name, "L2")
        ok = len(want) == 1 and got in want
        ctx.ob("L2", node, what, ok, "" if ok else f"struct size {got}, expected {sorted(want)}", inst=name, file=path, qualname="<module>")
    # partition header + 100 volume entries + SAT fit in the first 3 sectors and equal the static prefix the Lazy(Bytes) deducts
    hdr = size(AK + "partition.py", "PartitionHeaderConstruct")
    ve = size(AK + "volume.py", "VolumeEntryConstruct")
    cnt = ctx.const(AK + "data_types.py", "AKAI_VOLUME_ENTRY_CNT", "L2")
    sat = ctx.const(AK + "data_types.py", "AKAI_SAT_ENTRY_CNT", "L2")
    sec = ctx.const(AK + "data_types.py", "AKAI_SECTOR_SIZE", "L2")
    node = ctx.prog.assigned(AK + "partition.py", "PartitionParser", "L2")
    total = hdr + ve * cnt + 2 * sat
    ctx.ob("L2", node, "partition header + volume table + SAT occupy 24574 bytes (the first three 8192-byte sectors)", total == 24574 and total <= 3 * sec,
           f"{hdr}+{ve}*{cnt}+2*{sat} = {total}", inst="partition-prefix", file=AK + "partition.py", qualname="<module>")
    # MdxStream: offset = sizeof(header); size = eof - offset
    from ..core.symexec import run_paths, calls_on
    from .util import evaluator
    from ..core.terms import Term
    mx = ctx.fn("smpl_extract/alcohol/mdx.py", "MdxStream", "L2")
    for p in [p for p in run_paths(ctx, mx, rule="L2") if p.end == "return"]:
        cs = list(calls_on(p, name="StreamOffset"))
        ok = len(cs) == 1
        det = ""
        if ok:
            from .util import call_parts
            # sizes are folded to numbers (`MdxHeaderConstruct.sizeof()` written in place or through a module constant)
            from ..core.layout import Env as _Env
            from ..core.terms import Evaluator as _Ev

            def _fold(n_, _m=mx._module):
                if isinstance(n_, ast.Call) and isinstance(n_.func, ast.Attribute) and n_.func.attr == "sizeof" and not n_.args and not n_.keywords:
                    v_ = L.const(n_, _Env(_m))
                    if isinstance(v_, int) and not isinstance(v_, bool):
                        return v_
                raise ValueError("not a static size")

            ev = _Ev(env=cs[0][1], const_of=L.const_of(mx._module), fold=_fold)
            fname, a, kw = call_parts(ev.ev(cs[0][0]).key())
            hsz = size("smpl_extract/alcohol/mdx.py", "MdxHeaderConstruct")
            hdrt = Term.atom("MdxHeaderConstruct.parse_stream(parent_stream).eof")
            from ..core.terms import parse_key as _pk
            sub_ = {"MdxHeaderConstruct.sizeof()": Term.const(hsz)}
            a = [(_pk(x).subst(sub_).key() if _pk(x) is not None else x) for x in a]
            ok = len(a) >= 3 and a[0] == "parent_stream" and a[2] == str(hsz) and a[1] == (hdrt - Term.const(hsz)).key()
            det = "" if ok else f"StreamOffset({', '.join(a)})"
        ctx.ob("L2", mx, "MDX window: offset = sizeof(MdxHeaderConstruct), size = header.eof - offset", ok, det, inst="MdxStream")


# ------------------------------------------------------------------------ L4
KINDS = {
    "VOLUME": (RO + "volume_entry.py", "VolumeEntryConstruct", "VolumeParamEntryStruct", RO + "volume_entry.py"),
    "PERFORMANCE": (RO + "performance_entry.py", "PerformanceEntryConstruct", "PerformanceParamEntryStruct", RO + "performance_entry.py"),
    "PATCH": (RO + "patch_entry.py", "PatchEntryConstruct", "PatchParamEntryStruct", RO + "patch_entry.py"),
    "PARTIAL": (RO + "partial_entry.py", "PartialEntryConstruct", "PartialParamEntryStruct", RO + "partial_entry.py"),
    "SAMPLE": (RO + "sample_entry.py", "SampleEntryConstruct", "SampleParamEntryStruct", RO + "sample_entry.py"),
}


def rule_L4(ctx):
    """each Roland record Pointer is ENTRY_SIZE(kind, area)*index + AREA_OFFSET(kind, area), bounded by MAX_NUM_<kind>"""
    from ..core.terms import Evaluator, Term
    DT = RO + "data_types.py"
    L = Layouts(ctx)
    for kind, (path, factory, pstruct, ppath) in KINDS.items():
        fn = ctx.fn(path, factory, "L4")
        mod = fn._module
        const_of = ctx.folder.const_of(mod)
        ptrs = [c for c in own_nodes(fn) if isinstance(c, ast.Call) and isinstance(c.func, ast.Name) and c.func.id == "Pointer"]
        if len(ptrs) != 2:
            raise AnalysisError("L4", where(fn), f"expected 2 Pointer fields, found {len(ptrs)}")
        for c in ptrs:
            par = getattr(c, "_parent", None)
            fname = par.left.value if isinstance(par, ast.BinOp) and isinstance(par.left, ast.Constant) else "?"
            area = {"directory": "DIRECTORY", "parameter": "PARAMETER"}.get(fname)
            if area is None:
                ctx.ob("L4", c, "Pointer field is `directory` or `parameter`", False, f"field name {fname}", inst=f"{kind}:{fname}")
                continue
            lam = c.args[0]
            ev = Evaluator(const_of=const_of, this_names=tuple(a.arg for a in lam.args.args) if isinstance(lam, ast.Lambda) else ("this",))
            t = ev.ev(lam.body if isinstance(lam, ast.Lambda) else lam)
            esz = ctx.const(DT, f"{kind}_{area}_ENTRY_SIZE", "L4")
            off = ctx.const(DT, f"{kind}_{area}_AREA_OFFSET", "L4")
            idx = Term.atom("new_index_expr(this)")
            want = idx.scale(esz) + Term.const(off)
            ok = t == want
            ctx.ob("L4", c, f"{kind} {fname} record address = {kind}_{area}_ENTRY_SIZE*index + {kind}_{area}_AREA_OFFSET", ok,
                   "" if ok else f"address term is {t.key()}, expected {want.key()}", inst=f"{kind}:{fname}:address")
            # target struct and its size
            tgt = c.args[1]
            tname = norm(tgt)
            if area == "DIRECTORY":
                ok2 = tname == "DirectoryEntryParser"
                tsz = L.of_path(RO + "directory_area.py", "DirectoryEntryStruct").size
            else:
                ok2 = tname in (pstruct, pstruct.replace("Struct", "Parser"))
                tsz = L.of_path(ppath, pstruct).size
            ctx.ob("L4", c, f"{kind} {fname} pointer parses the {kind.lower()} {fname} record type, whose size equals the stride", ok2 and tsz == esz,
                   "" if ok2 and tsz == esz else f"target {tname} (size {tsz}) vs stride {esz}", inst=f"{kind}:{fname}:target")
        # bound
        vals = [c for c in own_nodes(fn) if isinstance(c, ast.Call) and isinstance(c.func, ast.Name) and c.func.id == "ExprValidator"]
        ok = len(vals) == 1
        det = ""
        if ok:
            lam = vals[0].args[1]
            ev = Evaluator(const_of=const_of, this_names=(lam.args.args[0].arg,))
            cond = ev.cond(lam.body)
            mx = ctx.const(DT, f"MAX_NUM_{kind}", "L4")
            ok = cond in (f"-{mx} + this < 0", f"and(-{mx} + this < 0,this >= 0)")
            det = "" if ok else f"validator is `{cond}`, expected index < MAX_NUM_{kind} ({mx})"
            inner = vals[0].args[0]
            ok3 = norm(inner) in ("Computed(lambda this: new_index_expr(this))", "Computed(new_index_expr)")
            ok = ok and ok3
        ctx.ob("L4", vals[0] if vals else fn, f"{kind} index is validated against MAX_NUM_{kind} before any record is addressed", ok, det, inst=f"{kind}:bound")
        # the validated index is the one used by the pointers: new_index_expr = pass_expression_deeper(index_expr)
        asg = [n for n in own_nodes(fn) if isinstance(n, ast.Assign) and isinstance(n.targets[0], ast.Name) and n.targets[0].id == "new_index_expr"]
        ok = len(asg) == 1 and norm(asg[0].value) == f"pass_expression_deeper({fn.args.args[0].arg})"
        ctx.ob("L4", fn, f"{kind}: validator and pointers use the same index expression", ok, "", inst=f"{kind}:index-expr")
    ped = ctx.fn("smpl_extract/util/constructs.py", "pass_expression_deeper", "L4")
    lams = [n for n in own_nodes(ped) if isinstance(n, ast.Lambda)]
    ok = len(lams) == 2 and any(norm(l.body) == "expression(this._)" for l in lams) and any(norm(l.body) == "expression" for l in lams)
    ctx.ob("L4", ped, "pass_expression_deeper evaluates the index expression one context level up (or returns the constant)", ok, "", inst="pass_expression_deeper")


# ------------------------------------------------------------------------ L5
def rule_L5(ctx):
    """the Roland area constants are contiguous and sized"""
    DT = RO + "data_types.py"
    c = lambda k: ctx.const(DT, k, "L5")
    node = ctx.prog.assigned(DT, "ROLAND_BLOCK_SIZE", "L5")
    eqs = []
    eqs.append(("ROLAND_CLUSTER_SIZE = 18 * ROLAND_BLOCK_SIZE", c("ROLAND_CLUSTER_SIZE"), 18 * c("ROLAND_BLOCK_SIZE")))
    eqs.append(("FAT_AREA_OFFSET = ID + RESERVED + PROGRAM_TEXT areas", c("FAT_AREA_OFFSET"), c("ID_AREA_SIZE") + c("RESERVED_AREA_SIZE") + c("PROGRAM_TEXT_AREA")))
    eqs.append(("FAT_AREA_SIZE = FAT_NUM_ENTRIES * FAT_ENTRY_SIZE", c("FAT_AREA_SIZE"), c("FAT_NUM_ENTRIES") * c("FAT_ENTRY_SIZE")))
    eqs.append(("TOTAL_DIRECTORY_AREA_OFFSET = FAT_AREA_OFFSET + FAT_AREA_SIZE", c("TOTAL_DIRECTORY_AREA_OFFSET"), c("FAT_AREA_OFFSET") + c("FAT_AREA_SIZE")))
    prev_off, prev_size = c("TOTAL_DIRECTORY_AREA_OFFSET"), 0
    tot = 0
    for k in ("VOLUME", "PERFORMANCE", "PATCH", "PARTIAL", "SAMPLE"):
        eqs.append((f"{k}_DIRECTORY_AREA_OFFSET follows the previous area", c(f"{k}_DIRECTORY_AREA_OFFSET"), prev_off + prev_size))
        eqs.append((f"{k}_DIRECTORY_AREA_SIZE = MAX_NUM_{k} * entry size", c(f"{k}_DIRECTORY_AREA_SIZE"), c(f"MAX_NUM_{k}") * c(f"{k}_DIRECTORY_ENTRY_SIZE")))
        prev_off, prev_size = c(f"{k}_DIRECTORY_AREA_OFFSET"), c(f"{k}_DIRECTORY_AREA_SIZE")
        tot += prev_size
    eqs.append(("TOTAL_DIRECTORY_AREA_SIZE = sum of directory areas", c("TOTAL_DIRECTORY_AREA_SIZE"), tot))
    eqs.append(("TOTAL_PARAMETER_AREA_OFFSET follows the directory area", c("TOTAL_PARAMETER_AREA_OFFSET"), c("TOTAL_DIRECTORY_AREA_OFFSET") + c("TOTAL_DIRECTORY_AREA_SIZE")))
    prev_off, prev_size = c("TOTAL_PARAMETER_AREA_OFFSET"), 0
    tot = 0
    for k in ("VOLUME", "PERFORMANCE", "PATCH", "PARTIAL", "SAMPLE"):
        eqs.append((f"{k}_PARAMETER_AREA_OFFSET follows the previous area", c(f"{k}_PARAMETER_AREA_OFFSET"), prev_off + prev_size))
        eqs.append((f"{k}_PARAMETER_AREA_SIZE = MAX_NUM_{k} * entry size", c(f"{k}_PARAMETER_AREA_SIZE"), c(f"MAX_NUM_{k}") * c(f"{k}_PARAMETER_ENTRY_SIZE")))
        prev_off, prev_size = c(f"{k}_PARAMETER_AREA_OFFSET"), c(f"{k}_PARAMETER_AREA_SIZE")
        tot += prev_size
    eqs.append(("TOTAL_PARAMETER_AREA_SIZE = sum of parameter areas", c("TOTAL_PARAMETER_AREA_SIZE"), tot))
    eqs.append(("DATA_AREA_OFFSET follows the parameter area", c("DATA_AREA_OFFSET"), c("TOTAL_PARAMETER_AREA_OFFSET") + c("TOTAL_PARAMETER_AREA_SIZE")))
    eqs.append(("DATA_FAT_OFFSET = DATA_AREA_OFFSET - 2 clusters (FAT[2] is the first data cluster)", c("DATA_FAT_OFFSET"), c("DATA_AREA_OFFSET") - 2 * c("ROLAND_CLUSTER_SIZE")))
    eqs.append(("ROLAND_SAMPLE_WIDTH = 2", c("ROLAND_SAMPLE_WIDTH"), 2))
    for what, a, b in eqs:
        ctx.ob("L5", node, what, a == b, "" if a == b else f"{a:#x} != {b:#x}", inst=what.split(" ")[0], file=DT, qualname="<module>")
    # FatAreaStruct: entries array has FAT_NUM_ENTRIES words, the data stream window is the stated one (covered by L1r annotations as well)
    # the image struct seeks to FAT_AREA_OFFSET before the fat area
    img = ctx.prog.assigned(RO + "image.py", "RolandS7xxImageStruct", "L5")
    seeks = [n for n in ast.walk(img) if isinstance(n, ast.Call) and isinstance(n.func, ast.Name) and n.func.id == "Seek"]
    ok = len(seeks) == 1 and norm(seeks[0].args[0]) == "FAT_AREA_OFFSET"
    ctx.ob("L5", img, "image struct seeks to FAT_AREA_OFFSET before parsing the FAT area", ok, "", inst="seek-fat", file=RO + "image.py", qualname="<module>")
