"""P1..P7: stereo pairing, transcoding, export walk (C01, C03, C04, C05, C12)."""
import ast
import re
import copy

from ..core.loader import AnalysisError, dotted, norm, own_nodes, where, full, enclosing_class
from ..core import rx
from ..core.terms import Evaluator, Term
from ..core.symexec import run_paths, calls_on
from ..core.consts import NotConst
from .util import evaluator, path_conds_struct, cond_taken, find_try_handler, raises_in, return_keys
from .streams import _walk

ST = "smpl_extract/structural.py"
TR = "smpl_extract/transcoder.py"
A = Term.atom
C = Term.const


# ------------------------------------------------------------------------ P1
def rule_P1(ctx):
    fn = ctx.fn(ST, "Image.combine_stereo_routine", "P1")
    cfg = ctx.cfg(fn, "P1")
    fors = [f for f in own_nodes(fn) if isinstance(f, ast.For)]
    if len(fors) != 1:
        raise AnalysisError("P1", where(fn), f"expected one loop over the samples, found {len(fors)}")
    loop = fors[0]
    samples = fn.args.args[1].arg
    ok = norm(loop.iter) == samples
    ctx.ob("P1", loop, "the routine visits every sample of the level, in order", ok, "", inst="iterates-samples")
    # key domains
    dicts = {}
    for a in own_nodes(fn):
        if isinstance(a, ast.Assign) and isinstance(a.value, ast.DictComp) and len(a.targets) == 1 and isinstance(a.targets[0], ast.Name):
            dicts[a.targets[0].id] = a.value
        elif isinstance(a, ast.Assign) and len(a.targets) == 1 and isinstance(a.targets[0], ast.Name) and isinstance(a.value, ast.Call) \
                and norm(a.value.func) == "dict.fromkeys" and len(a.value.args) == 2 and not a.value.keywords:
            # dict.fromkeys(K, c) is {k: c for k in K}
            dicts[a.targets[0].id] = ast.DictComp(key=ast.Name(id="_k", ctx=ast.Load()), value=a.value.args[1],
                                                  generators=[ast.comprehension(target=ast.Name(id="_k", ctx=ast.Store()), iter=a.value.args[0], ifs=[], is_async=0)])
    sd = [k for k, v in dicts.items() if norm(v.key).endswith(".export_name") and norm(v.generators[0].iter) == samples]
    mk = [k for k, v in dicts.items() if sd and norm(v.generators[0].iter) in (sd[0], sd[0] + ".keys()") and isinstance(v.value, ast.Constant) and v.value.value is False]
    ok = len(sd) == 1 and len(mk) == 1
    ctx.ob("P1", fn, "samples are indexed by export name and a `consumed` mark exists for every such name", ok, f"dicts {sorted(dicts)}", inst="indexes")
    if not ok:
        return
    sample_dict, marked = sd[0], mk[0]
    dom = cfg.dominators(skip_labels=("exc",))
    # every subscript of marked / sample_dict uses a key from the export-name domain
    lv = loop.target.id

    def key_in_domain(k, at_stmt):
        if not isinstance(k, ast.Name):
            return False, f"key `{norm(k)}` is not an export-name variable"
        defs = [a for a in ast.walk(loop) if isinstance(a, ast.Assign) and any(isinstance(t, ast.Name) and t.id == k.id for t in a.targets)]
        for d in defs:
            if isinstance(d.value, ast.Attribute) and d.value.attr == "export_name":
                return True, ""
        # membership established on every iteration path that reaches the use (`if k in d:` around it, or `if k not in d: continue` before it)
        lp_ = cfg.loop_of(loop)
        target = cfg.node_of.get(id(at_stmt))
        reached = 0
        for kind_, path_, edge_ in cfg.iteration_paths(lp_):
            ids = [x for x, lab in path_]
            if target not in ids:
                continue
            reached += 1
            member = False
            for x, lab in path_[:ids.index(target)]:
                nd = cfg.nodes[x]
                if nd.kind == "test" and isinstance(nd.ast, ast.If) and isinstance(nd.ast.test, ast.Compare) and len(nd.ast.test.ops) == 1 \
                        and norm(nd.ast.test.left) == k.id and norm(nd.ast.test.comparators[0]) in (sample_dict, sample_dict + ".keys()"):
                    op = nd.ast.test.ops[0]
                    if (isinstance(op, ast.In) and lab == "true") or (isinstance(op, ast.NotIn) and lab == "false"):
                        member = True
            if not member:
                return False, f"key `{k.id}` is neither an export_name nor checked to be a key of `{sample_dict}`"
        if reached:
            return True, ""
        return False, f"key `{k.id}` is neither an export_name nor checked to be a key of `{sample_dict}`"

    n_sub = 0
    for st in ast.walk(loop):
        if isinstance(st, ast.Subscript) and isinstance(st.value, ast.Name) and st.value.id in (marked, sample_dict):
            n_sub += 1
            holder = st
            while not isinstance(holder, ast.stmt):
                holder = holder._parent
            ok, det = key_in_domain(st.slice, holder)
            ctx.ob("P1", holder, f"`{st.value.id}[...]` is keyed by an export name (the key space the marks and the index share)", ok, det,
                   inst=f"{st.value.id}[{norm(st.slice)}]@{norm(holder)[:60]}")
    if n_sub == 0:
        raise AnalysisError("P1", where(loop), "mark/index accesses not found")
    stores = [st for st in ast.walk(loop) if isinstance(st, ast.Assign) and isinstance(st.targets[0], ast.Subscript) and norm(st.targets[0].value) == marked]
    ctx.ob("P1", loop, "both the visited sample and (for pairs) its partner are marked consumed", len(stores) >= 2,
           "" if len(stores) >= 2 else f"only {len(stores)} store(s) into `{marked}`: a consumed partner is exported a second time as a mono file", inst="two-mark-sites")
    # per-iteration paths
    lp = cfg.loop_of(loop)
    n = 0
    for kind, path, edge in cfg.iteration_paths(lp):
        if kind != "back":
            continue
        n += 1
        stmts = [(cfg.nodes[x].kind, cfg.nodes[x].ast, lab) for x, lab in path if cfg.nodes[x].ast is not None]
        is_continue = any(k == "continue" for k, s, l in stmts)
        appends = [s for k, s, l in stmts if k == "stmt" and isinstance(s, ast.Expr) and isinstance(s.value, ast.Call) and norm(s.value.func) == "result.append"]
        own_marks = [s for k, s, l in stmts if k == "stmt" and isinstance(s, ast.Assign) and isinstance(s.targets[0], ast.Subscript)
                     and norm(s.targets[0].value) == marked and norm(s.value) == "True"]
        combines = [c for k, s, l in stmts if k == "stmt" for c in ast.walk(s) if isinstance(c, ast.Call) and norm(c.func) == "combine_stereo"]
        lines = sorted({getattr(s, "lineno", 0) for k, s, l in stmts})
        if not appends and not combines:
            guards = [s for k, s, l in stmts if k == "test" and isinstance(s, ast.If) and l == "true" and norm(s.test) == f"{marked}[name]"]
            ok = bool(guards) and not appends and not combines
            ctx.ob("P1", loop, "a sample is skipped only because it was already consumed as the other half of a pair", ok,
                   "" if ok else f"path through lines {lines} skips a sample without the consumed-mark test", inst=f"skip:{len(path)}")
            continue
        ok = len(appends) == 1
        ctx.ob("P1", loop, "an unconsumed sample contributes exactly one output sample", ok, "" if ok else f"{len(appends)} appends on the path through lines {lines}", inst=f"one-append:{lines[-3:]}:{len(combines)}")
        self_mark = [s for s in own_marks if norm(s.targets[0].slice) == "name"]
        ok = len(self_mark) == 1
        ctx.ob("P1", loop, "the sample is marked consumed after it was emitted", ok, "", inst=f"self-mark:{lines[-3:]}:{len(combines)}")
        other = [s for s in own_marks if norm(s.targets[0].slice) != "name"]
        ok = (len(other) == 1) == (len(combines) == 1) and len(combines) <= 1
        ctx.ob("P1", loop, "the partner is marked consumed exactly when a stereo pair was formed", ok,
               "" if ok else f"{len(other)} partner marks vs {len(combines)} combine_stereo calls on the path through lines {lines}", inst=f"partner-mark:{lines[-3:]}:{len(combines)}")
        if combines:
            # what is appended is the combined sample
            arg0 = appends[0].value.args[0] if appends and appends[0].value.args else None
            ok = arg0 is combines[0] or (isinstance(arg0, ast.Name) and [s for k, s, l in stmts if k == "stmt" and isinstance(s, ast.Assign) and norm(s.targets[0]) == arg0.id][-1:] != []
                                         and [s for k, s, l in stmts if k == "stmt" and isinstance(s, ast.Assign) and norm(s.targets[0]) == arg0.id][-1].value is combines[0])
            ctx.ob("P1", loop, "the pair is emitted as the combined sample", ok, "", inst="emit-combined")
            # partner is looked up under the alternate name
            ok = any(isinstance(s, ast.Assign) and norm(s.targets[0]) == "alternate_sample" and norm(s.value) == f"{sample_dict}[alternate_name]" for k, s, l in stmts)
            ctx.ob("P1", loop, "the partner is the sample indexed under the alternate name", ok, "", inst="partner-lookup")
    if n < 3:
        raise AnalysisError("P1", where(loop), f"only {n} iteration paths")
    rets = [r for r in own_nodes(fn) if isinstance(r, ast.Return)]
    ok = len(rets) == 1 and norm(rets[0].value) == "result"
    ctx.ob("P1", fn, "the routine returns the accumulated list", ok, "", inst="returns")


# ------------------------------------------------------------------------ P8
def rule_P8(ctx):
    """the sample routine a CDDA image hands to the exporter (looked up through the class hierarchy) passes tracks through:
    tracks are already stereo, and two titles ending in L / R must not be merged into one 4-channel sample"""
    cls = ctx.prog.klass("smpl_extract/cdda/image.py", "CompactDiskAudioImage", "P8")
    cd = ctx.prog.find_method(cls, "combine_stereo_routine")
    if cd is None:
        raise AnalysisError("P8", "smpl_extract/cdda/image.py:CompactDiskAudioImage", "no combine_stereo_routine in the class hierarchy (anchor vanished)")
    owner = getattr(getattr(cd, "_parent", None), "name", "?")
    rets = [r for r in own_nodes(cd) if isinstance(r, ast.Return)]
    params = [a.arg for a in cd.args.args]
    from .sem import single_defs
    defs = single_defs(cd)

    def resolves_to_param(e, depth=0):
        if isinstance(e, ast.Name) and len(params) > 1 and e.id == params[1]:
            return True
        if isinstance(e, ast.Name) and e.id in defs and depth < 3:
            return resolves_to_param(defs[e.id], depth + 1)
        return False

    ok = len(rets) >= 1 and all(r.value is not None and resolves_to_param(r.value) for r in rets) and not [c for c in own_nodes(cd) if isinstance(c, ast.Call)]
    ctx.ob("P8", cd, "CDDA tracks (already stereo) are passed through unchanged", ok,
           "" if ok else f"CompactDiskAudioImage uses {owner}.combine_stereo_routine, which is not a pass-through: tracks whose titles differ only in a final L / R are merged",
           inst="cdda-passthrough", file=getattr(cd, "_module", None).path if getattr(cd, "_module", None) else None)
    # and this is the routine export registers
    ex = ctx.fn("smpl_extract/actions.py", "export_samples_to_wav", "P8")
    img = ex.args.args[0].arg
    okr, n_reg = True, 0
    for p in run_paths(ctx, ex, rule="P8"):
        for c, e, st in calls_on(p, name="ExportManager"):
            n_reg += 1
            k = evaluator(ctx, ex, e).ev(c).key()
            okr = okr and f"combine_stereo:{img}.combine_stereo_routine" in k
    okr = okr and n_reg >= 1
    ctx.ob("P8", ex, "export registers the image's own combine_stereo_routine as the sample routine", okr, "", inst="export-registers-routine")


# ------------------------------------------------------------------------ P2
class _Subst(ast.NodeTransformer):
    def __init__(self, mapping):
        self.mapping = mapping

    def visit_Call(self, node):
        t = norm(node)
        if t in self.mapping:
            return ast.Constant(value=self.mapping[t])
        return self.generic_visit(node)

    def visit_Name(self, node):
        if node.id in self.mapping:
            return ast.Constant(value=self.mapping[node.id])
        return node


def rule_P2(ctx):
    fn = ctx.fn(ST, "Image.combine_stereo_routine", "P2")
    rg = ctx.prog.class_assigned(ST, "Image", "_STEREO_FILENAME", "P2")
    from .util import regex_value
    pat, _fl = regex_value(ctx, rg, ctx.prog.module(ST), "P2", f"{ST}:Image._STEREO_FILENAME")
    import re._constants as sc
    t = rx.parse(pat, _fl or 0)
    gs = rx.groups(t)
    alts = None
    if len(gs) == 3 and len(gs[2][1]) == 1 and gs[2][1][0][0] is sc.BRANCH:
        alts = [rx.literal_text(a) for a in gs[2][1][0][1][1]]
    elif len(gs) == 3 and len(gs[2][1]) == 1 and gs[2][1][0][0] is sc.IN and all(op is sc.LITERAL for op, av in gs[2][1][0][1]):
        alts = [chr(av) for op, av in gs[2][1][0][1]]
    ok = alts is not None and sorted(alts) == ["L", "R"]
    ctx.ob("P2", rg, "the channel suffix group matches exactly `L` or `R`", ok, f"{alts}", inst="suffix-alternatives", file=ST, qualname="Image")
    sep = None
    if len(gs) == 3 and len(gs[1][1]) == 1 and gs[1][1][0][0] is sc.MAX_REPEAT and gs[1][1][0][1][0] == 1 and gs[1][1][0][1][2][0][0] is sc.IN:
        neg, fullc, touched = rx.class_items(gs[1][1][0][1][2][0][1])
        sep = (neg, touched)
    ok = sep is not None and not sep[0] and sep[1] == {rx.SP, rx.WS, rx.DASH}
    ctx.ob("P2", rg, "the separator before L/R is a non-empty run of blanks and hyphens", ok, f"{sep}", inst="separator", file=ST, qualname="Image")
    # the stem is whatever precedes the separator run: any characters at all (a stem may end in `#`, `.`, `)`), and as few of them as
    # possible - a greedy stem would keep all but the last separator character, so that `A  -L` pairs under the stem `A  ` / `A -`
    ok = len(gs) == 3 and rx.is_lazy_any_star(gs[0][1]) and rx.ends_at_end(t) and gs[0][2] == 0
    ctx.ob("P2", rg, "the stem group is the shortest prefix (any characters, possibly none) in front of the separator run, matched from the start to the end of the name", ok, pat,
           inst="stem-shortest-any", file=ST, qualname="Image")
    m = [a for a in own_nodes(fn) if isinstance(a, ast.Assign) and norm(a.targets[0]) == "match"]
    ok = len(m) == 1 and norm(m[0].value) == "self._STEREO_FILENAME.match(name)"
    ctx.ob("P2", fn, "pairing is decided on the sample's export name", ok, "", inst="match-on-name")
    if not alts:
        return
    # concrete case analysis over group(3): interpret the loop body with the visited sample and its partner as opaque symbols
    from .sem import Mini, Sym
    fors = [f for f in own_nodes(fn) if isinstance(f, ast.For)]
    if len(fors) != 1:
        raise AnalysisError("P2", where(fn), "pairing loop not found")
    loop = fors[0]
    lv = loop.target.id
    for g3 in sorted(alts):
        def special(node, interp):
            if isinstance(node, ast.Subscript) and isinstance(node.value, ast.Name) and node.value.id not in interp.env \
                    and any(isinstance(a, ast.Assign) and isinstance(a.value, ast.DictComp) and norm(a.targets[0]) == node.value.id
                            and norm(a.value.key).endswith(".export_name") for a in own_nodes(fn)):
                return Sym("PARTNER")
            return None

        def assume(text):
            if text.startswith("marked[") or (text.split("[")[0] in ("marked",)):
                return False
            if " not in " in text:
                return False  # the partner exists: membership tests succeed
            if text.endswith(" is None") or text.endswith(" == None"):
                return False  # the regex matched, the partner was found
            return True

        mi = Mini(ctx, fn._module, env={"match.group(3)": g3, "match.group(1)": "STEM", "match.group(2)": "-", "match.groups()": ("STEM", "-", g3), lv: Sym("VISITED"),
                                          f"{lv}.export_name": "STEM-" + g3}, assume=assume, special=special)
        mi.run(loop.body)
        combos = [(args, kw) for ft, args, kw, node in mi.calls if ft == "combine_stereo"]
        other = "R" if g3 == "L" else "L"
        if len(combos) != 1:
            ctx.ob("P2", loop, f"a sample ending in {g3} whose partner exists is combined exactly once", False, f"{len(combos)} combine_stereo calls on the pairing path", inst=f"orientation:{g3}")
            continue
        args, kw = combos[0]
        left = args[0] if len(args) > 0 else kw.get("left")
        right = args[1] if len(args) > 1 else kw.get("right")
        newn = args[2] if len(args) > 2 else kw.get("new_name")
        want = ("VISITED", "PARTNER") if g3 == "L" else ("PARTNER", "VISITED")
        ok = (str(left), str(right)) == want
        ctx.ob("P2", loop, f"when the visited sample ends in {g3}, combine_stereo(left, right) receives the L sample first", ok,
               "" if ok else f"left={left!r}, right={right!r}: channel 0 would carry the R sample for some directory order", inst=f"orientation:{g3}")
        ok = newn == "STEM"
        ctx.ob("P2", loop, "the merged file is named after the common stem (group 1)", ok, f"new name {newn!r}", inst=f"stem-name:{g3}")
        # the partner looked up is stem + same separator + other suffix
        looked = [mi.env.get(k) for k in ("alternate_name",) if k in mi.env]
        partner_keys = []
        for ft, args2, kw2, node in mi.calls:
            pass
        # evaluate the subscript key of the index lookup on this path
        keys = []
        for n in ast.walk(loop):
            if isinstance(n, ast.Subscript) and isinstance(n.value, ast.Name) and special(n, mi) is not None and isinstance(n.ctx, ast.Load):
                keys.append(Mini.ev(Mini(ctx, fn._module, env=mi.env), n.slice))
        ok = bool(keys) and all(k == "STEM-" + other for k in keys)
        ctx.ob("P2", loop, f"for a sample ending in {g3} the partner looked up is stem + same separator + {other}", ok, f"looked up {keys}", inst=f"alt-name:{g3}")


# ------------------------------------------------------------------------ P3
def rule_P3(ctx):
    from .sem import grow_events, local_function
    fn = ctx.fn("smpl_extract/generalized/sample.py", "combine_stereo", "P3")
    l, r = fn.args.args[0].arg, fn.args.args[1].arg
    from .sem import record_fields
    nn = fn.args.args[2].arg if len(fn.args.args) > 2 else "new_name"
    recs = {}
    for case in (True, False):
        recs[case] = record_fields(fn, lambda t, c=case: (c if (f"{nn} is not None" == t) else ((not c) if f"{nn} is None" == t else None)))
    if recs[True] is None or recs[False] is None:
        raise AnalysisError("P3", where(fn), "combine_stereo: how the result's fields are produced is not understood (unrecognised form)")
    rec, order = recs[True]
    ds = rec.get("data_streams")
    ok = ds == ("iadd", f"{r}.data_streams") or ds in (f"{l}.data_streams + {r}.data_streams", f"list({l}.data_streams) + list({r}.data_streams)", f"[*{l}.data_streams, *{r}.data_streams]")
    ctx.ob("P3", fn, "combined streams = left's streams followed by right's streams", ok, "" if ok else f"data_streams = {ds}", inst="stream-order")
    ok = rec.get("__base__") == l and rec.get("__class__") == "Sample"
    detc = f"{rec.get('__base__')}"
    if not ok and rec.get("__explicit__") and rec.get("__class__") == "Sample":
        # the same written field by field: every field of Sample that the merge does not set itself is taken from the left sample
        from ..core.terms import DC_FIELDS as _dcf
        own_set = {"data_streams", "channel_config", "num_channels", "_export_name"}
        missing = [f_ for f_ in (_dcf.get("Sample") or ()) if f_ not in rec and f_ not in own_set]
        wrong = [f_ for f_ in (_dcf.get("Sample") or ()) if f_ in rec and f_ not in own_set and rec[f_] not in (f"{l}.{f_}", f"copy.copy({l}.{f_})", f"copy({l}.{f_})", f"list({l}.{f_})")]
        ok = bool(_dcf.get("Sample")) and not missing and not wrong
        detc = "" if ok else (f"field(s) {missing} of the left sample are not carried over: the merged sample falls back to the class defaults" if missing else f"field(s) {wrong} do not come from the left sample")
        if ok:
            ok = rec.get("data_streams") in (f"{l}.data_streams + {r}.data_streams", f"list({l}.data_streams) + list({r}.data_streams)", f"[*{l}.data_streams, *{r}.data_streams]")
    if ok and rec.get("__public_only__"):
        # only the fields with public names are copied by the loop: every other field of Sample has to be handed over by name
        from ..core.terms import DC_FIELDS as _dcf2
        priv = [f_ for f_ in (_dcf2.get("Sample") or ()) if f_.startswith("_")]
        lost = [f_ for f_ in priv if rec.get(f_) is None]
        ok = bool(_dcf2.get("Sample")) and not lost
        detc = "" if ok else f"field(s) {lost} of the left sample are not carried over (the copy takes public fields only): the merged sample loses its place in the tree / its names"
    ctx.ob("P3", fn, "the result starts as a shallow copy of every field of the left sample (its stream list is a new list)", ok, detc, inst="copy-left")
    ok = rec.get("num_channels") in (f"len({rec.get('__var__', 'result')}.data_streams)", f"len({l}.data_streams + {r}.data_streams)") and rec.get("channel_config") == "ChannelConfig.STEREO_SPLIT_STREAMS"
    ctx.ob("P3", fn, "channel count = number of combined streams", ok, "" if ok else f"num_channels={rec.get('num_channels')}, channel_config={rec.get('channel_config')}", inst="num-channels")
    ok = "num_channels" in order and "data_streams" in order and (order.index("num_channels") > order.index("data_streams") or bool(rec.get("__explicit__")))
    ctx.ob("P3", fn, "the channel count is taken after the right streams were added", ok, f"{order}", inst="count-after-add")


def rule_P9(ctx):
    """uniqueness of output paths (C06): a merged left/right pair is exported under the common stem; the stem must not be the export name
    of another sample of the same directory (`PAD -L`, `PAD -R` next to a mono `PAD`), or two samples are written to one path.  On every
    path that merges a pair the stem is looked up among the names in use before it is given to the merged sample"""
    fn = ctx.fn(ST, "Image.combine_stereo_routine", "P9")
    n_merge = 0
    ok = True
    for p in run_paths(ctx, fn, rule="P9", limit=6000):
        merges = [(c_, e_) for c_, e_, st_ in calls_on(p, name="combine_stereo")]
        if not merges:
            continue
        n_merge += 1
        c_, e_ = merges[0]
        stem = evaluator(ctx, fn, e_).ev(c_.args[2]).key().replace("~", "") if len(c_.args) > 2 else (
            next((evaluator(ctx, fn, e_).ev(k_.value).key().replace("~", "") for k_ in c_.keywords if k_.arg == "new_name"), None))
        checked = any(re.search(r"\bIn\(" + re.escape(stem or "?") + r",", c2_.replace("~", "")) or re.search(r"\bNotIn\(" + re.escape(stem or "?") + r",", c2_.replace("~", ""))
                      for c2_, t_, _n in p.conds)
        if not checked:
            ok = False
    if n_merge == 0:
        raise AnalysisError("P9", where(fn), "no path merges a stereo pair (anchor vanished)")
    ctx.ob("P9", fn, "the name of a merged stereo pair is checked against the other names of the directory before it is used", ok,
           "" if ok else "the common stem is used as it is: `PAD -L`, `PAD -R` and a mono `PAD` in one directory are both exported to PAD.wav (the second write replaces the first)",
           inst="stem-unchecked")


# ------------------------------------------------------------------------ P4
def _list_domain(node, env):
    """STREAM / CHANNEL / None for a list-valued expression"""
    if isinstance(node, ast.Name):
        return env.get(node.id)
    if isinstance(node, ast.Call) and isinstance(node.func, ast.Name) and node.func.id == "list" and node.args:
        return _list_domain(node.args[0], env)
    if isinstance(node, ast.Call) and isinstance(node.func, ast.Name) and node.func.id in ("get_buffer_sizes",):
        return "STREAM"
    if isinstance(node, ast.Call) and isinstance(node.func, ast.Name) and node.func.id in ("decode_frame", "pad_channels", "swap_endianess", "swap_endianess_multi"):
        return "CHANNEL"
    if isinstance(node, (ast.GeneratorExp, ast.ListComp)):
        gens = node.generators
        d0 = _list_domain(gens[0].iter, env)
        if d0 == "STREAM":
            if len(gens) == 1:
                return "STREAM"
            # nested `for _ in range(<channels of the outer element>)`
            g1 = gens[1]
            it = g1.iter
            if isinstance(it, ast.Call) and norm(it.func) == "range" and "num_interleaved_channels" in norm(it) and isinstance(gens[0].target, ast.Name) \
                    and gens[0].target.id in {n.id for n in ast.walk(it) if isinstance(n, ast.Name)}:
                return "CHANNEL"
            return None
        if d0 == "CHANNEL" and len(gens) == 1:
            return "CHANNEL"
    return None


def _encoding_eq(ctx):
    """StreamEncoding.__eq__ decides whether a source can be copied through without transcoding: whenever it answers True, byte
    order, sample width, signedness and channel layout have been compared equal (on that path or in the returned conjunction)"""
    fn = ctx.fn("smpl_extract/data_streams.py", "StreamEncoding.__eq__", "P4")
    n_true = 0
    ok, det = True, ""
    for p in run_paths(ctx, fn, rule="P4"):
        if p.end != "return" or p.ret is None:
            continue
        rk = p.ret.key()
        if rk == "0":
            continue
        n_true += 1
        true_facts, false_facts = [], []
        for c, t, _ in p.conds:
            neg, x = False, c
            while x.startswith("not(") and x.endswith(")"):
                x, neg = x[4:-1], not neg
            (true_facts if t != neg else false_facts).append(x)
        if rk != "1":
            true_facts.append(rk)
        conj = [f for f in true_facts if "or(" not in f and "any(" not in f]
        for fld in ("endianess", "sample_width", "is_signed"):
            pat_eq = re.compile(rf"-1\*[^ ]*\.{fld} \+ self\.{fld} == 0")
            pat_ne = re.compile(rf"^-1\*[^ ]*\.{fld} \+ self\.{fld} != 0$")
            if not (any(pat_eq.search(f) for f in conj) or any(pat_ne.match(f) for f in false_facts)):
                ok, det = False, f"a path answers `equal` without having compared {fld} (under [{p.cond_key()[:120]}])"
        chan_eq = re.compile(r"-1\*[^ ]*\.(is_interleaved|num_interleaved_channels) \+ self\.\1 == 0")
        chan_ne = re.compile(r"^-1\*[^ ]*\.(is_interleaved|num_interleaved_channels) \+ self\.\1 != 0$")
        if not (any(chan_eq.search(f) for f in conj) or any(chan_ne.match(f) for f in false_facts)):
            ok, det = False, "a path answers `equal` without having compared the channel layout"
    ok = ok and n_true >= 1
    if not ok:
        # decided on a small model instead: the fields are only compared with each other and with 0/1, so two values per field
        # (four for the channel count: both sides of `> 1`, twice) show every way the answer can depend on them
        m_ok, m_det = _encoding_eq_model(ctx, fn)
        if m_ok:
            ok, det = True, ""
        elif m_det:
            det = det + "; " + m_det
    ctx.ob("P4", fn, "two encodings are equal only if byte order, sample width, signedness and channel layout are all equal", ok, det, inst="encoding-eq")


def _encoding_eq_model(ctx, fn):
    import itertools
    from .sem import Mini, Sym
    consts = {n.value for n in ast.walk(fn) if isinstance(n, ast.Constant) and not isinstance(n.value, str)}
    if not consts <= {0, 1, True, False, None}:
        return False, "constants other than 0/1 are compared"
    cls = enclosing_class(fn)
    prop = next((st for st in cls.body if isinstance(st, ast.FunctionDef) and st.name == "is_interleaved"), None) if cls is not None else None
    if prop is None or [norm(r.value) for r in own_nodes(prop) if isinstance(r, ast.Return)] not in (["self.num_interleaved_channels > 1"],) and \
            {k_ for k_ in return_keys(ctx, prop, "P4")} != {"cond(self.num_interleaved_channels - 1 > 0)"} and {k_ for k_ in return_keys(ctx, prop, "P4")} != {"cond(-1 + self.num_interleaved_channels > 0)"}:
        return False, "is_interleaved is not `num_interleaved_channels > 1`"
    other = fn.args.args[1].arg
    n_true = 0
    dom = list(itertools.product((0, 1), (1, 2), (0, 1), (0, 1, 2, 3)))
    for a, b in itertools.product(dom, dom):
        env = {}
        for who, v in (("self", a), (other, b)):
            env[f"{who}.endianess"], env[f"{who}.sample_width"], env[f"{who}.is_signed"], env[f"{who}.num_interleaved_channels"] = v
            env[f"{who}.is_interleaved"] = v[3] > 1

        def special(node, interp):
            if isinstance(node, ast.Call) and isinstance(node.func, ast.Name) and node.func.id in ("all", "any") and len(node.args) == 1:
                v_ = interp.ev(node.args[0])
                if isinstance(v_, (list, tuple)) and all(isinstance(x, bool) for x in v_):
                    return all(v_) if node.func.id == "all" else any(v_)
            if isinstance(node, ast.Call) and isinstance(node.func, ast.Name) and node.func.id == "isinstance":
                return True
            return None

        mi = Mini(ctx, fn._module, env=env, special=special)
        r = mi.run(fn.body)
        if r != "return" or getattr(mi, "undecided", 0):
            return False, "the comparison could not be followed on the model"
        v = mi.env.get("<return>")
        if isinstance(v, Sym) or not isinstance(v, bool):
            return False, "the comparison could not be followed on the model"
        same = a[0] == b[0] and a[1] == b[1] and a[2] == b[2] and (a[3] > 1) == (b[3] > 1) and (a[3] <= 1 or a[3] == b[3])
        if v and not same:
            return False, f"answers `equal` for (endianess, width, signed, channels) = {a} and {b}"
        n_true += 1 if v else 0
    return n_true >= 1, ""


def rule_P4(ctx):
    """parallel iteration (zip) only combines lists of the same index domain (per stream / per channel)"""
    _encoding_eq(ctx)
    m = ctx.prog.module(TR)
    seeds = {"data_streams": "STREAM", "streams": "STREAM", "channels": "CHANNEL", "buffer_sizes": "STREAM"}
    n = 0
    for q, fn in sorted(m.functions.items()):
        env = dict(seeds)
        if q == "swap_endianess_multi" and len(fn.args.args) == 2:
            env[fn.args.args[1].arg] = "CHANNEL"  # contract of the parameter; every call site is checked below
        # per-function local list definitions
        for a in sorted([x for x in own_nodes(fn) if isinstance(x, ast.Assign)], key=lambda x: x.lineno):
            if len(a.targets) == 1 and isinstance(a.targets[0], ast.Name):
                d = _list_domain(a.value, env)
                if d is not None:
                    env[a.targets[0].id] = d
                elif a.targets[0].id in env and not isinstance(a.value, (ast.List,)):
                    # reassigned to something unknown
                    if isinstance(a.value, (ast.GeneratorExp, ast.ListComp)) or (isinstance(a.value, ast.Call) and norm(a.value.func) == "list"):
                        env[a.targets[0].id] = None
        from .sem import list_builder as _lb
        for nm in {a.targets[0].id for a in own_nodes(fn) if isinstance(a, ast.Assign) and len(a.targets) == 1 and isinstance(a.targets[0], ast.Name)} | \
                  {a.target.id for a in own_nodes(fn) if isinstance(a, ast.AnnAssign) and isinstance(a.target, ast.Name)}:
            if env.get(nm) is None:
                lb = _lb(fn, nm)
                if lb is not None and env.get(lb[0]) == "STREAM" and lb[1]:
                    if all(c is None for c, e in lb[1]) and len(lb[1]) == 1:
                        env[nm] = "STREAM"
                    elif all(c is not None and "_c0" in c and "num_interleaved_channels" in c for c, e in lb[1]):
                        env[nm] = "CHANNEL"
        fn._p4env = env
        for c in own_nodes(fn):
            if isinstance(c, ast.Call) and isinstance(c.func, ast.Name) and c.func.id == "zip":
                n += 1
                doms = [_list_domain(a, env) for a in c.args]
                ok = all(d is not None for d in doms) and len(set(doms)) == 1
                ctx.ob("P4", c, "zip combines lists indexed the same way (all per-stream or all per-channel)", ok,
                       "" if ok else f"`{norm(c)}` mixes domains {doms}: with an interleaved source the shorter list truncates the channel list", inst=f"zip@{q}:{norm(c)}")
    if n < 2:
        raise AnalysisError("P4", TR, f"{n} zip sites found (confirmed: 2)")
    # interprocedural: arguments bound to per-channel parameters
    sm = m.functions.get("swap_endianess_multi")
    if sm is None:
        raise AnalysisError("P4", TR, "swap_endianess_multi not found")
    params = [a.arg for a in sm.args.args]
    mt = ctx.fn(TR, "make_transcoder", "P4")
    env = mt._p4env
    calls = [c for c in ast.walk(m.tree) if isinstance(c, ast.Call) and norm(c.func) == "swap_endianess_multi"]
    other = [mm.path for mm in ctx.prog.modules.values() if mm is not m for c in ast.walk(mm.tree) if isinstance(c, ast.Call) and norm(c.func).endswith("swap_endianess_multi")]
    if other:
        ctx.ob("P4", mt, "swap_endianess_multi is called only from make_transcoder", False, f"also called in {other}", inst="swap-callers")
    ok_any = False
    for c in calls:
        ok_any = True
        flags = c.args[1] if len(c.args) > 1 else next((k_.value for k_ in c.keywords if k_.arg == params[1]), None)
        d = _list_domain(flags, env) if flags is not None else None
        ok = d == "CHANNEL"
        ctx.ob("P4", c, "the byte-swap flags handed to swap_endianess_multi are per channel (that function zips them with the channel list)", ok,
               "" if ok else f"`{norm(flags)}` is indexed per {d or 'unknown'}: one flag per stream is zipped with one entry per channel", inst="swap-flags-domain")
    if not ok_any:
        ctx.ob("P4", mt, "mixed-endian inputs are handled by swap_endianess_multi", False, "call not found", inst="swap-flags-domain")
    # the flag itself: stream endianness vs system byte order ; output swap vs destination
    from .sem import list_builder, sum_builder
    flag_names = {norm(c.args[1]) for c in calls if len(c.args) > 1 and isinstance(c.args[1], ast.Name)} | \
        {norm(k_.value) for c in calls for k_ in c.keywords if k_.arg == params[1] and isinstance(k_.value, ast.Name)}
    ds = mt.args.args[0].arg
    ok, det = len(flag_names) == 1, f"flag lists {sorted(flag_names)}"
    if ok:
        lb = list_builder(mt, sorted(flag_names)[0])
        want = (ds, [("max(1, _c0.encoding.num_interleaved_channels)", "_c0.encoding.endianess != system_byte_order")])
        alt = (ds, [("max(1, _c0.encoding.num_interleaved_channels)", "system_byte_order != _c0.encoding.endianess")])
        ok = lb in (want, alt)
        det = "" if ok else f"flags are built as {lb}"
    ctx.ob("P4", mt, "an input channel is swapped iff its stream's byte order differs from the host's (one flag per interleaved channel of each stream)", ok, det, inst="swap-predicate")
    ifs = [i for i in own_nodes(mt) if isinstance(i, ast.If) and norm(i.test) == "dest_encoding.endianess != system_byte_order"]
    ok = len(ifs) == 1 and "swap_endianess" in full(ifs[0].body[0])
    det_os = ""
    if ok:
        # per path of the pipeline branch: steps are only ever added to the process list; when the destination order differs from the
        # host's the last step added is the plain byte swap, otherwise no output swap is added
        removers = [c for c in own_nodes(mt) if isinstance(c, ast.Call) and isinstance(c.func, ast.Attribute) and c.func.attr in ("pop", "remove", "clear", "insert", "reverse", "sort")
                    and norm(c.func.value) == "processes"]
        removers += [d_ for d_ in own_nodes(mt) if isinstance(d_, ast.Delete) and any("processes" in norm(t_) for t_ in d_.targets)]
        if removers:
            ok, det_os = False, f"`{norm(removers[0])[:60]}` takes a queued step out of the pipeline"
        n_sw = n_no = 0
        for p_ in run_paths(ctx, mt, rule="P4", limit=6000):
            if p_.end != "return":
                continue
            truth_ = next((t_ for c_, t_, n_ in p_.conds if n_ is ifs[0]), None)
            if truth_ is None:
                continue  # pass-through: returned before the pipeline is assembled
            steps_ = []
            for c, e, st in calls_on(p_):
                if isinstance(c.func, ast.Attribute) and c.func.attr == "append" and norm(c.func.value) == "processes" and c.args and isinstance(c.args[0], ast.Tuple) and len(c.args[0].elts) == 2:
                    steps_.append((norm(c.args[0].elts[0]), evaluator(ctx, mt, e).ev(c.args[0].elts[1]).key(), st))
            outs_ = [s_ for s_ in steps_ if "output" in s_[0]]
            if truth_:
                n_sw += 1
                if not (len(outs_) == 1 and outs_[0][1] == "swap_endianess" and steps_ and steps_[-1] is outs_[0]):
                    ok, det_os = False, f"destination order differs from the host's but the steps are {[s_[0] for s_ in steps_]}"
            else:
                n_no += 1
                if outs_:
                    ok, det_os = False, "an output swap is added although the destination order is the host's"
        ok = ok and n_sw >= 1 and n_no >= 1
    ctx.ob("P4", mt, "the output is swapped iff the destination byte order differs from the host's", ok, det_os, inst="output-swap")
    # dispatch decided per path: no flag set -> no input swap; all set -> swap_endianess; mixed -> swap_endianess_multi
    from .util import truth_of
    fl = sorted(flag_names)[0] if len(flag_names) == 1 else "swaps"
    seen_d = set()
    okd, detd = True, ""
    for p in run_paths(ctx, mt, rule="P4", limit=6000):
        if p.end != "return":
            continue
        added = []
        for c, e, st in calls_on(p):
            if isinstance(c.func, ast.Attribute) and c.func.attr == "append" and c.args and isinstance(c.args[0], ast.Tuple) and len(c.args[0].elts) == 2:
                nm = c.args[0].elts[0]
                if isinstance(nm, ast.Constant) and isinstance(nm.value, str) and "input" in nm.value:
                    v = c.args[0].elts[1]
                    if isinstance(v, ast.Name):
                        # a step function bound to a local first
                        dv_ = [a_ for a_ in own_nodes(mt) if isinstance(a_, ast.Assign) and len(a_.targets) == 1 and norm(a_.targets[0]) == v.id]
                        v = dv_[0].value if len(dv_) == 1 and isinstance(dv_[0].value, ast.Lambda) else v
                    added.append("multi" if (isinstance(v, ast.Lambda) and "swap_endianess_multi" in norm(v.body)) else norm(v))
        def agg_truth(which):
            for c_, t_, n_ in p.conds:
                tst = getattr(n_, "test", None)
                neg = False
                while isinstance(tst, ast.UnaryOp) and isinstance(tst.op, ast.Not):
                    tst, neg = tst.operand, not neg
                if isinstance(tst, ast.Call) and isinstance(tst.func, ast.Name) and tst.func.id == which and len(tst.args) == 1 \
                        and isinstance(tst.args[0], ast.Name) and tst.args[0].id == fl:
                    return (t_ != neg), fl
            return None

        ta, tl = agg_truth("any"), agg_truth("all")
        if ta is None or ta[1] != fl:
            continue  # pass-through path: decided before the flags exist
        if not ta[0]:
            case, want_added = "none", []
        elif tl is not None and tl[1] == fl and tl[0]:
            case, want_added = "all", ["swap_endianess"]
        elif tl is not None and tl[1] == fl:
            case, want_added = "mixed", ["multi"]
        else:
            case, want_added = "?", None
        seen_d.add(case)
        if want_added is None or added != want_added:
            okd, detd = False, f"case `{case}`: input swap steps {added}"
    okd = okd and seen_d == {"none", "all", "mixed"}
    ctx.ob("P4", mt, "uniform and mixed input byte orders are both dispatched (any / all)", okd, detd or f"cases seen {sorted(seen_d)}", inst="any-all")
    # module-level definition, interpreted for both values of sys.byteorder (no code is run)
    DSM = "smpl_extract/data_streams.py"
    from .sem import Mini
    dtree = ctx.prog.module(DSM).tree
    got = {}
    for bo in ("big", "little"):
        mi = Mini(ctx, ctx.prog.module(DSM), env={"sys.byteorder": bo, "byteorder": bo})
        mi.run([st for st in dtree.body if isinstance(st, (ast.Assign, ast.AnnAssign, ast.If))])
        got[bo] = mi.env.get("system_byte_order")
    if "system_byte_order" not in {n.id for st in dtree.body for n in ast.walk(st) if isinstance(n, ast.Name) and isinstance(n.ctx, ast.Store)}:
        raise AnalysisError("P4", f"{DSM}:system_byte_order", "module-level assignment not found (anchor vanished)")
    ok = str(got["big"]) == "Endianess.BIG" and str(got["little"]) == "Endianess.LITTLE"
    ctx.ob("P4", dtree.body[0], "system_byte_order reflects sys.byteorder", ok, f"{got}", inst="system_byte_order", file=DSM, qualname="<module>")
    for q in ("swap_endianess", "swap_endianess_multi"):
        f = ctx.fn(TR, q, "P4")
        ok = ".byteswap()" in full(f)
        ctx.ob("P4", f, f"{q} byte-swaps sample values", ok, "", inst=q)
    f = ctx.fn(TR, "swap_endianess_multi", "P4")
    # per pair (channel, flag) of zip(channels, swaps): exactly one entry is added - the byte-swapped copy when the flag is set, the
    # channel itself otherwise
    from .util import atomic_facts as _af4
    loops_ = [l_ for l_ in own_nodes(f) if isinstance(l_, ast.For) and isinstance(l_.target, ast.Tuple) and len(l_.target.elts) == 2
              and all(isinstance(e_, ast.Name) for e_ in l_.target.elts) and norm(l_.iter) == f"zip({f.args.args[0].arg}, {f.args.args[1].arg})"]
    ok = len(loops_) == 1
    if ok:
        cv, sv = loops_[0].target.elts[0].id, loops_[0].target.elts[1].id
        cfg4 = ctx.cfg(f, "P4")
        seen4 = set()
        for kind, path, edge in cfg4.iteration_paths(cfg4.loop_of(loops_[0])):
            if kind == "exit" and len(path) == 1:
                continue
            if kind != "back":
                ok = False
                continue
            pr = _walk(ctx, f, cfg4, path)
            facts = dict((c_.replace("~", ""), t_) for c_, t_ in _af4(pr))
            flag = facts.get(f"truthy({sv})")
            added = [evaluator(ctx, f, e_).ev(c_.args[0]).key().replace("~", "") for c_, e_, st_ in calls_on(pr) if isinstance(c_.func, ast.Attribute) and c_.func.attr == "append" and len(c_.args) == 1]
            want4 = [f"({cv}).byteswap()"] if flag is True else ([cv] if flag is False else None)
            ok = ok and want4 is not None and added == want4
            seen4.add(flag)
        ok = ok and seen4 == {True, False}
        rets4 = [r_ for r_ in own_nodes(f) if isinstance(r_, ast.Return)]
        apps = [c for c in own_nodes(f) if isinstance(c, ast.Call) and isinstance(c.func, ast.Attribute) and c.func.attr == "append"]
        ok = ok and len(rets4) == 1 and bool(apps) and all(norm(c.func.value) == norm(rets4[0].value) for c in apps)
    ctx.ob("P4", f, "swap_endianess_multi keeps every channel (swapped or not) in order", ok, "", inst="multi-keeps-all")


# ------------------------------------------------------------------------ P5
def rule_P5(ctx):
    """whole frames only; one common frame count per block; stop conditions"""
    rb = ctx.fn(TR, "resize_buffer", "P5")
    b, fs = rb.args.args[0].arg, rb.args.args[1].arg
    prs = [p for p in run_paths(ctx, rb, rule="P5") if p.end == "return"]
    want = A(f"slice({b},:{(A(f'floordiv(len({b}),{fs})') * A(fs)).key()}:)")
    for p in prs:
        conds = path_conds_struct(ctx, rb, p)
        if p.ret == A(b):
            from .util import norm_conds
            nc = norm_conds(p)
            ok = any((not t) and c == f"mod(len({b}),{fs}) != 0" for c, t in nc) or any(t and c == f"mod(len({b}),{fs}) == 0" for c, t in nc)
        else:
            ok = p.ret == want
        ctx.ob("P5", p.ret_node, "resize_buffer returns the longest prefix that is a whole number of frames", ok, "" if ok else f"returns {p.ret.key() if p.ret else None} under [{p.cond_key()}]", inst=f"resize:{p.cond_key()}")
    # every stream.read in the transcoder flows through resize_buffer(buf, <that stream's frame_size>): decided on the
    # value-flow terms of every call argument, test and return value of each path
    import re as _re
    TRIMMED = _re.compile(r"resize_buffer\(\((?P<b>[\w~.]+)\.stream\)\.read\([^()]*\),(?P=b)\.frame_size\)")
    for q in ("decode_frame", "PassthroughTranscoder.__next__"):
        fn = ctx.fn(TR, q, "P5")
        n_reads, bad = 0, []
        for p in run_paths(ctx, fn, rule="P5", include_exc=False):
            keys = []
            for c, env, st in calls_on(p):
                ev = evaluator(ctx, fn, env)
                is_rb = isinstance(c.func, ast.Name) and c.func.id == "resize_buffer"
                if isinstance(c.func, ast.Attribute) and c.func.attr == "read" and ev.ev(c.func.value).key().endswith(".stream"):
                    n_reads += 1
                for i, x in enumerate(c.args):
                    k = ev.ev(x).key()
                    if is_rb and i == 0 and len(c.args) == 2:
                        k = ev.ev(c).key() if TRIMMED.fullmatch(ev.ev(c).key()) else "resize_buffer(" + k + "," + ev.ev(c.args[1]).key() + ")"
                    keys.append((k, c))
            for s_ in p.steps:
                if s_.kind == "test" and s_.ast is not None:
                    keys.append((evaluator(ctx, fn, s_.env).cond(s_.ast.test), s_.ast))
            if p.ret is not None:
                keys.append((p.ret.key(), p.ret_node))
            for k, node in keys:
                rest = TRIMMED.sub("TRIMMED", k)
                if ".read(" in rest:
                    bad.append((rest, node))
        if n_reads == 0:
            raise AnalysisError("P5", where(fn), f"expected a data stream read in {q}")
        ok = not bad
        det = ""
        if bad:
            rest, node = bad[0]
            m = _re.search(r"resize_buffer\((.*\.read\([^()]*\)),([^()]*)\)", rest)
            if m:
                det = f"the block is trimmed to a multiple of `{m.group(2)}`, not of the frame size of the stream it was read from: an interleaved stream can end in half a frame"
            else:
                det = f"a block read from a data stream is used without being trimmed to whole frames: `{rest[:120]}`"
        ctx.ob("P5", bad[0][1] if bad else fn, f"{q}: each block read is trimmed to whole frames of that stream before it is used", ok, det, inst=f"{q}:trim")
    # data_stream.frame_size = channels * width
    pi = ctx.fn("smpl_extract/data_streams.py", "DataStream.__post_init__", "P5")
    prs = [p for p in run_paths(ctx, pi, rule="P5") if p.end in ("fall", "return")]
    ok = bool(prs) and all(p.env.get("self.frame_size") == A("self.encoding.num_interleaved_channels") * A("self.encoding.sample_width") for p in prs)
    ctx.ob("P5", pi, "frame_size = interleaved channels * sample width", ok, "", inst="frame_size")
    # block sizing
    from .sem import return_canons
    gn = ctx.fn(TR, "get_num_frames_possible", "P5")
    rc = return_canons(gn)
    a0, a1 = gn.args.args[0].arg, gn.args.args[1].arg
    ok = rc in ([f"max(1, {a1} // {a0}.frame_size)"], [f"max({a1} // {a0}.frame_size, 1)"])
    if not ok:
        # the same maximum written as a choice: q where q > 1 (or >= 1), 1 otherwise
        q = Term.atom(f"floordiv({a1},{a0}.frame_size)")
        gps = [p_ for p_ in run_paths(ctx, gn, rule="P5") if p_.end == "return"]
        ok = bool(gps) and all(p_.ret is not None for p_ in gps)
        for p_ in gps if ok else ():
            cs_ = path_conds_struct(ctx, gn, p_)
            one, big = Term.const(1), p_.ret == q
            if big and (cond_taken(cs_, q - one, ">") or cond_taken(cs_, q - one, ">=")):
                continue
            if p_.ret == one and (cond_taken(cs_, q - one, "<=") or cond_taken(cs_, q - one, "<")):
                continue
            ok = False
        ok = ok and len(gps) == 2
    ctx.ob("P5", gn, "frames per block = max(1, target // frame_size)", ok, f"{rc}", inst="frames-possible")
    gb = ctx.fn(TR, "get_buffer_sizes", "P5")
    rc = return_canons(gb)
    sv = gb.args.args[0].arg
    ok = rc in ([f"[min([get_num_frames_possible(_c1) for _c1 in {sv}]) * _c0.frame_size for _c0 in {sv}]"],
                [f"[_c0.frame_size * min([get_num_frames_possible(_c1) for _c1 in {sv}]) for _c0 in {sv}]"],
                [f"[min((get_num_frames_possible(_c1) for _c1 in {sv})) * _c0.frame_size for _c0 in {sv}]"])
    ctx.ob("P5", gb, "every stream reads the same number of frames per block (the minimum), i.e. num_frames * its frame size", ok, f"{rc}", inst="buffer-sizes")
    mt = ctx.fn(TR, "make_transcoder", "P5")
    bs = [a for a in own_nodes(mt) if isinstance(a, ast.Assign) and norm(a.targets[0]) == "buffer_sizes"]
    ok = len(bs) == 1 and norm(bs[0].value) == f"get_buffer_sizes({mt.args.args[0].arg})"
    ctx.ob("P5", mt, "block sizes are computed from the data streams", ok, "", inst="buffer-sizes-call")
    # pass-through: decided per returning path on the returned term and the facts established on that path
    from .util import atomic_facts as _af
    D, DE = mt.args.args[0].arg, mt.args.args[1].arg
    single_re = re.compile(r"-1 \+ len\(" + re.escape(D) + r"\) == 0")
    same_re = re.compile(r"-1\*\(?sub\(" + re.escape(D) + r",0\)\)?\.encoding \+ " + re.escape(DE) + r" == 0|-1\*" + re.escape(DE) + r" \+ \(?sub\(" + re.escape(D) + r",0\)\)?\.encoding == 0")
    okb, detb, okc_, detc_, n_pt, n_pl = True, "", True, "", 0, 0
    for p in run_paths(ctx, mt, rule="P5", limit=4000):
        if p.end != "return" or p.ret is None:
            continue
        facts = _af(p)
        single = next((t for c, t in facts if single_re.fullmatch(c)), None)
        same = next((t for c, t in facts if same_re.fullmatch(c)), None)
        k = p.ret.key()
        if k.startswith("PassthroughTranscoder("):
            n_pt += 1
            if k not in (f"PassthroughTranscoder(sub({D},0),sub(get_buffer_sizes({D}),0))",):
                okb, detb = False, f"pass-through built as `{k[:120]}`: with a frame size that does not divide the default block the next block starts in mid-frame"
            if not (single is True and same is True):
                okc_, detc_ = False, "pass-through is chosen without having established one stream in the destination encoding"
        elif k.startswith("PipelineTranscoder("):
            n_pl += 1
            if single is True and same is True:
                okc_, detc_ = False, "a single stream already in the destination encoding is not passed through"
    pt = [c for c in own_nodes(mt) if isinstance(c, ast.Call) and norm(c.func) == "PassthroughTranscoder"]
    ctx.ob("P5", pt[0] if pt else mt, "the pass-through transcoder reads whole-frame blocks (buffer_sizes[0]) from the single stream", okb and n_pt >= 1, detb, inst="passthrough-block")
    lam = [l for l in own_nodes(mt) if isinstance(l, ast.Lambda) and "decode_frame" in norm(l.body)]
    ok = len(lam) == 1 and len(lam[0].args.args) == 1
    if ok:
        pv_ = lam[0].args.args[0].arg
        ok = norm(lam[0].body) in (f"decode_frame({pv_}, buffer_sizes=buffer_sizes)", f"decode_frame({pv_}, buffer_sizes)")
    ctx.ob("P5", mt, "the pipeline decoder reads with those block sizes", ok, "", inst="decode-lambda")
    pl = [c for c in own_nodes(mt) if isinstance(c, ast.Call) and norm(c.func) == "PipelineTranscoder"]
    ok = len(pl) == 1
    if ok:
        from .util import call_parts as _cp5
        _f, _pos, _kw = _cp5(evaluator(ctx, mt, {}).ev(pl[0]).key())  # keywords folded into their positions by the constructor's signature
        ok = (_pos[0] if _pos else _kw.get("data_streams")) == mt.args.args[0].arg
    ctx.ob("P5", mt, "the pipeline transcoder works on all data streams", ok, "", inst="pipeline-streams")
    ctx.ob("P5", mt, "pass-through is used only for a single stream already in the destination encoding", okc_ and n_pt >= 1 and n_pl >= 1, detc_, inst="passthrough-cond")
    # channel count check
    from .sem import sum_builder, canon_expr as _ce
    okc, detc = False, "no channel-count test raising IncompatibleNumberOfChannels"
    for i in own_nodes(mt):
        if isinstance(i, ast.If) and "IncompatibleNumberOfChannels" in raises_in(i.body) and isinstance(i.test, ast.Compare) and len(i.test.ops) == 1 \
                and isinstance(i.test.ops[0], ast.NotEq):
            sides = [i.test.left, i.test.comparators[0]]
            totals = [sd for sd in sides if isinstance(sd, ast.Name) and sum_builder(mt, sd.id) is not None]
            exps = [sd for sd in sides if sd not in totals]
            if len(totals) == 1 and len(exps) == 1:
                sb = sum_builder(mt, totals[0].id)
                okc = sb == (mt.args.args[0].arg, "max(1, _c0.encoding.num_interleaved_channels)") and _ce(mt, exps[0]) == f"{mt.args.args[1].arg}.num_interleaved_channels"
                detc = "" if okc else f"counts {sb} against `{_ce(mt, exps[0])}`"
    ctx.ob("P5", mt, "a source/destination channel-count mismatch is rejected", okc, detc, inst="channel-count")
    ok = any(isinstance(i, ast.If) and norm(i.test) == "len(data_streams) <= 0" and "NoDataStream" in raises_in(i.body) for i in own_nodes(mt))
    ctx.ob("P5", mt, "no data stream is rejected", ok, "", inst="no-stream")
    # stop conditions
    from .sem import emptiness_by, canon_expr, grow_multiset, grow_events
    pn = ctx.fn(TR, "PipelineTranscoder.__next__", "P5")
    stops = [i for i in own_nodes(pn) if isinstance(i, ast.If) and "StopIteration" in raises_in(i.body)]
    ok = len(stops) == 1
    if ok:
        t = canon_expr(pn, stops[0].test)
        m = _re.fullmatch(r"any\(\[(.+) for _c0 in channels\]\)|any\(\((.+) for _c0 in channels\)\)", t)
        inner = (m.group(1) or m.group(2)) if m else None
        ok = inner is not None and emptiness_by(ast.parse(inner, mode="eval").body, lambda e: isinstance(e, ast.Name) and e.id == "_c0") is True
        if not ok:
            # De Morgan: `not all(<ch is non-empty> for ch in channels)`
            m = _re.fullmatch(r"not all\(\[(.+) for _c0 in channels\]\)|not all\(\((.+) for _c0 in channels\)\)", t)
            inner = (m.group(1) or m.group(2)) if m else None
            ok = inner is not None and emptiness_by(ast.parse(inner, mode="eval").body, lambda e: isinstance(e, ast.Name) and e.id == "_c0") is False
    if not ok:
        # loop form: for ch in channels: if <ch is empty>: raise StopIteration   (nothing else in the loop)
        for f in own_nodes(pn):
            if isinstance(f, ast.For) and isinstance(f.target, ast.Name) and canon_expr(pn, f.iter) == "channels" and len(f.body) == 1 and not f.orelse \
                    and isinstance(f.body[0], ast.If) and not f.body[0].orelse and "StopIteration" in raises_in(f.body[0].body) \
                    and emptiness_by(f.body[0].test, lambda e, v=f.target.id: isinstance(e, ast.Name) and e.id == v) is True \
                    and len([i for i in own_nodes(pn) if isinstance(i, ast.If) and "StopIteration" in raises_in(i.body)]) == 1:
                ok = True
    ctx.ob("P5", pn, "the pipeline stops when any channel has no more frames (output ends with the shortest source), and only then", ok, "", inst="pipeline-stop")
    pa = ctx.fn(TR, "PassthroughTranscoder.__next__", "P5")
    n_stop = 0
    okp = True
    for p in run_paths(ctx, pa, rule="P5"):
        # tests on the trimmed block decide between StopIteration and returning it
        for s_ in p.steps:
            if s_.kind != "test" or s_.ast is None:
                continue
            ev = evaluator(ctx, pa, s_.env)
            e = emptiness_by(s_.ast.test, lambda x: bool(TRIMMED.fullmatch(ev.ev(x).key())))
            if e is None:
                if "TRIMMED" in TRIMMED.sub("TRIMMED", ev.cond(s_.ast.test)):
                    okp = False
                continue
            empty_side = (s_.label == "true") == e
            if empty_side:
                n_stop += 1
                okp = okp and p.end == "raise" and (p.raised or "").endswith("StopIteration")
            else:
                okp = okp and p.end == "return"
    ctx.ob("P5", pa, "pass-through stops only on an empty (post-trim) block", okp and n_stop >= 1, "", inst="passthrough-stop")
    df = ctx.fn(TR, "decode_frame", "P5")
    info = _decode_paths(ctx, df, TRIMMED)
    ok = info["eod"] >= 1 and info["data"] >= 1 and not info["bad"]
    ctx.ob("P5", info["test"] or df, "a stream counts as exhausted only when its (trimmed) block is empty", ok,
           "" if ok else f"end-of-data test is `{norm(info['test'].test) if info['test'] is not None else '?'}` ({'; '.join(info['bad'][:2])}): a final block holding data is discarded", inst="decode-eod")
    # what an exhausted stream contributes, per end-of-data path, on terms: growth events of the channel list are
    # extend/+= of rep(N, E) (= [E]*N, [E for _ in range(N)]) or an append(E) inside `for _ in range(N)`
    S = info["stream"]
    NCk = f"max(1,{S}.encoding.num_interleaved_channels)"
    zeros = (f"np.zeros(0,dtype={S}.encoding.dtype)", f"np.zeros(tuple(0),dtype={S}.encoding.dtype)", f"np.array([],dtype={S}.encoding.dtype)",
             f"np.empty(0,dtype={S}.encoding.dtype)")
    oke, dete, n_e = True, "", 0
    for p in info["eod_paths"]:
        evs = []
        for s_ in p.steps:
            if s_.kind != "stmt":
                continue
            for n, k, v in grow_events(s_.ast, info["channels"]):
                ev_ = evaluator(ctx, df, s_.env)
                key = ev_.ev(v).key()
                if k == "append":
                    par = getattr(s_.ast, "_parent", None)
                    if isinstance(par, ast.For) and isinstance(par.iter, ast.Call) and norm(par.iter.func) == "range" and len(par.iter.args) == 1:
                        evs.append((ev_.ev(par.iter.args[0]).key(), key))
                    else:
                        evs.append(("1", key))
                else:
                    m = _re.fullmatch(r"rep\((.+),(np\.\w+\(.*\))\)", key)
                    evs.append((m.group(1), m.group(2)) if m else ("?", key))
        # a path that skips the inner `for _ in range(N)` body is the N = 0 case of the same loop
        looped = [e for e in evs]
        if not looped:
            skipped = any(s_.kind == "for" and isinstance(s_.ast, ast.For) and s_.label in ("false", "exit", "else") for s_ in p.steps)
            if skipped:
                continue
        n_e += 1
        if len(evs) != 1 or evs[0][0] != NCk or evs[0][1] not in zeros:
            oke, dete = False, f"on exhaustion `{info['channels']}` grows by {evs}"
    oke = oke and n_e >= 1
    ctx.ob("P5", info["test"] or df, "an exhausted stream contributes one empty channel per interleaved channel (keeps channel positions)", oke, dete, inst="decode-eod-empties")


def _decode_paths(ctx, df, TRIMMED):
    """classify the paths of decode_frame: a path that interprets a block (np.frombuffer) is a data path, one that reads a
    block without interpreting it is an end-of-data path; the emptiness tests on the trimmed block must agree"""
    from .sem import emptiness_by
    info = {"eod": 0, "data": 0, "bad": [], "test": None, "empty_is_true": True, "env": {}, "stream": "?", "channels": "channels", "data_paths": [], "eod_paths": []}
    rets = [r for r in own_nodes(df) if isinstance(r, ast.Return) and isinstance(r.value, ast.Name)]
    if rets:
        info["channels"] = rets[0].value.id
    for p in run_paths(ctx, df, rule="P5"):
        reads = [(c, e) for c, e, st in calls_on(p) if isinstance(c.func, ast.Attribute) and c.func.attr == "read"]
        if not reads:
            continue
        rk = evaluator(ctx, df, reads[0][1]).ev(reads[0][0].func.value).key()
        if rk.startswith("(") and rk.endswith(".stream)"):
            rk = rk[1:-1]
        info["stream"] = rk[:-len(".stream")] if rk.endswith(".stream") else rk
        is_data = any(isinstance(c.func, ast.Attribute) and c.func.attr == "frombuffer" for c, e, st in calls_on(p))
        sides = []
        from .sem import _SubstEnv as _SE
        from ..core.loader import clone as _cl
        aenv = {}
        for s_ in p.steps:
            if s_.kind == "stmt" and isinstance(s_.ast, ast.Assign) and len(s_.ast.targets) == 1 and isinstance(s_.ast.targets[0], ast.Name):
                # boolean temporaries (`has_data = buffer is not None and len(buffer) > 0`) are read through
                v_ = s_.ast.value
                if isinstance(v_, (ast.Compare, ast.BoolOp)) or (isinstance(v_, ast.UnaryOp) and isinstance(v_.op, ast.Not)):
                    aenv[s_.ast.targets[0].id] = _SE(aenv).visit(_cl(v_))
                else:
                    aenv.pop(s_.ast.targets[0].id, None)
            if s_.kind != "test" or s_.ast is None or not isinstance(s_.ast, ast.If):
                continue
            ev = evaluator(ctx, df, s_.env)
            tst_ = _SE(aenv).visit(_cl(s_.ast.test)) if aenv else s_.ast.test
            e = emptiness_by(tst_, lambda x: bool(TRIMMED.fullmatch(ev.ev(x).key())))
            if e is None:
                continue
            sides.append((s_.label == "true") == e)
            info["test"], info["empty_is_true"], info["env"] = s_.ast, e, s_.env
        if is_data:
            info["data"] += 1
            info["data_paths"].append(p)
            if not sides or any(sides):
                info["bad"].append(f"a block is interpreted on a path (lines {p.lines()[-6:]}) that did not establish it is non-empty")
        else:
            info["eod"] += 1
            info.setdefault("eod_paths", []).append(p)
            if not any(sides):
                info["bad"].append(f"a block is dropped on a path (lines {p.lines()[-6:]}) that did not establish it is empty")
    return info


# ------------------------------------------------------------------------ P6
def rule_P6(ctx):
    ef = ctx.fn(TR, "encode_frame", "P6")
    from .sem import straightline, canon_ast
    env, val, rest = straightline(ef.body)
    chans, dest = ef.args.args[0].arg, ef.args.args[1].arg
    ok, det, stacked = False, "encode_frame is not a straight-line computation of its result", None
    if val is not None:
        # <stack>(X) <flatten> .tobytes()
        e = val
        det = f"interleave expression `{canon_ast(val)[:160]}` is not a recognised frame-major interleave"
        if isinstance(e, ast.Call) and isinstance(e.func, ast.Attribute) and e.func.attr == "tobytes" and not e.args:
            stacked = _frame_major(e.func.value)
            ok = stacked is not None
    ctx.ob("P6", ef, "encode_frame interleaves frame by frame: channel c of frame f lands at position f*channels + c", ok, "" if ok else det, inst="interleave")
    want = f"[_c0.astype({dest}) for _c0 in pad_channels({chans})]"
    got = canon_ast(stacked) if stacked is not None else "?"
    ok = got == want
    ctx.ob("P6", ef, "channels are padded to a common length and cast to the destination sample type, in order", ok, "" if ok else f"stacked value `{got[:160]}`", inst="pad-cast")
    df = ctx.fn(TR, "decode_frame", "P6")
    import re as _re
    from .sem import grow_events
    TRIMMED = _re.compile(r"resize_buffer\(\((?P<b>[\w~.]+)\.stream\)\.read\([^()]*\),(?P=b)\.frame_size\)")
    info = _decode_paths(ctx, df, TRIMMED)
    S, L = info["stream"], info["channels"]
    NC = f"max(1,{S}.encoding.num_interleaved_channels)"
    n_multi = n_single = 0
    okd, detd = True, ""
    for p in info["data_paths"]:
        grows = []
        R = None
        for s_ in p.steps:
            if s_.kind != "stmt":
                continue
            for n, k, v in grow_events(s_.ast, L):
                key = evaluator(ctx, df, s_.env).ev(v).key()
                if k == "append":
                    k, key = "extend", f"[{key}]"  # append(x) adds the one-element sequence [x]
                grows.append((k, key))
        for c, e, st in calls_on(p):
            if isinstance(c.func, ast.Name) and c.func.id == "resize_buffer":
                R = evaluator(ctx, df, e).ev(c).key()
        fb = f"np.frombuffer({R},dtype={S}.encoding.dtype)"
        T_multi = {f"(({fb}).reshape(tuple(-1,{NC}))).T", f"(({fb}).reshape([-1,{NC}])).T", f"(({fb}).reshape(-1,{NC})).T"}
        multi = {f"list({t})" for t in T_multi} | T_multi
        single = {f"[{fb}]"}
        nc_false = any((not t) and c == f"-1 + {NC} > 0" for c, t, _ in p.conds) or any(t and c in (f"-1 + {NC} <= 0", f"-1 + {NC} == 0") for c, t, _ in p.conds)
        if len(grows) != 1 or grows[0][0] not in ("iadd", "extend", "concat"):
            okd, detd = False, f"a data path grows `{L}` by {grows}"
        elif grows[0][1] in multi:
            n_multi += 1
        elif grows[0][1] in single and nc_false:
            n_single += 1
        else:
            okd, detd = False, f"decoded block appended as `{grows[0][1][:200]}`"
    okd = okd and n_multi >= 1
    ctx.ob("P6", df, "decode_frame interprets the trimmed block with the stream's own sample type and de-interleaves it with reshape((-1, channels)).T (row c = channel c), "
                     "appending the channels in place order", okd, detd, inst="deinterleave")
    fr = [f for f in own_nodes(df) if isinstance(f, ast.For) and any(isinstance(c, ast.Call) and isinstance(c.func, ast.Attribute) and c.func.attr == "read" for c in ast.walk(f))]
    ok = len(fr) == 1 and isinstance(fr[0].iter, ast.Call) and norm(fr[0].iter.func) == "zip" and [norm(a) for a in fr[0].iter.args] == [a.arg for a in df.args.args[:2]] \
        and isinstance(fr[0].target, ast.Tuple) and len(fr[0].target.elts) == 2
    if ok:
        sv, zv = norm(fr[0].target.elts[0]), norm(fr[0].target.elts[1])
        ok = S == sv + "~"
        for p in info["data_paths"][:1]:
            for c, e, st in calls_on(p):
                if isinstance(c.func, ast.Attribute) and c.func.attr == "read":
                    ok = ok and len(c.args) == 1 and evaluator(ctx, df, e).ev(c.args[0]).key() == zv + "~"
    elif len(fr) != 1 or not (isinstance(fr[0].iter, ast.Call) and norm(fr[0].iter.func) == "zip"):
        raise AnalysisError("P6", where(df), "decode_frame: the loop over (stream, block size) pairs is not a for-loop over zip(...) - unrecognised form")
    ctx.ob("P6", df, "streams are read in order, each with its own block size", ok, "", inst="zip-streams")
    grows_all = list(grow_events(df, L))
    inside = fr and all(any(n is g[0] for n in ast.walk(fr[0])) for g in grows_all)
    ok = bool(grows_all) and bool(inside) and all(g[1] in ("append", "extend", "iadd", "concat") for g in grows_all)
    ctx.ob("P6", df, "the channels of each stream are appended (never prepended/inserted) inside the loop over the streams, i.e. in stream order", ok,
           "" if ok else f"{[(g[1], norm(g[0])[:50]) for g in grows_all]}", inst="append-order")
    pc = ctx.fn(TR, "pad_channels", "P6")
    from .streams import _walk as _pw
    chs = pc.args.args[0].arg
    elems = []   # (element term, loop variable term) for every way an output element is produced
    okall, detall = True, ""
    pcfg = ctx.cfg(pc, "P6")
    floops = [f for f in own_nodes(pc) if isinstance(f, ast.For) and norm(f.iter) == chs and isinstance(f.target, ast.Name)]
    rets = [r for r in own_nodes(pc) if isinstance(r, ast.Return) and r.value is not None]
    comp = None
    for r in rets:
        v = r.value
        if isinstance(v, ast.Call) and isinstance(v.func, ast.Name) and v.func.id == "list" and len(v.args) == 1:
            v = v.args[0]
        if isinstance(v, (ast.ListComp, ast.GeneratorExp)) and len(v.generators) == 1 and not v.generators[0].ifs and norm(v.generators[0].iter) == chs \
                and isinstance(v.generators[0].target, ast.Name):
            comp = v
    pre_env = {}
    for p in run_paths(ctx, pc, rule="P6"):
        if p.end == "return":
            pre_env = p.steps[-1].env if p.steps else {}
    if comp is not None:
        var = comp.generators[0].target.id
        env2 = dict(pre_env)
        env2[var] = A(var + "~")
        ev_ = evaluator(ctx, pc, env2)
        alts = [comp.elt.body, comp.elt.orelse] if isinstance(comp.elt, ast.IfExp) else [comp.elt]
        elems = [(ev_.ev(x).key(), var + "~") for x in alts]
    elif len(floops) == 1:
        lp_ = pcfg.loop_of(floops[0])
        var = floops[0].target.id
        for kind, path, edge in pcfg.iteration_paths(lp_):
            if kind == "exit" and len(path) == 1:
                continue
            if kind != "back":
                okall, detall = False, "a channel can end the loop early"
                continue
            pr = _pw(ctx, pc, pcfg, path, env0=pre_env)
            apps = [(c, e) for c, e, st in calls_on(pr) if isinstance(c.func, ast.Attribute) and c.func.attr == "append"]
            if len(apps) != 1:
                okall, detall = False, f"{len(apps)} output elements for one channel on a path"
                continue
            elems.append((evaluator(ctx, pc, apps[0][1]).ev(apps[0][0].args[0]).key(), var + "~"))
    else:
        okall, detall = False, "neither a loop over the channels nor a comprehension over them"
    T_forms = (f"max(map(len,{chs}))", f"max(comp(len(_c0) for _c0 in {chs}))")
    n_pad = n_same = 0
    for k, v in elems:
        if k == v:
            n_same += 1
            continue
        good = any(k.startswith(f"np.pad({v},tuple(0,{T} + -1*len({v})),") or k.startswith(f"np.pad({v},tuple(0,-1*len({v}) + {T}),") for T in T_forms)
        if good:
            n_pad += 1
        else:
            okall, detall = False, f"an output element is `{k[:160]}`: frames must only be added after the existing ones, up to the longest channel"
    ok = okall and n_pad >= 1
    ctx.ob("P6", pc, "shorter channels are padded at the END up to the longest; existing frames are kept in place", ok, detall, inst="pad")
    ok = okall and bool(elems)
    ctx.ob("P6", pc, "every channel is kept, in order", ok, detall, inst="pad-all")
    # dtype table
    dt = ctx.fn("smpl_extract/data_streams.py", "StreamEncoding.dtype", "P6")
    # interpreted for every (signedness, width) of the table (no code is run): np.dtype("int16") and np.dtype(np.int16) are the same type
    from .sem import Mini, Sym
    body = [st for st in dt.body if not (isinstance(st, ast.Expr) and isinstance(st.value, ast.Constant))]
    got = {}
    for signed in (True, False):
        for wd in (1, 2, 4, 8):
            mi = Mini(ctx, dt._module, env={"self.is_signed": signed, "self.sample_width": wd})
            mi.run(body)
            r = mi.env.get("<return>")
            m_ = re.fullmatch(r"np\.dtype\((?:'(\w+)'|np\.(\w+))\)", str(r)) if isinstance(r, Sym) else None
            got[(signed, wd)] = (m_.group(1) or m_.group(2)) if m_ else str(r)
    want = {(sg, wd): f"{'' if sg else 'u'}int{8 * wd}" for sg in (True, False) for wd in (1, 2, 4, 8)}
    ctx.ob("P6", dt, "sample width -> numpy type table (1/2/4/8 bytes, signed and unsigned)", got == want,
           f"{ {k: v for k, v in got.items() if want[k] != v} }", inst="dtype-table")


def _frame_major(e):
    """e flattens a channel-major stack frame by frame: returns the stacked sequence expression, else None.
    Recognised: vstack(X) read column-major (reshape(-1, order='F') / ravel / flatten with order='F'), the transpose of
    vstack(X) or column_stack(X) / stack(X, axis=1) read row-major (reshape(-1) / flatten() / ravel())."""
    def is_minus1(a):
        t = " ".join(ast.unparse(a).split())
        return t in ("-1", "(-1,)", "[-1]")

    def order_f(call):
        for k in call.keywords:
            if k.arg == "order" and isinstance(k.value, ast.Constant) and k.value.value == "F":
                return True
        return False

    def order_default(call):
        return all(not (k.arg == "order") or (isinstance(k.value, ast.Constant) and k.value.value == "C") for k in call.keywords)

    if not (isinstance(e, ast.Call) and isinstance(e.func, ast.Attribute)):
        return None
    m, base = e.func.attr, e.func.value
    if m == "reshape":
        if len(e.args) != 1 or not is_minus1(e.args[0]):
            return None
    elif m in ("flatten", "ravel"):
        if e.args:
            return None
    else:
        return None
    col_major = order_f(e)
    if not col_major and not order_default(e):
        return None

    def stack_of(x, names, axis=None):
        if isinstance(x, ast.Call) and isinstance(x.func, ast.Attribute) and isinstance(x.func.value, ast.Name) and x.func.value.id in ("np", "numpy") \
                and x.func.attr in names and len(x.args) == 1:
            kws = {k.arg: " ".join(ast.unparse(k.value).split()) for k in x.keywords}
            if axis is None and not kws:
                return x.args[0]
            if axis is not None and kws == {"axis": axis}:
                return x.args[0]
        return None

    if col_major:
        return stack_of(base, ("vstack",)) or stack_of(base, ("stack",), "0") or stack_of(base, ("array",))
    # row-major read of (frames x channels)
    if isinstance(base, ast.Attribute) and base.attr == "T":
        return stack_of(base.value, ("vstack",)) or stack_of(base.value, ("stack",), "0")
    return stack_of(base, ("column_stack",)) or stack_of(base, ("stack",), "1") or stack_of(base, ("stack",), "-1")


# ------------------------------------------------------------------------ P7
def rule_P7(ctx):
    ex = ctx.fn(ST, "Traversable.export_samples", "P7")
    cfg = ctx.cfg(ex, "P7")
    em = ex.args.args[1].arg
    prs = [p for p in run_paths(ctx, ex, rule="P7") if p.end in ("return", "fall")]
    if not prs:
        raise AnalysisError("P7", where(ex), "no normal path")
    for p in prs:
        seq = [norm(c.func) for c, e, s in calls_on(p) if norm(c.func) in (f"{em}.set_level", f"{em}.finish_level")]
        ok = seq == [f"{em}.set_level", f"{em}.finish_level"]
        ctx.ob("P7", p.ret_node or ex, "each directory level is opened (set_level) and flushed (finish_level) exactly once", ok, f"{seq}", inst=f"level:{len(p.steps)}")
    sl = [c for c in own_nodes(ex) if isinstance(c, ast.Call) and norm(c.func) == f"{em}.set_level"]
    ok = len(sl) == 1 and norm(sl[0].args[0]) == "tuple(self.path)"
    ctx.ob("P7", ex, "the level is identified by the directory's path", ok, "", inst="level-id")
    fors = [f for f in own_nodes(ex) if isinstance(f, ast.For)]
    ok = len(fors) == 1 and norm(fors[0].iter) in ("children", "self.children") and not any(isinstance(n, (ast.Break, ast.Return)) for n in ast.walk(fors[0]))
    ctx.ob("P7", ex, "every child of the directory is visited", ok, "", inst="visit-children")
    if ok:
        lp = cfg.loop_of(fors[0])
        cv = fors[0].target.id
        for kind, path, edge in cfg.iteration_paths(lp):
            if kind != "back":
                continue
            pr = _walk(ctx, ex, cfg, path)
            calls = [(norm(c.func), c, e) for c, e, s in calls_on(pr)]
            names = [n for n, c, e in calls]
            # classify the path by the truth of `child.type_id == SampleEntry` and `isinstance(child, Traversable)`
            is_sample = is_not_sample = is_dir = is_not_dir = False
            for ctext, taken, node in pr.conds:
                if "type_id" in ctext and "SampleEntry" in ctext:
                    eq = ctext.endswith("== 0")
                    if (eq and taken) or ((not eq) and not taken):
                        is_sample = True
                    else:
                        is_not_sample = True
                if ctext.startswith("truthy(isinstance(") and "Traversable" in ctext:
                    if taken:
                        is_dir = True
                    else:
                        is_not_dir = True
            gens = [n for n in names if n.endswith(".to_generalized")]
            adds = [(n, c, e) for n, c, e in calls if n == f"{em}.add_sample"]
            recs = [n for n in names if n.endswith(".export_samples")]
            if is_sample:
                ok = len(gens) == 1 and len(adds) == 1 and not recs
                det = f"{names}"
                if ok:
                    arg = evaluator(ctx, ex, adds[0][2]).ev(adds[0][1].args[0]).key()
                    ok = arg.endswith(".to_generalized()") and cv in arg
                    det = "" if ok else f"the object handed over is `{arg}`"
                ctx.ob("P7", fors[0], "a sample child is generalised and that generalised sample is handed to the exporter exactly once", ok, det, inst="sample-child")
            elif is_not_sample and is_dir:
                ok = len(recs) == 1 and not adds
                ctx.ob("P7", fors[0], "a directory child is exported recursively", ok, f"{names}", inst="dir-child")
            elif is_not_sample and is_not_dir:
                ok = not adds and not recs
                ctx.ob("P7", fors[0], "other children are ignored", ok, f"{names}", inst="other-child")
    # order: recursion into subdirectories happens before this level is flushed and set_level clears the list:
    mg = ST
    add = ctx.fn(mg, "ExportManager.add_sample", "P7")
    from .util import every_path_calls as _epc, path_call_keys as _pck
    ctx.ob("P7", add, "add_sample appends to the level's list", _epc(ctx, add, "P7", f"self.samples.append({add.args.args[1].arg})"), "", inst="add_sample")
    fl = ctx.fn(mg, "ExportManager.finish_level", "P7")
    ctx.ob("P7", fl, "finish_level exports the collected samples", _epc(ctx, fl, "P7", "self.export_samples()"), "", inst="finish_level")
    es = ctx.fn(mg, "ExportManager.export_samples", "P7")
    ecfg = ctx.cfg(es, "P7")
    fors = sorted([f for f in own_nodes(es) if isinstance(f, ast.For)], key=lambda f: f.lineno)
    # value flow over the top-level statements (plain copies are followed): collected -> piped through every routine -> exported
    state = {}  # local name -> "collected" | "piped"
    ok_init = ok_pipe = False
    export_loop = None
    for st in es.body:
        if isinstance(st, (ast.Assign, ast.AnnAssign)) and getattr(st, "value", None) is not None:
            tg = st.targets[0] if isinstance(st, ast.Assign) else st.target
            if isinstance(tg, ast.Name):
                if norm(st.value) == "self.samples":
                    state[tg.id] = "collected"
                    ok_init = True
                elif isinstance(st.value, ast.Name) and st.value.id in state:
                    state[tg.id] = state[st.value.id]
                else:
                    state.pop(tg.id, None)
        elif isinstance(st, ast.For) and norm(st.iter) == "self.routines.values()" and isinstance(st.target, ast.Name):
            body = [x for x in st.body if not isinstance(x, ast.Pass)]
            if len(body) == 1 and isinstance(body[0], ast.Assign) and isinstance(body[0].targets[0], ast.Name) and state.get(body[0].targets[0].id) == "collected" \
                    and norm(body[0].value) == f"{st.target.id}({body[0].targets[0].id})" and not st.orelse:
                state[body[0].targets[0].id] = "piped"
                ok_pipe = True
        elif isinstance(st, ast.For) and isinstance(st.iter, ast.Name) and state.get(st.iter.id) == "piped" and export_loop is None:
            export_loop = st
    ok = ok_pipe and export_loop is not None and any(isinstance(c, ast.Call) and norm(c.func) == "export_wav" for c in ast.walk(export_loop))
    ctx.ob("P7", es, "sample routines (stereo pairing) are applied to the level's samples, then every resulting sample is exported", ok, "", inst="routines-then-export")
    ctx.ob("P7", es, "the exported list starts as the level's collected samples", ok_init and ok_pipe, "", inst="samples-init")
    fors = [f for f in fors if f is not export_loop] + ([export_loop] if export_loop is not None else [])
    if len(fors) == 2:
        lp = ecfg.loop_of(fors[1])
        for kind, path, edge in ecfg.iteration_paths(lp):
            if kind != "back":
                continue
            pr = _walk(ctx, es, ecfg, path)
            calls = [norm(c.func) for c, e, s in calls_on(pr)]
            ok = calls.count("export_wav") == 1 and calls.count("print") == 1 and calls.index("export_wav") < calls.index("print")
            ctx.ob("P7", fors[1], "each sample is written once and reported once (`Exported` after the write), on every path", ok, f"{calls}", inst=f"write-report:{calls.count('os.makedirs')}")
        ok = not any(isinstance(n, (ast.Break, ast.Continue, ast.Return)) for n in ast.walk(fors[1]))
        ctx.ob("P7", fors[1], "no sample of the level is skipped", ok, "", inst="no-skip")
    # on every normal path the list is cleared, and after the last write
    ok = True
    for ks_ in _pck(ctx, es, "P7"):
        idx_c = [i_ for i_, k_ in enumerate(ks_) if k_ == "self.samples.clear()"]
        idx_w = [i_ for i_, k_ in enumerate(ks_) if k_.startswith("export_wav(")]
        ok = ok and bool(idx_c) and (not idx_w or max(idx_w) < idx_c[-1])
    ctx.ob("P7", es, "the level's list is cleared after export", ok, "", inst="clear-after")
    sl = ctx.fn(mg, "ExportManager.set_level", "P7")
    ctx.ob("P7", sl, "set_level starts a fresh list", _epc(ctx, sl, "P7", "self.samples.clear()"), "", inst="clear-on-set")
    # ordering issue: a parent's samples are collected before child directories run set_level? record what the code does
    act = ctx.fn("smpl_extract/actions.py", "export_samples_to_wav", "P7")
    ip_, bp_ = act.args.args[0].arg, act.args.args[1].arg
    mgr = f"ExportManager({bp_},{{combine_stereo:{ip_}.combine_stereo_routine}})"
    ok = _epc(ctx, act, "P7", mgr) and _epc(ctx, act, "P7", f"{ip_}.export_samples({mgr})")
    ctx.ob("P7", act, "export installs the stereo-pairing routine and exports from the image root into the destination", ok, "", inst="action")
