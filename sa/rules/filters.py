"""F1..F6: streaming filters, on the token-rewritten .pyx sources and filters/common.py  (C19)."""
import ast

from ..core.loader import AnalysisError, dotted, norm, own_nodes, where, full, enclosing_class
from ..core.consts import NotConst

FIR = "smpl_extract/filters/fir.pyx"
IIR = "smpl_extract/filters/iir.pyx"
COMMON = "smpl_extract/filters/common.py"


def _fn(ctx, path, q, rule):
    m = ctx.pyx().get(path)
    if m is None:
        raise AnalysisError(rule, path, "pyx source not found")
    f = m.functions.get(q)
    if f is None:
        raise AnalysisError(rule, f"{path}:{q}", "function/method not found (anchor vanished)")
    return f


def _ob(ctx, rule, node, what, ok, det, inst, path, q):
    ctx.ob(rule, None, what, ok, det, inst=inst, file=path, qualname=q, line=getattr(node, "lineno", 0))


def _depends_on(expr, names):
    for n in ast.walk(expr):
        d = dotted(n) if isinstance(n, (ast.Attribute, ast.Name)) else None
        if d in names:
            return True
    return False


def _body(fn):
    return [s_ for s_ in fn.body if not (isinstance(s_, ast.Expr) and isinstance(s_.value, ast.Constant))]


def rule_F1(ctx):
    """the state stored for the next block depends on the state carried in from earlier blocks"""
    from .sem import straightline_ex, np_canon
    fn = _fn(ctx, FIR, "FirFilter.process", "F1")
    stores = [a for a in own_nodes(fn) if isinstance(a, ast.Assign) and dotted(a.targets[0]) == "self.x_prev"]
    if len(stores) != 1:
        raise AnalysisError("F1", f"{FIR}:FirFilter.process", f"{len(stores)} stores to self.x_prev")
    sl = straightline_ex(_body(fn))
    if sl["ret"] is None or "self.x_prev" not in sl["env"]:
        raise AnalysisError("F1", f"{FIR}:FirFilter.process", "process is not a straight-line computation (unrecognised form)")
    x = fn.args.args[1].arg
    # in the reconstructed values `self.x_prev` always denotes the history carried IN (the pre-state)
    new_hist = np_canon(sl["env"]["self.x_prev"])
    ok = "self.x_prev" in new_hist
    _ob(ctx, "F1", stores[0], "FIR: the history kept for the next block is taken from (previous history + new block), not from the new block alone", ok,
        "" if ok else f"`{norm(stores[0])}`: with blocks shorter than the filter memory, samples older than the current block are forgotten",
        "FirFilter.process:x_prev", FIR, "FirFilter.process")
    ret = np_canon(sl["ret"])
    want = f"self.convolve_valid(np.concatenate([self.x_prev, {x}]), self.h).astype({x}.dtype)"
    import re as _re
    m = _re.fullmatch(r"self\.convolve_valid\((?P<inp>.+), self\.h\)\.astype\((?P<dt>.+)\)", ret)
    ok = m is not None and m.group("inp") == f"np.concatenate([self.x_prev, {x}])"
    _ob(ctx, "F1", fn, "FIR: each block is filtered together with the carried history (history first)", ok, "" if ok else f"filters `{m.group('inp') if m else ret}`",
        "FirFilter.process:x_full", FIR, "FirFilter.process")
    ok = ret == want
    _ob(ctx, "F1", fn, "FIR: the output is the valid convolution of that input with the taps, in the block's sample type", ok, "" if ok else f"returns `{ret}`",
        "FirFilter.process:y", FIR, "FirFilter.process")
    cv = _fn(ctx, FIR, "FirFilter.convolve_valid", "F1")
    rets = sorted({np_canon(r.value) for r in own_nodes(cv) if isinstance(r, ast.Return) and r.value is not None} |
                  {np_canon(a.value) for a in own_nodes(cv) if isinstance(a, ast.Assign) and any(isinstance(r, ast.Return) and isinstance(r.value, ast.Name)
                                                                                             and r.value.id == norm(a.targets[0]) for r in own_nodes(cv))})
    a0, a1 = cv.args.args[1].arg, cv.args.args[2].arg
    ok = f"np.convolve({a0}, {a1}, mode='valid')" in rets
    _ob(ctx, "F1", cv, "FIR: convolve_valid is numpy's 'valid' convolution (no implicit zero padding at the block edges)", ok, f"{rets}", "FirFilter.convolve_valid:mode", FIR, "FirFilter.convolve_valid")


def rule_F2(ctx):
    """reset restores exactly the initial state"""
    init = _fn(ctx, FIR, "FirFilter.__init__", "F2")
    rs = _fn(ctx, FIR, "FirFilter.reset_state", "F2")
    ia = {dotted(a.targets[0]): norm(a.value) for a in own_nodes(init) if isinstance(a, ast.Assign) and (dotted(a.targets[0]) or "").startswith("self.")}
    state = {"self.x_prev"}
    for s in sorted(state):
        ra = [a for a in own_nodes(rs) if isinstance(a, ast.Assign) and dotted(a.targets[0]) == s]
        ok = len(ra) == 1
        det = f"{s} is not reassigned by reset_state"
        if ok:
            v = ra[0].value
            src = norm(v)
            if isinstance(v, ast.Name):
                defs = [a for a in own_nodes(rs) if isinstance(a, ast.Assign) and norm(a.targets[0]) == v.id]
                src = " ; ".join(norm(d.value) for d in sorted(defs, key=lambda d: d.lineno))
            ok = ia.get(s) is not None and ia[s] in src
            det = "" if ok else f"reset gives `{src}`, constructor gives `{ia.get(s)}`"
        if len(ra) != 1 and ia.get(s) is not None:
            # decided per path for the call without arguments (what the flush does; kwargs.get(..) then gives None): on every such path
            # the state ends up as the constructor's expression
            from ..core.symexec import run_paths as _rp2
            from .util import evaluator as _ev2
            want_t = _ev2(ctx, init, {}).ev([a.value for a in own_nodes(init) if isinstance(a, ast.Assign) and dotted(a.targets[0]) == s][0]).key()
            n_p, ok, det = 0, True, ""
            for p_ in _rp2(ctx, rs, rule="F2"):
                if p_.end not in ("return", "fall"):
                    continue
                feasible = True
                for c_, t_, _n in p_.conds:
                    if "kwargs.get(" in c_:
                        inner = c_
                        neg = False
                        while inner.startswith("not(") and inner.endswith(")"):
                            inner, neg = inner[4:-1], not neg
                        if inner.startswith("truthy(kwargs.get("):
                            feasible = feasible and ((not t_) != neg)
                        elif inner.startswith("Is(kwargs.get(") and inner.endswith(",None)"):
                            feasible = feasible and (t_ != neg)
                        else:
                            feasible = False
                            ok, det = False, f"test `{c_[:80]}` on the handed-in history is not understood"
                if not feasible:
                    continue
                n_p += 1
                got_ = p_.env.get(s)
                if got_ is None or got_.key() != want_t:
                    ok, det = False, f"reset without arguments leaves {s} = `{got_.key() if got_ is not None else 'unchanged'}`, the constructor gives `{want_t}`"
            ok = ok and n_p >= 1
        _ob(ctx, "F2", rs, f"FIR: reset_state restores {s} to its constructor value", ok, det, f"FirFilter:{s}", FIR, "FirFilter.reset_state")
    ii = _fn(ctx, IIR, "IirFilter.__init__", "F2")
    ok = any(isinstance(c, ast.Call) and norm(c) == "self.reset_state()" for c in own_nodes(ii))
    _ob(ctx, "F2", ii, "IIR: the constructor initialises its state through reset_state (init = reset by construction)", ok, "", "IirFilter:init-calls-reset", IIR, "IirFilter.__init__")
    ir = _fn(ctx, IIR, "IirFilter.reset_state", "F2")
    # interpreted for the call without arguments (what the constructor and the flush do): both histories become new float64 zero
    # arrays of the filter's order (no code is run; kwargs.get(..) is taken to give None)
    from .sem import Mini, Sym, np_canon as _npc
    mi = Mini(ctx, None, special=lambda node, interp: ("<none>" if False else None))
    mi.env = {}
    mi.assume = lambda text: None

    def _sp(node, interp):
        if isinstance(node, ast.Call) and isinstance(node.func, ast.Attribute) and node.func.attr == "get" and norm(node.func.value) == "kwargs":
            return _NONE
        return None

    class _N:  # a None that Mini's special hook can return (the hook treats a literal None as "no answer")
        pass
    _NONE = _N()
    mi.special = _sp
    mi.assume = lambda text: (False if mi.env.get(text) is _NONE else None)
    mi.run([st for st in ir.body if not (isinstance(st, ast.Expr) and isinstance(st.value, ast.Constant))])
    got = {}
    for k_ in ("self.x_prev", "self.y_prev"):
        v_ = mi.env.get(k_)
        try:
            e_ = ast.parse(str(v_), mode="eval").body if isinstance(v_, Sym) else None
            if e_ is not None:
                # locals holding an opaque value are read through (one level)
                class _S(ast.NodeTransformer):
                    def visit_Name(self, n_):
                        w_ = mi.env.get(n_.id)
                        if isinstance(w_, Sym) and str(w_) != n_.id:
                            try:
                                return ast.parse(str(w_), mode="eval").body
                            except SyntaxError:
                                return n_
                        return n_
                e_ = _S().visit(e_)
                ast.fix_missing_locations(e_)
            got[k_] = _npc(e_) if e_ is not None else str(v_)
        except SyntaxError:
            got[k_] = str(v_)
    ok = got.get("self.x_prev") in ("np.zeros(self.n_x_prev).astype(np.float64)", "np.zeros(self.n_x_prev)") \
        and got.get("self.y_prev") in ("np.zeros(self.n_y_prev).astype(np.float64)", "np.zeros(self.n_y_prev)")
    _ob(ctx, "F2", ir, "IIR: reset_state installs fresh zero histories of the filter's order (new arrays, copied)", ok, "" if ok else f"{got}", "IirFilter:reset", IIR, "IirFilter.reset_state")
    from .sem import straightline_ex as _slf
    from ..core.terms import Evaluator as _EvF
    sli = _slf([st for st in ii.body if not (isinstance(st, ast.Expr) and isinstance(st.value, ast.Constant))])
    bp_, ap_ = ii.args.args[1].arg, ii.args.args[2].arg
    tk = lambda e_: _EvF().ev(e_).key() if e_ is not None else None  # noqa: E731
    ok = tk(sli["env"].get("self.n_x_prev")) in (f"max(0,-1 + len({bp_}))", f"max(-1 + len({bp_}),0)") and tk(sli["env"].get("self.n_y_prev")) in (f"max(0,-1 + len({ap_}))", f"max(-1 + len({ap_}),0)")
    if not ok:
        # the same clamp written as a choice: decided per path (n - 1 where n > 1, 0 otherwise)
        from ..core.symexec import run_paths as _rp3
        from ..core.terms import Term as _T3
        from .util import path_conds_struct as _pcs3, cond_taken as _ct3
        ok, n_p = True, 0
        for p_ in _rp3(ctx, ii, rule="F2"):
            if p_.end not in ("return", "fall"):
                continue
            n_p += 1
            cs_ = _pcs3(ctx, ii, p_)
            for key_, par_ in (("self.n_x_prev", bp_), ("self.n_y_prev", ap_)):
                v_ = p_.env.get(key_)
                d_ = _T3.atom(f"len({par_})") - _T3.const(1)
                if v_ is None:
                    ok = False
                elif v_.key() in (f"max(0,-1 + len({par_}))", f"max(-1 + len({par_}),0)"):
                    pass
                elif v_ == d_ and (_ct3(cs_, d_, ">") or _ct3(cs_, d_, ">=")):
                    pass
                elif v_ == _T3.const(0) and (_ct3(cs_, d_, "<=") or _ct3(cs_, d_, "<")):
                    pass
                else:
                    ok = False
        ok = ok and n_p >= 1
    _ob(ctx, "F2", ii, "IIR: history lengths are len(B)-1 and len(A)-1", ok, "", "IirFilter:orders", IIR, "IirFilter.__init__")


def rule_F3(ctx):
    from .sem import straightline_ex, np_canon
    fr = _fn(ctx, FIR, "FirFilter.get_remaining", "F3")
    sl = straightline_ex(_body(fr), effect_havoc=lambda c: ["self.x_prev"] if norm(c.func) == "self.reset_state" else [])
    if sl["ret"] is None:
        raise AnalysisError("F3", f"{FIR}:FirFilter.get_remaining", "get_remaining is not a straight-line computation (unrecognised form)")
    resets = [c for c, i in sl["effects"] if norm(c.func) == "self.reset_state"]
    ret = np_canon(sl["ret"])
    ok = len(resets) == 1 and "<after:" not in ret
    _ob(ctx, "F3", fr, "FIR: flushing ends by resetting the state (a flushed filter behaves like a new one), after the tail was computed from the old state", ok,
        "", "FirFilter.get_remaining:reset", FIR, "FirFilter.get_remaining")
    want = "self.convolve_valid(np.concatenate([self.x_prev, np.zeros(self.m0)]), self.h).astype(self.x_prev.dtype)"
    ok = ret == want
    _ob(ctx, "F3", fr, "FIR: the delayed tail is produced by feeding delay_offset zeros after the carried history", ok, "" if ok else f"returns `{ret}`",
        "FirFilter.get_remaining:tail", FIR, "FirFilter.get_remaining")
    ir = _fn(ctx, IIR, "IirFilter.get_remaining", "F3")
    ok = any(isinstance(c, ast.Call) and norm(c) == "self.reset_state()" for c in own_nodes(ir))
    _ob(ctx, "F3", ir, "IIR: flushing resets the state", ok, "", "IirFilter.get_remaining:reset", IIR, "IirFilter.get_remaining")
    fi = _fn(ctx, FIR, "FirFilter.__init__", "F3")
    from ..core.terms import Evaluator as _EvF3
    slf = straightline_ex([st for st in fi.body if not (isinstance(st, ast.Expr) and isinstance(st.value, ast.Constant))])
    hp_, dp_ = fi.args.args[1].arg, fi.args.args[2].arg
    tk3 = lambda e_: _EvF3().ev(e_).key() if e_ is not None else None  # noqa: E731
    envf = slf["env"]
    ok = tk3(envf.get("self.N")) == f"len({hp_})" and tk3(envf.get("self.m0")) == dp_ and tk3(envf.get("self.m1")) == f"-1 + -1*{dp_} + len({hp_})" \
        and tk3(envf.get("self.x_prev")) in (f"np.zeros(-1 + -1*{dp_} + len({hp_}))",) and tk3(envf.get("self.h")) == hp_
    _ob(ctx, "F3", fi, "FIR: N taps split into delay_offset future and N - delay_offset - 1 past samples", ok, "", "FirFilter.__init__:split", FIR, "FirFilter.__init__")


def _casts(fn, ctype="short"):
    out = []
    for n in own_nodes(fn):
        if isinstance(n, ast.BinOp) and isinstance(n.op, ast.MatMult) and isinstance(n.left, ast.Name) and n.left.id == f"__cast_{ctype}__":
            out.append(n)
    return out


INF = float("inf")
_ROUNDERS = ("cround", "trunc", "round", "floor", "ceil", "int", "lround", "rint")


def _num(e):
    try:
        v = ast.literal_eval(e)
        return v if isinstance(v, (int, float)) and not isinstance(v, bool) else None
    except Exception:
        return None


def _interval(e, env, funcs, depth=0):
    """closed interval containing every value of expression e (floats / ints), given intervals of the names in env"""
    import math
    k = _num(e)
    if k is not None:
        return (k, k)
    if isinstance(e, ast.Name):
        return env.get(e.id, (-INF, INF))
    if isinstance(e, ast.BinOp) and isinstance(e.op, ast.MatMult) and isinstance(e.left, ast.Name) and e.left.id.startswith("__cast_"):
        return _interval(e.right, env, funcs, depth)  # a C cast keeps the mathematical value when it is in range (checked separately)
    if isinstance(e, ast.Call) and isinstance(e.func, ast.Name) and not e.keywords:
        f = e.func.id
        args = [_interval(a, env, funcs, depth) for a in e.args]
        if f == "min" and args:
            return (min(a[0] for a in args), min(a[1] for a in args))
        if f == "max" and args:
            return (max(a[0] for a in args), max(a[1] for a in args))
        if f in _ROUNDERS and len(args) == 1:
            lo, hi = args[0]
            return (math.floor(lo) if lo != -INF else -INF, math.ceil(hi) if hi != INF else INF)
        if f in funcs and depth < 3:
            return _return_interval(funcs[f], [a for a in args], funcs, depth + 1)
    if isinstance(e, ast.IfExp):
        a, b = _interval(e.body, env, funcs, depth), _interval(e.orelse, env, funcs, depth)
        return (min(a[0], b[0]), max(a[1], b[1]))
    return (-INF, INF)


def _walk_intervals(fn, funcs, arg_intervals=None, target=None, depth=0):
    """abstractly execute every CFG path of fn over intervals.  Yields (kind, payload, env): ('return', value interval, env) at returns
    and ('at', node, env) when the statement `target` is reached."""
    from ..core.cfg import CFG
    cfg = CFG(fn, "F4")
    params = [a.arg for a in fn.args.args]
    env0 = {p: (arg_intervals[i] if arg_intervals and i < len(arg_intervals) else (-INF, INF)) for i, p in enumerate(params)}
    tnode = None
    if target is not None:
        st = target
        while id(st) not in cfg.node_of:
            st = st._parent
        tnode = cfg.node_of[id(st)]

    def stop(s_, lab, src):
        return s_ == tnode if tnode is not None else False

    out = []
    for path, end, lab in cfg.paths(cfg.entry, stop):
        env = dict(env0)
        same = {}  # name -> name it was copied from and still equals (`result = x`): a test on one bounds the other

        def forget(name):
            same.pop(name, None)
            for k_ in [k_ for k_, v_ in same.items() if v_ == name]:
                same.pop(k_)

        feasible = True
        for n, l in path:
            node = cfg.nodes[n]
            st = node.ast
            if node.kind == "stmt" and isinstance(st, ast.Assign) and len(st.targets) == 1 and isinstance(st.targets[0], ast.Name):
                forget(st.targets[0].id)
                env[st.targets[0].id] = _interval(st.value, env, funcs, depth)
                if isinstance(st.value, ast.Name) and st.value.id != st.targets[0].id:
                    same[st.targets[0].id] = same.get(st.value.id, st.value.id)
            elif node.kind == "stmt" and isinstance(st, ast.AnnAssign) and isinstance(st.target, ast.Name) and st.value is not None:
                forget(st.target.id)
                env[st.target.id] = _interval(st.value, env, funcs, depth)
            elif node.kind == "stmt" and isinstance(st, ast.AugAssign) and isinstance(st.target, ast.Name):
                forget(st.target.id)
                env[st.target.id] = (-INF, INF)
            elif node.kind in ("for",) and isinstance(st, ast.For):
                for t in ast.walk(st.target):
                    if isinstance(t, ast.Name):
                        env[t.id] = (-INF, INF)
            elif node.kind == "test" and isinstance(st, (ast.If, ast.While)) and isinstance(st.test, ast.Compare) and len(st.test.ops) == 1 and l in ("true", "false"):
                t = st.test
                left, op, right = t.left, t.ops[0], t.comparators[0]
                k = _num(right)
                if isinstance(left, ast.Name) and k is not None:
                    lo, hi = env.get(left.id, (-INF, INF))
                    taken = l == "true"
                    if isinstance(op, (ast.Gt, ast.GtE)):
                        if taken:
                            lo = max(lo, k)
                        else:
                            hi = min(hi, k)
                    elif isinstance(op, (ast.Lt, ast.LtE)):
                        if taken:
                            hi = min(hi, k)
                        else:
                            lo = max(lo, k)
                    if lo > hi:
                        feasible = False
                    env[left.id] = (lo, hi)
                    root = same.get(left.id, left.id)
                    for other in [k_ for k_ in list(same) if same[k_] == root] + [root]:
                        if other != left.id:
                            olo, ohi = env.get(other, (-INF, INF))
                            env[other] = (max(olo, lo), min(ohi, hi))
            elif node.kind == "return" and st is not None:
                if feasible:
                    out.append(("return", _interval(st.value, env, funcs, depth) if st.value is not None else (0, 0), env))
        if tnode is not None and end == tnode and feasible:
            out.append(("at", tnode, env))
    return out


def _return_interval(fn, arg_intervals, funcs, depth=0):
    rs = [v for kind, v, env in _walk_intervals(fn, funcs, arg_intervals, None, depth) if kind == "return"]
    if not rs:
        return (-INF, INF)
    return (min(r[0] for r in rs), max(r[1] for r in rs))


def rule_F4(ctx):
    """every narrowing to a 16-bit integer receives a value inside the int16 range (interval analysis over the kernel's paths;
    clamp helpers are summarised by the interval of their return value)"""
    n = 0
    for path in (FIR, IIR):
        m = ctx.pyx()[path]
        funcs = dict(m.functions)
        for q, fn in sorted(m.functions.items()):
            for cast in _casts(fn, "short"):
                n += 1
                params = [a.arg for a in fn.args.args]
                ats = [env for kind, v, env in _walk_intervals(fn, funcs, None, cast) if kind == "at"]
                ivs = [_interval(cast.right, env, funcs) for env in ats]
                ok = bool(ivs) and all(-32768 <= lo and hi <= 32767 for lo, hi in ivs)
                how = "in the function"
                if not ok and any(isinstance(x, ast.Name) and x.id in params for x in ast.walk(cast.right)):
                    # bounded in every caller: the argument's interval at each call site
                    callers = []
                    for q2, f2 in m.functions.items():
                        for c in own_nodes(f2):
                            if isinstance(c, ast.Call) and isinstance(c.func, ast.Name) and c.func.id == q:
                                callers.append((q2, f2, c))
                    ok = bool(callers)
                    for q2, f2, c in callers:
                        arg_iv = []
                        for a in c.args:
                            iv = (-INF, INF)
                            if isinstance(a, ast.Name):
                                # latest assignment to the argument in the statement list that contains the call
                                st = c
                                while not isinstance(st, ast.stmt):
                                    st = st._parent
                                block = None
                                par = st._parent
                                for field in ("body", "orelse", "finalbody"):
                                    lst = getattr(par, field, None)
                                    if isinstance(lst, list) and any(x is st for x in lst):
                                        block = lst
                                if block is not None:
                                    idx = [i for i, x in enumerate(block) if x is st][0]
                                    for prev in reversed(block[:idx]):
                                        if isinstance(prev, ast.Assign) and len(prev.targets) == 1 and norm(prev.targets[0]) == a.id:
                                            iv = _interval(prev.value, {}, funcs)
                                            break
                                        if any(isinstance(x, ast.Name) and x.id == a.id and isinstance(x.ctx, ast.Store) for x in ast.walk(prev)):
                                            break
                            else:
                                iv = _interval(a, {}, funcs)
                            arg_iv.append(iv)
                        rs = [_interval(cast.right, env, funcs) for kind, v, env in _walk_intervals(fn, funcs, arg_iv, cast) if kind == "at"]
                        if not rs or not all(-32768 <= lo and hi <= 32767 for lo, hi in rs):
                            ok = False
                    how = "in every caller (the argument's interval at the call site)"
                _ob(ctx, "F4", cast, f"{q}: the value cast to a 16-bit integer is bounded to the int16 range first ({how})", ok,
                    "" if ok else f"`{norm(cast)[:60]}` can receive a value outside [-32768, 32767]: the C cast wraps around instead of saturating",
                    f"{q}:cast-short", path, q)
    if n < 2:
        raise AnalysisError("F4", "filters", f"{n} narrowing casts found (confirmed: 2)")


def rule_F5(ctx):
    """IIR: the circular-buffer state is loaded from and saved back to the filter's history arrays"""
    for q in ("_c_process", "_c_chickensys_process"):
        fn = _fn(ctx, IIR, q, "F5")
        inits = {}
        fills = {}
        for c in own_nodes(fn):
            if isinstance(c, ast.Call) and isinstance(c.func, ast.Name) and c.func.id == "init_double_cbuffer" and len(c.args) >= 2:
                inits[norm(c.args[0])] = norm(c.args[1])
            if isinstance(c, ast.Call) and isinstance(c.func, ast.Name) and c.func.id == "fill_arr_double_cbuffer" and len(c.args) == 2:
                fills[norm(c.args[0])] = (norm(c.args[1]), c)
        for w, prev in (("x_window", "x_prev"), ("y_window", "y_prev")):
            ok = inits.get(w) == prev
            _ob(ctx, "F5", fn, f"{q}: {w} starts from the carried history {prev}", ok, f"{inits.get(w)}", f"{q}:{w}:load", IIR, q)
            ok = w in fills and fills[w][0] == prev
            det = ""
            if ok:
                c = fills[w][1]
                # saved on the normal path after the sample loop (in the try body, after the for)
                par = c
                in_final = False
                while par is not None and par is not fn:
                    p2 = getattr(par, "_parent", None)
                    if isinstance(p2, ast.Try) and any(par is s for s in p2.finalbody):
                        in_final = True
                    par = p2
                fors = [f for f in own_nodes(fn) if (isinstance(f, ast.For) and "num_x" in norm(f.iter)) or (isinstance(f, ast.While) and "num_x" in norm(f.test))]
                ok = not in_final and bool(fors) and c.lineno > max(f.end_lineno or f.lineno for f in fors)
                det = "" if ok else "state is saved before/inside the sample loop or only in the cleanup"
            _ob(ctx, "F5", fn, f"{q}: {w} is written back to {prev} after the block", ok, det, f"{q}:{w}:save", IIR, q)
        # per-sample recurrence: reconstructed from the loop body by sequential substitution
        from .sem import straightline_ex, canon_ast
        loops = [f for f in own_nodes(fn) if isinstance(f, (ast.For, ast.While)) and any(isinstance(c, ast.Call) and isinstance(c.func, ast.Name) and c.func.id == "inner_prod_double_cbuffer"
                                                                                             for c in ast.walk(f))]
        ok, det = len(loops) == 1, "sample loop not found"
        if ok:
            lp = loops[0]
            body_ = list(lp.body)
            if isinstance(lp, ast.For):
                iv = lp.target.id if isinstance(lp.target, ast.Name) else "?"
                ok = norm(lp.iter) in ("range(num_x)", "range(0, num_x)")
            else:
                # counted while: `i` declared 0, `while i < num_x`, `i += 1` as the last statement of the body and nowhere else
                t_ = lp.test
                iv = t_.left.id if isinstance(t_, ast.Compare) and len(t_.ops) == 1 and isinstance(t_.ops[0], ast.Lt) and isinstance(t_.left, ast.Name) and norm(t_.comparators[0]) == "num_x" else "?"
                steps_ = [x for x in ast.walk(lp) if isinstance(x, (ast.AugAssign, ast.Assign)) and norm(x.target if isinstance(x, ast.AugAssign) else x.targets[0]) == iv]
                inits_ = [x for x in own_nodes(fn) if isinstance(x, (ast.Assign, ast.AnnAssign)) and norm(x.targets[0] if isinstance(x, ast.Assign) else x.target) == iv and x.lineno < lp.lineno]
                ok = iv != "?" and len(steps_) == 1 and steps_[0] is body_[-1] and isinstance(steps_[0], ast.AugAssign) and isinstance(steps_[0].op, ast.Add) and norm(steps_[0].value) == "1" \
                    and len(inits_) == 1 and inits_[0].value is not None and norm(inits_[0].value) == "0" \
                    and not any(isinstance(x, ast.Continue) for x in ast.walk(lp))
                body_ = body_[:-1]
            if not ok:
                det = "the sample loop does not visit i = 0 .. num_x-1 once each"
        if ok:
            sl = straightline_ex(body_)
            eff = [(canon_ast(e), i) for e, i in sl["effects"]]
            R = "(inner_prod_double_cbuffer(x_window, B) - inner_prod_double_cbuffer(y_window, A_true)) / k_gain"
            xin = (f"push_double_cbuffer(x_window, x[{iv}])", f"push_double_cbuffer(x_window, __cast_double__ @ x[{iv}])")
            if q == "_c_process":
                want_y, want_out = f"push_double_cbuffer(y_window, {R})", f"y[{iv}] = {R}"
            else:
                want_y, want_out = f"push_double_cbuffer(y_window, _c_bound({R}))", f"y[{iv}] = _c_fix_int(_c_bound({R}))"
            texts = [t for t, i in eff]
            # the narrowing helper written in place: truncation towards zero, then the cast to a 16-bit integer
            outs = (want_out,) if q == "_c_process" else (want_out, f"y[{iv}] = __cast_short__ @ trunc(_c_bound({R}))")
            ok = not sl["rest"] and len(texts) == 3 and texts[0] in xin and texts[1] == want_y and texts[2] in outs
            det = "" if ok else f"loop body effects: {texts}"
            if ok:
                # the filter sum is taken after the new input entered x_window and before the new output enters y_window
                first_sum = min(i for i, st in enumerate(body_) if any(isinstance(c, ast.Call) and isinstance(c.func, ast.Name) and c.func.id == "inner_prod_double_cbuffer"
                                                                       for c in ast.walk(st)))
                ok = eff[0][1] < first_sum < eff[1][1]
                det = "" if ok else "the filter sum is not taken between the two history updates"
        _ob(ctx, "F5", fn, f"{q}: y[n] = (B . x_window - A[1:] . y_window) / A[0], and y[n] enters the output history", ok, det, f"{q}:recurrence", IIR, q)
    for cls, cq in (("IirFilter", "_c_process"), ("ChickSysCustomIirFilter", "_c_chickensys_process")):
        pf = _fn(ctx, IIR, f"{cls}.process", "F5")
        from .sem import straightline_ex as _slx, canon_ast as _cax
        slp = _slx([st for st in pf.body])
        kc = [e for e, i_ in slp["effects"] if isinstance(e, ast.Call) and norm(e.func) == cq]
        ok = len(kc) == 1 and not kc[0].keywords and [_cax(a) for a in kc[0].args][2:] == ["self.B", "self.A", "self.x_prev", "self.y_prev"]
        # and the array the kernel fills is the one handed back
        ok = ok and slp["ret"] is not None and (_cax(slp["ret"]) == _cax(kc[0].args[1]) or _cax(slp["ret"]).startswith(_cax(kc[0].args[1]) + ".astype("))
        _ob(ctx, "F5", pf, f"{cls}.process hands the filter's own history arrays to the kernel (updated in place)", ok, "", f"{cls}.process:state-args", IIR, f"{cls}.process")


def rule_F6(ctx):
    """the presets only bind constants: they inherit process / reset_state / get_remaining unchanged"""
    m = ctx.prog.module(COMMON)
    allowed_bases = {"FirFilter", "ChickSysCustomFirFilter", "ChickSysCustomIirFilter", "IirFilter"}
    n = 0
    for q, cls in sorted(m.classes.items()):
        n += 1
        bases = [norm(b) for b in cls.bases]
        ok = len(bases) == 1 and bases[0] in allowed_bases
        ctx.ob("F6", cls, f"preset {q} derives directly from a streaming filter core", ok, f"bases {bases}", inst=f"{q}:base")
        methods = [s.name for s in cls.body if isinstance(s, (ast.FunctionDef, ast.AsyncFunctionDef))]
        ok = methods == ["__init__"]
        ctx.ob("F6", cls, f"preset {q} defines only __init__ (block processing, reset and flush are the core's)", ok,
               "" if ok else f"defines {methods}: overriding the streaming methods changes how state is carried between blocks", inst=f"{q}:methods")
        attrs = [s for s in cls.body if isinstance(s, (ast.Assign, ast.AnnAssign))]
        ctx.ob("F6", cls, f"preset {q} keeps no class-level state", not attrs, "", inst=f"{q}:no-state")
        init = [s for s in cls.body if isinstance(s, ast.FunctionDef) and s.name == "__init__"]
        if init:
            body = [s for s in init[0].body if not (isinstance(s, ast.Expr) and isinstance(s.value, ast.Constant))]
            # local names for the constants may precede the one call (plain locals bound to displays of names / constants: no state)
            def _plain(e):
                return not any(isinstance(x, (ast.Call, ast.Attribute, ast.Subscript, ast.Lambda, ast.NamedExpr, ast.Await, ast.Yield, ast.YieldFrom, ast.Starred)) for x in ast.walk(e))
            pre_ok = all(isinstance(b_, ast.Assign) and all(isinstance(t_, ast.Name) or (isinstance(t_, ast.Tuple) and all(isinstance(u_, ast.Name) for u_ in t_.elts)) for t_ in b_.targets)
                         and _plain(b_.value) for b_ in body[:-1])
            ok = len(body) >= 1 and pre_ok and isinstance(body[-1], ast.Expr) and isinstance(body[-1].value, ast.Call) and norm(body[-1].value.func) == "super().__init__" \
                and len(init[0].args.args) == 1 and not init[0].args.defaults
            ctx.ob("F6", init[0], f"preset {q}.__init__ only forwards constants to the core's constructor (no mutable defaults, no extra state)", ok, "", inst=f"{q}:init")
    if n < 5:
        raise AnalysisError("F6", COMMON, f"{n} preset classes found (confirmed: 5)")
    try:
        h = ctx.folder.ev(ctx.prog.assigned(COMMON, "_chick_sys_roland_deemph_h", "F6").args[0], m)
        k = ctx.const(COMMON, "_chick_sys_roland_deemph_k_gain", "F6")
        d = ctx.const(COMMON, "_chick_sys_roland_deemph_delay_offset", "F6")
        ok = sum(h) == k and len(h) == 19 and h == h[::-1] and d == 7
        ctx.ob("F6", ctx.prog.assigned(COMMON, "_chick_sys_roland_deemph_h"), "ChickenSys Roland FIR: 19 symmetric taps, gain = sum of taps, delay offset 7", ok,
               f"sum {sum(h)} k {k} len {len(h)} delay {d}", inst="roland-fir-constants", file=COMMON, qualname="<module>")
    except (NotConst, AttributeError, IndexError) as e:
        raise AnalysisError("F6", COMMON, f"preset constants not foldable: {e}")
    # the CDXtract FIR converts with astype(int16), which wraps: it stays inside the int16 range only because the taps' absolute sum keeps a
    # full-scale input at full scale (32767 * gain < 32768 and 32768 * gain < 32769, i.e. gain < 32769/32768)
    from fractions import Fraction as _Fr
    try:
        hc = ctx.folder.ev(ctx.prog.assigned(COMMON, "_cdxtract_roland_deemph_h", "F6").args[0], m)
        gain = sum(abs(_Fr(x_)) for x_ in hc)
        ok = len(hc) >= 4 and all(isinstance(x_, (int, float)) and not isinstance(x_, bool) for x_ in hc) and gain < _Fr(32769, 32768)
        ctx.ob("F6", ctx.prog.assigned(COMMON, "_cdxtract_roland_deemph_h"), "CDXtract FIR: the taps' absolute sum keeps a full-scale 16-bit signal inside the int16 range (no wrap-around on conversion)",
               ok, f"sum |h| = {float(gain)!r}", inst="cdxtract-gain", file=COMMON, qualname="<module>")
    except (NotConst, AttributeError, IndexError, TypeError) as e:
        raise AnalysisError("F6", COMMON, f"CDXtract kernel not foldable: {e}")
    # element types of the coefficient tables: the first block is convolved against the float64 zero history, later blocks against a view
    # of the caller's samples - with a kernel narrower than float64 numpy would pick a different result type for the two cases, and the
    # output would depend on where the block boundaries fall
    want_dt = {"_cdxtract_roland_deemph_h": ("np.double", "np.float64", "numpy.float64", "numpy.double", "float", "'float64'", "'d'", "'f8'"),
               "_chick_sys_roland_deemph_h": ("np.int16", "numpy.int16", "'int16'", "'i2'", "'h'")}
    for nm_, okset in want_dt.items():
        node_ = ctx.prog.assigned(COMMON, nm_, "F6")
        dt_ = None
        if isinstance(node_, ast.Call):
            dt_ = next((norm(k_.value) for k_ in node_.keywords if k_.arg == "dtype"), norm(node_.args[1]) if len(node_.args) > 1 else None)
        ctx.ob("F6", node_, f"{nm_} is stored as {okset[0]}", dt_ in okset, f"dtype {dt_}", inst=f"table-dtype:{nm_}", file=COMMON, qualname="<module>")
    # nothing else in the package subclasses or monkey-patches the filter cores
    for mm in ctx.prog.modules.values():
        if mm.path == COMMON:
            continue
        for q, cls in mm.classes.items():
            if any(norm(b) in allowed_bases for b in cls.bases):
                ctx.ob("F6", cls, "filter cores are subclassed only by the presets in filters/common.py", False, f"{mm.path}:{q}", inst=f"foreign:{q}")
