"""F1..F6: streaming filters, on the token-rewritten .pyx sources and filters/common.py  (C19)."""
import ast

from ..core.loader import AnalysisError, dotted, norm, own_nodes, where, full, enclosing_class
from ..core.consts import NotConst

FIR = "smpl_extract/filters/fir.pyx"
IIR = "smpl_extract/filters/iir.pyx"
COMMON = "smpl_extract/filters/common.py"


def _fn(ctx, path, q, rule):
    m = ctx.pyx().get(path)
    if m is None:
        raise AnalysisError(rule, path, "pyx source not found")
    f = m.functions.get(q)
    if f is None:
        raise AnalysisError(rule, f"{path}:{q}", "function/method not found (anchor vanished)")
    return f


def _ob(ctx, rule, node, what, ok, det, inst, path, q):
    ctx.ob(rule, None, what, ok, det, inst=inst, file=path, qualname=q, line=getattr(node, "lineno", 0))


def _depends_on(expr, names):
    for n in ast.walk(expr):
        d = dotted(n) if isinstance(n, (ast.Attribute, ast.Name)) else None
        if d in names:
            return True
    return False


def rule_F1(ctx):
    """the state stored for the next block depends on the state carried in from earlier blocks"""
    fn = _fn(ctx, FIR, "FirFilter.process", "F1")
    stores = [a for a in own_nodes(fn) if isinstance(a, ast.Assign) and dotted(a.targets[0]) == "self.x_prev"]
    if len(stores) != 1:
        raise AnalysisError("F1", f"{FIR}:FirFilter.process", f"{len(stores)} stores to self.x_prev")
    # locals derived from the previous state
    tainted = {"self.x_prev"}
    changed = True
    while changed:
        changed = False
        for a in sorted([x for x in own_nodes(fn) if isinstance(x, ast.Assign)], key=lambda x: x.lineno):
            if a is stores[0] or a.lineno > stores[0].lineno:
                continue
            t = dotted(a.targets[0])
            if t and t not in tainted and _depends_on(a.value, tainted):
                tainted.add(t)
                changed = True
    ok = _depends_on(stores[0].value, tainted)
    _ob(ctx, "F1", stores[0], "FIR: the history kept for the next block is taken from (previous history + new block), not from the new block alone", ok,
        "" if ok else f"`{norm(stores[0])}`: with blocks shorter than the filter memory, samples older than the current block are forgotten",
        "FirFilter.process:x_prev", FIR, "FirFilter.process")
    # the convolution input is previous history followed by the new block
    xf = [a for a in own_nodes(fn) if isinstance(a, ast.Assign) and norm(a.targets[0]) == "x_full"]
    ok = len(xf) == 1 and norm(xf[0].value) == "np.concatenate([self.x_prev, x])" and xf[0].lineno < stores[0].lineno
    _ob(ctx, "F1", fn, "FIR: each block is filtered together with the carried history (history first)", ok, "", "FirFilter.process:x_full", FIR, "FirFilter.process")
    y = [a for a in own_nodes(fn) if isinstance(a, ast.Assign) and norm(a.targets[0]) == "y"]
    ok = len(y) == 1 and norm(y[0].value) == "self.convolve_valid(x_full, self.h).astype(dtype)"
    _ob(ctx, "F1", fn, "FIR: the output is the valid convolution of that input with the taps", ok, "", "FirFilter.process:y", FIR, "FirFilter.process")


def rule_F2(ctx):
    """reset restores exactly the initial state"""
    init = _fn(ctx, FIR, "FirFilter.__init__", "F2")
    rs = _fn(ctx, FIR, "FirFilter.reset_state", "F2")
    ia = {dotted(a.targets[0]): norm(a.value) for a in own_nodes(init) if isinstance(a, ast.Assign) and (dotted(a.targets[0]) or "").startswith("self.")}
    state = {"self.x_prev"}
    for s in sorted(state):
        ra = [a for a in own_nodes(rs) if isinstance(a, ast.Assign) and dotted(a.targets[0]) == s]
        ok = len(ra) == 1
        det = f"{s} is not reassigned by reset_state"
        if ok:
            v = ra[0].value
            src = norm(v)
            if isinstance(v, ast.Name):
                defs = [a for a in own_nodes(rs) if isinstance(a, ast.Assign) and norm(a.targets[0]) == v.id]
                src = " ; ".join(norm(d.value) for d in sorted(defs, key=lambda d: d.lineno))
            ok = ia.get(s) is not None and ia[s] in src
            det = "" if ok else f"reset gives `{src}`, constructor gives `{ia.get(s)}`"
        _ob(ctx, "F2", rs, f"FIR: reset_state restores {s} to its constructor value", ok, det, f"FirFilter:{s}", FIR, "FirFilter.reset_state")
    ii = _fn(ctx, IIR, "IirFilter.__init__", "F2")
    ok = any(isinstance(c, ast.Call) and norm(c) == "self.reset_state()" for c in own_nodes(ii))
    _ob(ctx, "F2", ii, "IIR: the constructor initialises its state through reset_state (init = reset by construction)", ok, "", "IirFilter:init-calls-reset", IIR, "IirFilter.__init__")
    ir = _fn(ctx, IIR, "IirFilter.reset_state", "F2")
    t = full(ir)
    ok = "np.zeros(self.n_x_prev, dtype=np.float64)" in t and "np.zeros(self.n_y_prev, dtype=np.float64)" in t and "self.x_prev = x_prev.astype(np.float64)" in t \
        and "self.y_prev = y_prev.astype(np.float64)" in t
    _ob(ctx, "F2", ir, "IIR: reset_state installs fresh zero histories of the filter's order (new arrays, copied)", ok, "", "IirFilter:reset", IIR, "IirFilter.reset_state")
    t = full(ii)
    ok = "self.n_x_prev = max(0, len(B) - 1)" in t and "self.n_y_prev = max(0, len(A) - 1)" in t
    _ob(ctx, "F2", ii, "IIR: history lengths are len(B)-1 and len(A)-1", ok, "", "IirFilter:orders", IIR, "IirFilter.__init__")


def rule_F3(ctx):
    fr = _fn(ctx, FIR, "FirFilter.get_remaining", "F3")
    body = [s for s in fr.body if not (isinstance(s, ast.Expr) and isinstance(s.value, ast.Constant))]
    calls = [c for c in own_nodes(fr) if isinstance(c, ast.Call) and norm(c) == "self.reset_state()"]
    ok = len(calls) == 1 and isinstance(body[-1], ast.Return) and body[-2] is getattr(calls[0], "_parent", None)
    _ob(ctx, "F3", fr, "FIR: flushing ends by resetting the state (a flushed filter behaves like a new one)", ok, "", "FirFilter.get_remaining:reset", FIR, "FirFilter.get_remaining")
    t = full(fr)
    ok = "x_full = np.concatenate([self.x_prev, np.zeros(self.m0)])" in t and "y = self.convolve_valid(x_full, self.h).astype(dtype)" in t
    _ob(ctx, "F3", fr, "FIR: the delayed tail is produced by feeding delay_offset zeros after the carried history", ok, "", "FirFilter.get_remaining:tail", FIR, "FirFilter.get_remaining")
    ir = _fn(ctx, IIR, "IirFilter.get_remaining", "F3")
    ok = any(isinstance(c, ast.Call) and norm(c) == "self.reset_state()" for c in own_nodes(ir))
    _ob(ctx, "F3", ir, "IIR: flushing resets the state", ok, "", "IirFilter.get_remaining:reset", IIR, "IirFilter.get_remaining")
    fi = _fn(ctx, FIR, "FirFilter.__init__", "F3")
    t = full(fi)
    ok = "self.m1 = self.N - self.m0 - 1" in t and "self.m0 = delay_offset" in t and "self.N = len(h)" in t and "self.x_prev = np.zeros(self.m1)" in t
    _ob(ctx, "F3", fi, "FIR: N taps split into delay_offset future and N - delay_offset - 1 past samples", ok, "", "FirFilter.__init__:split", FIR, "FirFilter.__init__")


def _casts(fn, ctype="short"):
    out = []
    for n in own_nodes(fn):
        if isinstance(n, ast.BinOp) and isinstance(n.op, ast.MatMult) and isinstance(n.left, ast.Name) and n.left.id == f"__cast_{ctype}__":
            out.append(n)
    return out


def _bounded_on_paths(ctx, fn, cast, var):
    """every CFG path from entry to the cast statement passes a test excluding var > HI and one excluding var < LO"""
    from ..core.cfg import CFG
    cfg = CFG(fn, "F4")
    st = cast
    while id(st) not in cfg.node_of:
        st = st._parent
    target = cfg.node_of[id(st)]
    ups, lows = [], []

    def stop(s, lab, src):
        return s == target

    ok = True
    bounds = None
    for path, end, lab in cfg.paths(cfg.entry, stop):
        if end != target:
            continue
        up = lo = None
        for n, l in path:
            node = cfg.nodes[n]
            if node.kind == "test" and isinstance(node.ast, ast.If) and isinstance(node.ast.test, ast.Compare) and len(node.ast.test.ops) == 1:
                t = node.ast.test
                if isinstance(t.left, ast.Name) and t.left.id == var and isinstance(t.comparators[0], (ast.Constant, ast.UnaryOp)):
                    try:
                        k = ast.literal_eval(t.comparators[0])
                    except Exception:
                        continue
                    if isinstance(t.ops[0], (ast.Gt, ast.GtE)) and l == "false":
                        up = k
                    if isinstance(t.ops[0], (ast.Lt, ast.LtE)) and l == "false":
                        lo = k
        if up is None or lo is None:
            ok = False
        else:
            bounds = (lo, up)
            if not (-32768.5 < lo and up < 32767.5):
                ok = False
    return ok, bounds


def rule_F4(ctx):
    """every narrowing to a 16-bit integer is preceded by a two-sided bound"""
    n = 0
    for path in (FIR, IIR):
        m = ctx.pyx()[path]
        for q, fn in sorted(m.functions.items()):
            for cast in _casts(fn, "short"):
                n += 1
                inner = cast.right
                var = None
                for x in ast.walk(inner):
                    if isinstance(x, ast.Name) and x.id not in ("cround", "trunc", "round"):
                        var = x.id
                ok, bounds = (False, None)
                if var is not None and var in [a.arg for a in fn.args.args]:
                    ok, bounds = _bounded_on_paths(ctx, fn, cast, var)
                how = "in the function"
                if not ok and var is not None and var in [a.arg for a in fn.args.args]:
                    # bounded in every caller: the argument's reaching definition is a clamp call
                    callers = []
                    for q2, f2 in m.functions.items():
                        for c in own_nodes(f2):
                            if isinstance(c, ast.Call) and isinstance(c.func, ast.Name) and c.func.id == q:
                                callers.append((q2, f2, c))
                    ok = bool(callers)
                    for q2, f2, c in callers:
                        a = c.args[0]
                        good = False
                        if isinstance(a, ast.Name):
                            defs = [d for d in own_nodes(f2) if isinstance(d, ast.Assign) and norm(d.targets[0]) == a.id and d.lineno < c.lineno]
                            if defs:
                                last = max(defs, key=lambda d: d.lineno)
                                if isinstance(last.value, ast.Call) and isinstance(last.value.func, ast.Name) and last.value.func.id in m.functions:
                                    good = _is_clamp(ctx, m.functions[last.value.func.id])
                        if not good:
                            ok = False
                    how = "in every caller (argument comes from a clamp)"
                _ob(ctx, "F4", cast, f"{q}: the value cast to a 16-bit integer is bounded to the int16 range first ({how})", ok,
                    "" if ok else f"`{norm(cast)[:60]}` can receive a value outside [-32768, 32767]: the C cast wraps around instead of saturating",
                    f"{q}:{norm(cast)[:50]}", path, q)
    if n < 2:
        raise AnalysisError("F4", "filters", f"{n} narrowing casts found (confirmed: 2)")


def _is_clamp(ctx, fn):
    """function returns its argument limited to [lo, hi] within the int16 range"""
    arg = fn.args.args[0].arg
    t = full(fn)
    ifs = [i for i in own_nodes(fn) if isinstance(i, ast.If)]
    up = lo = None
    for i in ifs:
        c = i.test
        if isinstance(c, ast.Compare) and isinstance(c.left, ast.Name) and c.left.id == arg:
            try:
                k = ast.literal_eval(c.comparators[0])
            except Exception:
                continue
            body_val = None
            for a in i.body:
                if isinstance(a, ast.Assign):
                    try:
                        body_val = ast.literal_eval(a.value)
                    except Exception:
                        pass
            if isinstance(c.ops[0], ast.Gt) and body_val == k:
                up = k
            if isinstance(c.ops[0], ast.Lt) and body_val == k:
                lo = k
    return up is not None and lo is not None and -32768 <= lo and up <= 32767


def rule_F5(ctx):
    """IIR: the circular-buffer state is loaded from and saved back to the filter's history arrays"""
    for q in ("_c_process", "_c_chickensys_process"):
        fn = _fn(ctx, IIR, q, "F5")
        inits = {}
        fills = {}
        for c in own_nodes(fn):
            if isinstance(c, ast.Call) and isinstance(c.func, ast.Name) and c.func.id == "init_double_cbuffer" and len(c.args) >= 2:
                inits[norm(c.args[0])] = norm(c.args[1])
            if isinstance(c, ast.Call) and isinstance(c.func, ast.Name) and c.func.id == "fill_arr_double_cbuffer" and len(c.args) == 2:
                fills[norm(c.args[0])] = (norm(c.args[1]), c)
        for w, prev in (("x_window", "x_prev"), ("y_window", "y_prev")):
            ok = inits.get(w) == prev
            _ob(ctx, "F5", fn, f"{q}: {w} starts from the carried history {prev}", ok, f"{inits.get(w)}", f"{q}:{w}:load", IIR, q)
            ok = w in fills and fills[w][0] == prev
            det = ""
            if ok:
                c = fills[w][1]
                # saved on the normal path after the sample loop (in the try body, after the for)
                par = c
                in_final = False
                while par is not None and par is not fn:
                    p2 = getattr(par, "_parent", None)
                    if isinstance(p2, ast.Try) and any(par is s for s in p2.finalbody):
                        in_final = True
                    par = p2
                fors = [f for f in own_nodes(fn) if isinstance(f, ast.For) and "num_x" in norm(f.iter)]
                ok = not in_final and bool(fors) and c.lineno > max(f.end_lineno or f.lineno for f in fors)
                det = "" if ok else "state is saved before/inside the sample loop or only in the cleanup"
            _ob(ctx, "F5", fn, f"{q}: {w} is written back to {prev} after the block", ok, det, f"{q}:{w}:save", IIR, q)
        # per-sample recurrence
        t = full(fn)
        ok = "push_double_cbuffer(x_window" in t and "inner_prod_double_cbuffer(x_window, B) - inner_prod_double_cbuffer(y_window, A_true)" in t \
            and "y_cur /= k_gain" in t and "push_double_cbuffer(y_window, y_cur)" in t
        _ob(ctx, "F5", fn, f"{q}: y[n] = (B . x_window - A[1:] . y_window) / A[0], and y[n] enters the output history", ok, "", f"{q}:recurrence", IIR, q)
    for cls, cq in (("IirFilter", "_c_process"), ("ChickSysCustomIirFilter", "_c_chickensys_process")):
        pf = _fn(ctx, IIR, f"{cls}.process", "F5")
        calls = [c for c in own_nodes(pf) if isinstance(c, ast.Call) and norm(c.func) == cq]
        ok = len(calls) == 1 and [norm(a) for a in calls[0].args][2:] == ["self.B", "self.A", "self.x_prev", "self.y_prev"]
        _ob(ctx, "F5", pf, f"{cls}.process hands the filter's own history arrays to the kernel (updated in place)", ok, "", f"{cls}.process:state-args", IIR, f"{cls}.process")
    # chickensys: clamp precedes history push and narrowing
    fn = _fn(ctx, IIR, "_c_chickensys_process", "F5")
    t = full(fn)
    i1, i2, i3 = t.find("y_cur = _c_bound(y_cur)"), t.find("push_double_cbuffer(y_window, y_cur)"), t.find("y_final = _c_fix_int(y_cur)")
    ok = 0 <= i1 < i2 < i3
    _ob(ctx, "F5", fn, "ChickenSys IIR: the output is clamped before it enters the history and before it is narrowed", ok, "", "_c_chickensys_process:clamp-order", IIR, "_c_chickensys_process")


def rule_F6(ctx):
    """the presets only bind constants: they inherit process / reset_state / get_remaining unchanged"""
    m = ctx.prog.module(COMMON)
    allowed_bases = {"FirFilter", "ChickSysCustomFirFilter", "ChickSysCustomIirFilter", "IirFilter"}
    n = 0
    for q, cls in sorted(m.classes.items()):
        n += 1
        bases = [norm(b) for b in cls.bases]
        ok = len(bases) == 1 and bases[0] in allowed_bases
        ctx.ob("F6", cls, f"preset {q} derives directly from a streaming filter core", ok, f"bases {bases}", inst=f"{q}:base")
        methods = [s.name for s in cls.body if isinstance(s, (ast.FunctionDef, ast.AsyncFunctionDef))]
        ok = methods == ["__init__"]
        ctx.ob("F6", cls, f"preset {q} defines only __init__ (block processing, reset and flush are the core's)", ok,
               "" if ok else f"defines {methods}: overriding the streaming methods changes how state is carried between blocks", inst=f"{q}:methods")
        attrs = [s for s in cls.body if isinstance(s, (ast.Assign, ast.AnnAssign))]
        ctx.ob("F6", cls, f"preset {q} keeps no class-level state", not attrs, "", inst=f"{q}:no-state")
        init = [s for s in cls.body if isinstance(s, ast.FunctionDef) and s.name == "__init__"]
        if init:
            body = [s for s in init[0].body if not (isinstance(s, ast.Expr) and isinstance(s.value, ast.Constant))]
            ok = len(body) == 1 and isinstance(body[0], ast.Expr) and isinstance(body[0].value, ast.Call) and norm(body[0].value.func) == "super().__init__" \
                and len(init[0].args.args) == 1 and not init[0].args.defaults
            ctx.ob("F6", init[0], f"preset {q}.__init__ only forwards constants to the core's constructor (no mutable defaults, no extra state)", ok, "", inst=f"{q}:init")
    if n < 5:
        raise AnalysisError("F6", COMMON, f"{n} preset classes found (confirmed: 5)")
    try:
        h = ctx.folder.ev(ctx.prog.assigned(COMMON, "_chick_sys_roland_deemph_h", "F6").args[0], m)
        k = ctx.const(COMMON, "_chick_sys_roland_deemph_k_gain", "F6")
        d = ctx.const(COMMON, "_chick_sys_roland_deemph_delay_offset", "F6")
        ok = sum(h) == k and len(h) == 19 and h == h[::-1] and d == 7
        ctx.ob("F6", ctx.prog.assigned(COMMON, "_chick_sys_roland_deemph_h"), "ChickenSys Roland FIR: 19 symmetric taps, gain = sum of taps, delay offset 7", ok,
               f"sum {sum(h)} k {k} len {len(h)} delay {d}", inst="roland-fir-constants", file=COMMON, qualname="<module>")
    except (NotConst, AttributeError, IndexError) as e:
        raise AnalysisError("F6", COMMON, f"preset constants not foldable: {e}")
    # nothing else in the package subclasses or monkey-patches the filter cores
    for mm in ctx.prog.modules.values():
        if mm.path == COMMON:
            continue
        for q, cls in mm.classes.items():
            if any(norm(b) in allowed_bases for b in cls.bases):
                ctx.ob("F6", cls, "filter cores are subclassed only by the presets in filters/common.py", False, f"{mm.path}:{q}", inst=f"foreign:{q}")
