"""L6 FIELD-FLOW, L7 WAV-ASSEMBLY, L8 WINDOW-FORMULAS, B5/B6 handler maps  (C01, C02, C03, C04, C20)."""
import ast
import re
from ..core.loader import clone as _clone

from ..core.loader import AnalysisError, dotted, norm, own_nodes, where, enclosing_class
from ..core.layout import Layouts, Unknown, Struct as LStruct, BitsS
from ..core.terms import Evaluator, Term
from ..core.symexec import run_paths, calls_on
from .util import evaluator, path_conds_struct, cond_taken

AK = "smpl_extract/akai/"
RO = "smpl_extract/roland/s7xx/"
A = Term.atom
C = Term.const


# --------------------------------------------------------------------- L6
# (file, common dataclass, source expression text) -> source description
L6_SOURCES = {
    (AK + "program.py", "ProgramHeaderCommon", "obj.header"): ("struct", AK + "program.py", "ProgramHeaderConstruct", ""),
    (AK + "keygroup.py", "KeygroupCommon", "container"): ("struct", AK + "keygroup.py", "KeygroupConstruct", ""),
    (RO + "sample_entry.py", "SampleParamCommon", "container.parameter"): ("struct", RO + "sample_entry.py", "SampleParamEntryStruct", ""),
    (RO + "sample_entry.py", "SampleParamOptionsSection", "container.parameter.sample_options"): ("struct", RO + "sample_entry.py", "SampleParamEntryStruct", "sample_options"),
    (RO + "sample_file.py", "SampleParamCommon", "sample_entry"): ("class", RO + "sample_entry.py", "SampleEntry", ""),
    (RO + "sample_file.py", "SampleParamOptionsSection", "sample_entry"): ("class", RO + "sample_entry.py", "SampleEntry", ""),
    (RO + "partial_entry.py", "PartialParamCommon", "container.parameter"): ("struct", RO + "partial_entry.py", "PartialParamEntryStruct", ""),
    (RO + "patch_entry.py", "PatchParamEntryCommon", "container.parameter"): ("struct", RO + "patch_entry.py", "PatchParamEntryStruct", ""),
    (RO + "performance_entry.py", "PerformanceParamCommon", "container.parameter"): ("struct", RO + "performance_entry.py", "PerformanceParamEntryStruct", ""),
    (RO + "program_file.py", "PatchParamEntryCommon", "patch_entry"): ("class", RO + "patch_entry.py", "PatchEntry", ""),
    (RO + "program_file.py", "PartialParamCommon", "partial_entry"): ("class", RO + "partial_entry.py", "PartialEntry", ""),
    (RO + "program_file.py", "PartialParamSampleSectionCommon", "sample_ref_entry"): ("class", RO + "partial_entry.py", "SampleEntryReference", ""),
}


def _declared_source(ctx, m, call):
    """("class", path, name, "") for the record class the second argument of a get_common_field_args call is declared to be:
    a local bound once by `x = cast(T, ..)` / `x: T = ..`, or a parameter annotated T, with T a dataclass of the package"""
    a = call.args[1]
    if not isinstance(a, ast.Name):
        return None
    fn = call
    while fn is not None and not isinstance(fn, (ast.FunctionDef, ast.AsyncFunctionDef)):
        fn = getattr(fn, "_parent", None)
    if fn is None:
        return None
    tname = None
    binds = [x for x in own_nodes(fn) if isinstance(x, (ast.Assign, ast.AnnAssign)) and any(isinstance(t, ast.Name) and t.id == a.id for t in (x.targets if isinstance(x, ast.Assign) else [x.target]))]
    if len(binds) == 1:
        b = binds[0]
        if isinstance(b, ast.AnnAssign) and isinstance(b.annotation, ast.Name):
            tname = b.annotation.id
        elif isinstance(b, ast.Assign) and isinstance(b.value, ast.Call) and isinstance(b.value.func, ast.Name) and b.value.func.id == "cast" and len(b.value.args) == 2 \
                and isinstance(b.value.args[0], ast.Name):
            tname = b.value.args[0].id
    elif not binds:
        for p_ in fn.args.posonlyargs + fn.args.args + fn.args.kwonlyargs:
            if p_.arg == a.id and isinstance(p_.annotation, ast.Name):
                tname = p_.annotation.id
    if tname is None:
        return None
    r = ctx.prog.resolve(m, tname)
    if not r or r[0] != "class" or not ctx.prog.dataclass_fields(r[1]):
        return None
    return ("class", r[2].path, r[1].name, "")


def _struct_names(ctx, L, path, name, sub=""):
    lay = L.of_path(path, name)
    core = lay.core()
    if sub:
        f = core.field(sub)
        c = f.core()
        if isinstance(c, BitsS):
            c = c.inner.core()
        core = c
    return [n for n, f in core.fields if n is not None]


def _slicing_general(ctx):
    """the per-zone slice adapter takes its bounds exactly from the evaluated count/start/stop/step expressions
    (a bound of 0 - a keygroup with no active zone - is a value, not a missing one)"""
    from .sem import straightline_ex, canon_ast
    path = "smpl_extract/util/constructs.py"
    rz = ctx.fn(path, "SlicingGeneral._realize", "L6")
    cx = rz.args.args[1].arg
    sl = straightline_ex([s_ for s_ in rz.body if not (isinstance(s_, ast.Expr) and isinstance(s_.value, ast.Constant))])
    ev = {k: f"evaluate(self.{k}, {cx})" for k in ("count", "start", "stop", "step")}
    want = f"(Slicing(self.subcon, {ev['count']}, {ev['start']}, {ev['stop']}, {ev['step']}, self.pattern), {ev['start']}, {ev['stop']}, {ev['step']})"
    # on every returning path the value is exactly the tuple built from the four evaluated expressions (a branch that replaces a
    # bound - e.g. `evaluate(..) or default` - shows up as a path with another term)
    want_k = evaluator(ctx, rz, {}).ev(ast.parse(want, mode="eval").body).key()
    rps = [p_ for p_ in run_paths(ctx, rz, rule="L6", limit=4000) if p_.end == "return"]
    if not rps:
        raise AnalysisError("L6", where(rz), "SlicingGeneral._realize has no returning path")
    bad = [p_ for p_ in rps if p_.ret is None or p_.ret.key() != want_k]
    ctx.ob("L6", rz, "SlicingGeneral realises Slicing(subcon, count, start, stop, step) from the evaluated expressions, unchanged", not bad,
           "" if not bad else f"under [{bad[0].cond_key()[:100]}] returns `{(bad[0].ret.key() if bad[0].ret is not None else None)[:200]}`", inst="slicing-realize")
    dec = ctx.fn(path, "SlicingGeneral._decode", "L6")
    sd = straightline_ex([s_ for s_ in dec.body if not (isinstance(s_, ast.Expr) and isinstance(s_.value, ast.Constant))])
    a = [x.arg for x in dec.args.args]
    got = canon_ast(sd["ret"]) if sd["ret"] is not None else "?"
    want = f"self._realize({a[2]})[0]._decode({a[1]}, {a[2]}, {a[3]})"
    okd = got == want
    if not okd:
        # on terms: every returning path hands back element 0 of the realised tuple, decoding the same object
        from .util import return_keys as _rk6
        rk_ = _rk6(ctx, dec, "L6")
        okd = rk_ == {evaluator(ctx, dec, {}).ev(ast.parse(want, mode="eval").body).key()}
        got = sorted(str(x) for x in rk_)[0] if rk_ else got
    ctx.ob("L6", dec, "SlicingGeneral decodes through the realised Slicing", okd, "" if okd else f"returns `{got[:160]}`", inst="slicing-decode")


def _padded_general(ctx):
    """PaddedGeneral._parse (velocity-zone table): `count` slots are parsed and exactly those the predicate rejects are dropped,
    wherever they sit (an unused slot before a used one must not be listed)"""
    fn = ctx.fn("smpl_extract/util/constructs.py", "PaddedGeneral._parse", "L6")
    prs = [p for p in run_paths(ctx, fn, rule="L6") if p.end == "return"]
    want = "(Filter(self.predicate,Array(evaluate(self.count,context),self.subcon)))._parse(stream,context,path)"
    # the same selection written as a comprehension over the parsed array (Filter calls predicate(obj, context) on each element)
    want2 = re.compile(r"comp\(_c0 for _c0 in \(Array\(evaluate\(self\.count,context\),self\.subcon\)\)\._parse(report)?\(stream,context,path\) if truthy\((self\.predicate|\w+)\(_c0,context\)\)\)")
    def _is_pred(p_, m_):
        nm = m_.group(2)
        if nm == "self.predicate":
            return True
        v_ = p_.env.get(nm) if hasattr(p_, "env") and p_.env else None
        return v_ is not None and v_.key() == "self.predicate"
    ok = bool(prs) and all(p.ret is not None and (p.ret.key() == want or (want2.fullmatch(p.ret.key()) and _is_pred(p, want2.fullmatch(p.ret.key())))) for p in prs)
    det = ""
    if not ok:
        # the same selection written as a comprehension over the parsed array
        from .sem import path_return_ast
        ok2 = bool(prs)
        for p in prs:
            e = path_return_ast(p)
            good = isinstance(e, ast.ListComp) and len(e.generators) == 1 and isinstance(e.generators[0].target, ast.Name) and isinstance(e.elt, ast.Name) \
                and e.elt.id == e.generators[0].target.id and len(e.generators[0].ifs) == 1 \
                and evaluator(ctx, fn, {}).ev(e.generators[0].iter).key() == "(Array(evaluate(self.count,context),self.subcon))._parse(stream,context,path)" \
                and norm(e.generators[0].ifs[0]) == f"self.predicate({e.elt.id}, context)"
            ok2 = ok2 and good
        ok = ok2
        det = "" if ok else f"returns {[p.ret.key() if p.ret is not None else None for p in prs]}"[:300]
    ctx.ob("L6", fn, "padded tables: every slot is parsed and exactly the slots the predicate rejects are dropped (at any position)", ok, det, inst="PaddedGeneral._parse")
    init = ctx.fn("smpl_extract/util/constructs.py", "PaddedGeneral.__init__", "L6")
    from .sem import straightline_ex, canon_ast
    sl = straightline_ex([st for st in init.body])
    pa = [a.arg for a in init.args.args]
    ok = len(pa) >= 5 and canon_ast(sl["env"].get("self.count", ast.Constant(value=None))) == pa[1] and canon_ast(sl["env"].get("self.pattern", ast.Constant(value=None))) == pa[3] \
        and canon_ast(sl["env"].get("self.predicate", ast.Constant(value=None))) == f"{pa[4]} or self._default_compare"
    ctx.ob("L6", init, "padded tables keep the count, pattern and predicate they are declared with", ok, "", inst="PaddedGeneral.__init__")


def rule_L6(ctx):
    """header values flow into the displayed dataclasses field by field"""
    L = Layouts(ctx)
    prog = ctx.prog
    seen = 0
    _slicing_general(ctx)
    _padded_general(ctx)
    for m in prog.modules.values():
        for c in ast.walk(m.tree):
            if isinstance(c, ast.Call) and isinstance(c.func, ast.Name) and c.func.id == "get_common_field_args" and len(c.args) == 2:
                key = (m.path, norm(c.args[0]), norm(c.args[1]))
                src = L6_SOURCES.get(key)
                if src is None:
                    # a site outside the reviewed table: the source's declared record class (the container dataclass it is cast
                    # to / annotated with - L1c keeps those classes in step with the structs) names the fields it provides
                    src = _declared_source(ctx, m, c)
                if src is None:
                    ctx.ob("L6", c, "get_common_field_args site has a reviewed (dataclass, source) pair", False, f"unreviewed pair {key[1:]}", inst=f"pair:{key[1]}<-{key[2]}")
                    continue
                seen += 1
                r = prog.resolve(m, key[1])
                if not r or r[0] != "class":
                    raise AnalysisError("L6", where(c), f"cannot resolve dataclass {key[1]}")
                want = [f[0] for f in prog.dataclass_fields(r[1])]
                if src[0] == "struct":
                    try:
                        have = _struct_names(ctx, L, src[1], src[2], src[3])
                    except Unknown as e:
                        raise AnalysisError("L6", where(c), f"layout: {e}")
                else:
                    have = [f[0] for f in prog.dataclass_fields(prog.klass(src[1], src[2], "L6"))]
                missing = [w for w in want if w not in have]
                ctx.ob("L6", c, f"every field of {key[1]} exists in its source `{key[2]}` ({src[2]})", not missing,
                       "" if not missing else f"fields {missing} are not provided by the source: the displayed value is lost or raises", inst=f"pair:{key[1]}<-{key[2]}")
    if seen < 10:
        raise AnalysisError("L6", "-", f"only {seen} get_common_field_args sites recognised (confirmed: 12)")
    gc = ctx.fn("smpl_extract/util/dataclass.py", "get_common_field_args", "L6")
    comp = [n for n in own_nodes(gc) if isinstance(n, ast.DictComp)]
    ok = len(comp) == 1 and norm(comp[0].key) == "k.name" and norm(comp[0].value) == "getattr(source_instance, k.name)" \
        and norm(comp[0].generators[0].iter) == "fields(common_dataclass)" and not comp[0].generators[0].ifs
    ctx.ob("L6", gc, "get_common_field_args copies every dataclass field by its own name", ok, "", inst="get_common_field_args")

    # (b) AkaiSample(...)
    sa = ctx.fn(AK + "sample.py", "SampleAdapter._decode_element", "L6")
    cls = prog.klass(AK + "sample.py", "AkaiSample", "L6")
    fields = [f[0] for f in prog.dataclass_fields(cls)]
    want = {"file_name": A("child_info.name"), "sample_name": A("obj.sample_name"), "sample_type": A("obj.id"),
            "bytes_per_sample": C(2), "samples_cnt": A("obj.samples_cnt"), "start_sample": A("obj.play_start"),
            "end_sample": A("obj.play_end"), "note_pitch": A("obj.note_pitch"), "pitch_cents": A("obj.pitch_offset_cents"),
            "pitch_semi": A("obj.pitch_offset_semi"), "loop_type": A("obj.loop_type"), "_data_stream": A("obj.data_stream"),
            "_parent": A("child_info.parent"), "_path": A("child_info.next_path")}
    prs = [p for p in run_paths(ctx, sa, rule="L6") if p.end == "return"]
    if not prs:
        raise AnalysisError("L6", where(sa), "no return path")
    for p in prs:
        cs = list(calls_on(p, name="AkaiSample"))
        if len(cs) != 1:
            ctx.ob("L6", sa, "SampleAdapter builds one AkaiSample", False, "", inst="AkaiSample-call")
            continue
        call, env, st = cs[0]
        ev = evaluator(ctx, sa, env)
        got = {}
        for i, a in enumerate(call.args):
            if i < len(fields):
                got[fields[i]] = ev.ev(a)
        for k in call.keywords:
            got[k.arg] = ev.ev(k.value)
        for fld, w in want.items():
            g = got.get(fld)
            ok = g == w
            ctx.ob("L6", call, f"AkaiSample.{fld} receives header value {w.key()}", ok, "" if ok else f"receives {g.key() if g is not None else 'nothing'}",
                   inst=f"AkaiSample.{fld}:{p.cond_key()[:80]}")
        # rate default
        g = got.get("sample_rate")
        conds = path_conds_struct(ctx, sa, p)
        if g == C(44100):
            ok = cond_taken(conds, A("obj.sampling_rate"), "==")
        else:
            ok = g == A("obj.sampling_rate") and cond_taken(conds, A("obj.sampling_rate"), "!=")
        ctx.ob("L6", call, "AkaiSample.sample_rate is the header rate, 44100 exactly when the header stores 0", ok,
               "" if ok else f"receives {g.key() if g is not None else None} under [{p.cond_key()[:120]}]", inst=f"AkaiSample.sample_rate:{p.cond_key()[:80]}")
    dr = ctx.const(AK + "data_types.py", "DEFAULT_SAMPLE_RATE", "L6")
    ctx.ob("L6", sa, "DEFAULT_SAMPLE_RATE is 44100", dr == 44100, f"{dr}", inst="DEFAULT_SAMPLE_RATE")
    # (d) active-loop filter: every table entry is visited, kept iff duration > 0, only when loop_type != INACTIVE.
    # Decided per return path on the value that reaches AkaiSample(loop_entries=...): a filtered traversal of the whole table
    # (comprehension or append loop, temporaries substituted) when looping is on, the empty list when it is off.
    import copy as _copy
    from .sem import _SubstEnv, _Rename, bool_eval
    from ..core.terms import Evaluator as _Ev

    def _filter_of_comp(v):
        if isinstance(v, ast.Call) and isinstance(v.func, ast.Name) and v.func.id == "list" and len(v.args) == 1 and not v.keywords:
            v = v.args[0]
        if not isinstance(v, (ast.ListComp, ast.GeneratorExp)) or len(v.generators) != 1 or not isinstance(v.generators[0].target, ast.Name):
            return None
        g = v.generators[0]
        ren = _Rename({g.target.id: "_c0"})
        conds = sorted(_Ev().cond(ren.visit(_clone(c))) for c in g.ifs)
        return ("filter", norm(g.iter), tuple(conds), norm(ren.visit(_clone(v.elt))))

    def _filter_of_loop(f, name):
        """for v in S: [plain temporaries]; if C: name.append(E)   (no break / return / else)"""
        if not isinstance(f.target, ast.Name) or f.orelse or any(isinstance(n, (ast.Break, ast.Return, ast.Continue)) for n in ast.walk(f)):
            return None
        env, out = {}, []

        def run(stmts, conds):
            for st in stmts:
                if isinstance(st, ast.Assign) and len(st.targets) == 1 and isinstance(st.targets[0], ast.Name) and st.targets[0].id != name:
                    env[st.targets[0].id] = _SubstEnv(env).visit(_clone(st.value))
                elif isinstance(st, ast.If) and not st.orelse:
                    if run(st.body, conds + [_SubstEnv(env).visit(_clone(st.test))]) is False:
                        return False
                elif isinstance(st, ast.Expr) and isinstance(st.value, ast.Call) and isinstance(st.value.func, ast.Attribute) and st.value.func.attr == "append" \
                        and norm(st.value.func.value) == name and len(st.value.args) == 1:
                    out.append((conds, _SubstEnv(env).visit(_clone(st.value.args[0]))))
                elif isinstance(st, ast.Pass):
                    continue
                else:
                    return False
            return True

        if run(f.body, []) is False or len(out) != 1:
            return None
        ren = _Rename({f.target.id: "_c0"})
        conds = sorted(_Ev().cond(ren.visit(_clone(c))) for c in out[0][0])
        return ("filter", norm(f.iter), tuple(conds), norm(ren.visit(out[0][1])))

    hdr = None
    ok, det, seen_act = True, "", set()
    n_paths = 0
    for p in prs:
        cs = list(calls_on(p, name="AkaiSample"))
        if len(cs) != 1:
            continue
        call = cs[0][0]
        arg = next((k.value for k in call.keywords if k.arg == "loop_entries"), call.args[fields.index("loop_entries")] if len(call.args) > fields.index("loop_entries") else None)
        if not isinstance(arg, ast.Name):
            v0 = _filter_of_comp(arg) if arg is not None else None
            if v0 is None:
                ok, det = False, f"loop_entries argument is `{norm(arg) if arg is not None else None}`"
                continue
            lname = None
        else:
            lname = arg.id
        n_paths += 1
        value, env, tests, done = None, {}, [], set()
        summarised = []
        for s_ in p.steps:
            st = s_.ast
            if st is None or any(any(x is st for x in ast.walk(f_)) and st is not f_ for f_ in summarised):
                continue
            if s_.kind == "stmt" and isinstance(st, (ast.Assign, ast.AnnAssign)) and getattr(st, "value", None) is not None:
                tg = st.targets[0] if isinstance(st, ast.Assign) else st.target
                if isinstance(tg, ast.Name) and tg.id == lname:
                    if (isinstance(st.value, ast.List) and not st.value.elts) or norm(st.value) == "list()":
                        value = ("empty",)
                    else:
                        value = _filter_of_comp(_SubstEnv(env).visit(_clone(st.value))) or ("?", norm(st.value))
                elif isinstance(tg, ast.Name):
                    env[tg.id] = _SubstEnv(env).visit(_clone(st.value))
            elif s_.kind == "for" and isinstance(st, ast.For) and lname is not None and any(
                    isinstance(n, ast.Attribute) and n.attr in ("append", "extend", "insert") and norm(n.value) == lname for n in ast.walk(st)):
                if id(st) in done:
                    continue
                done.add(id(st))
                summarised.append(st)
                fl = _filter_of_loop(st, lname)
                if fl is None or value != ("empty",):
                    value = ("?", f"loop at line {getattr(st, '_orig_lineno', st.lineno)}")
                else:
                    value = ("filter", norm(_SubstEnv(env).visit(_clone(st.iter))), fl[2], fl[3])
            elif s_.kind == "test" and s_.label in ("true", "false") and hasattr(st, "test") and not isinstance(st, (ast.For,)):
                tests.append((_SubstEnv(env).visit(_clone(st.test)), s_.label == "true"))
        if lname is None:
            value = v0

        def atom(node):
            if isinstance(node, ast.Compare) and len(node.ops) == 1 and norm(node.comparators[0]) == "AkaiLoopType.LOOP_INACTIVE" \
                    and norm(node.left).endswith(".loop_type"):
                if isinstance(node.ops[0], (ast.NotEq, ast.IsNot)):
                    return "A"
                if isinstance(node.ops[0], (ast.Eq, ast.Is)):
                    return "notA"
            return None

        active = None
        for tst, taken in tests:
            for val in (True, False):
                v_ = bool_eval(tst, lambda n, val=val: (val if atom(n) == "A" else (not val)) if atom(n) else None)
                if v_ is not None and v_ != "undef" and v_ != taken:
                    # this truth value of "looping is on" contradicts the branch: the other one holds on this path
                    active = (not val) if active in (None, not val) else "contradiction"
        seen_act.add(active)
        root = norm(sa.args.args[1]) if False else None
        if active is True:
            good = value is not None and value[0] == "filter" and value[1].endswith(".loop_data_table") and value[3] == "_c0" \
                and value[2] in (("_c0.loop_duration > 0",), ("-1 + _c0.loop_duration >= 0",))
        elif active is False:
            good = value == ("empty",)
        else:
            good = False
        if not good:
            ok, det = False, f"looping {'on' if active else 'off' if active is False else 'undecided'}: loop_entries is {value}"
    ok = ok and n_paths >= 1 and seen_act == {True, False}
    ctx.ob("L6", sa, "every active loop (duration > 0) of the 8-entry table is kept, in stored order", ok, det or f"cases {seen_act}", inst="active-loops")
    # LoopEntryAdapter
    le = ctx.fn(AK + "sample.py", "LoopEntryAdapter._decode", "L6")
    lcls = prog.klass(AK + "sample.py", "LoopEntry", "L6")
    lf = [f[0] for f in prog.dataclass_fields(lcls)]
    for p in [p for p in run_paths(ctx, le, rule="L6") if p.end == "return"]:
        cs = list(calls_on(p, name="LoopEntry"))
        if len(cs) != 1:
            continue
        call, env, st = cs[0]
        ev = evaluator(ctx, le, env)
        got = {lf[i]: ev.ev(a) for i, a in enumerate(call.args) if i < len(lf)}
        for k in call.keywords:
            got[k.arg] = ev.ev(k.value)
        start = A("obj.loop_start") - C(1) - A("obj.loop_length_coarse")
        conds = path_conds_struct(ctx, le, p)
        mx = A("max(" + ",".join(sorted([start.key(), "0"])) + ")")
        if got.get("loop_start") == C(0):
            ok = cond_taken(conds, start, "<")
        elif got.get("loop_start") == mx:
            ok = True
        else:
            ok = got.get("loop_start") == start and cond_taken(conds, start, ">=")
        ctx.ob("L6", call, "LoopEntry.loop_start = loop_at - 1 - coarse length, clamped at 0", ok, "" if ok else f"{got.get('loop_start')}", inst=f"LoopEntry.loop_start:{p.cond_key()[:60]}")
        ok = got.get("loop_end") == A("obj.loop_start")
        ctx.ob("L6", call, "LoopEntry.loop_end = stored loop point", ok, "" if ok else f"{got.get('loop_end')}", inst="LoopEntry.loop_end")
        ok = got.get("loop_duration") == A("obj.loop_duration")
        ctx.ob("L6", call, "LoopEntry.loop_duration = stored duration", ok, "" if ok else f"{got.get('loop_duration')}", inst="LoopEntry.loop_duration")
        g = got.get("repeat_forever")
        ok = g is not None and g.key() == "cond(-9999 + obj.loop_duration >= 0)"
        ctx.ob("L6", call, "LoopEntry.repeat_forever = duration >= 9999", ok, "" if ok else f"{g}", inst="LoopEntry.repeat_forever")
    # SampleParamLoopPoint(fine, address)
    lp = ctx.fn(RO + "sample_entry.py", "SampleParamLoopPointAdapter._decode", "L6")
    pcls = prog.klass(RO + "sample_entry.py", "SampleParamLoopPoint", "L6")
    pf = [f[0] for f in prog.dataclass_fields(pcls)]
    for p in [p for p in run_paths(ctx, lp, rule="L6") if p.end == "return"]:
        for call, env, st in calls_on(p, name="SampleParamLoopPoint"):
            ev = evaluator(ctx, lp, env)
            # what each constructor parameter is bound to, however the arguments are assembled (positional, keywords, **mapping)
            from .util import call_parts as _cpl
            _n, pos_, kw_ = _cpl(ev.ev(call).key())
            got = dict(zip(pf, pos_))
            got.update(kw_)
            src = lp.args.args[1].arg
            for fld in ("fine", "address"):
                g = got.get(fld)
                ok = g == f"{src}.{fld}"
                ctx.ob("L6", call, f"SampleParamLoopPoint.{fld} receives the record's {fld}", ok, "" if ok else f"receives {g}", inst=f"LoopPoint.{fld}")
    # (c) itemize
    it = ctx.fn("smpl_extract/elements.py", "LeafElement.itemize", "L6")
    # the exclusion list as it reaches is_public_field: folded through local copies, list(...) / tuple(...) wrappers and module
    # or class level tables
    from .sem import single_defs as _sdi
    _di = _sdi(it)
    excl_calls = [c for c in own_nodes(it) if isinstance(c, ast.Call) and isinstance(c.func, ast.Attribute) and c.func.attr == "is_public_field" and len(c.args) + len(c.keywords) >= 2]
    vals = None
    if len(excl_calls) == 1:
        ea = excl_calls[0].args[1] if len(excl_calls[0].args) > 1 else next((k.value for k in excl_calls[0].keywords if k.arg == "excluded_keys"), None)
        for _ in range(4):
            if isinstance(ea, ast.Name) and ea.id in _di:
                ea = _di[ea.id]
            elif isinstance(ea, ast.Call) and isinstance(ea.func, ast.Name) and ea.func.id in ("list", "tuple", "sorted", "set", "frozenset") and len(ea.args) == 1 and not ea.keywords:
                ea = ea.args[0]
            else:
                break
        try:
            v_ = ctx.folder.ev(ea, it._module) if ea is not None else None
        except Exception:
            v_ = None
        if isinstance(v_, (list, tuple, set, frozenset)) and all(isinstance(x, str) for x in v_):
            vals = sorted(v_)
    ok = vals == sorted(["name", "path", "type_id", "type_name", "safe_name", "export_name"])
    ctx.ob("L6", it, "itemize hides only the bookkeeping keys (name, path, type_id, type_name, safe_name, export_name)", ok, f"{vals}", inst="itemize-exclude")
    comp = [n for n in own_nodes(it) if isinstance(n, ast.DictComp)]
    ok = len(comp) == 1 and norm(comp[0].key) == "k.name" and norm(comp[0].value) == "getattr(self, k.name)" and norm(comp[0].generators[0].iter) == "fields(self)" \
        and len(comp[0].generators[0].ifs) == 1 and norm(comp[0].generators[0].ifs[0]).startswith("self.is_public_field(k.name")
    if not ok and not comp:
        # the same dict filled by a loop: per iteration path, a public field is stored under its own name with its own value,
        # a hidden one is not stored
        from .streams import _walk as _wi
        from .util import atomic_facts as _afi
        icfg = ctx.cfg(it, "L6")
        floops = [f for f in own_nodes(it) if isinstance(f, ast.For) and norm(f.iter) == "fields(self)" and isinstance(f.target, ast.Name)]
        ok = len(floops) == 1
        if ok:
            v = floops[0].target.id
            n_pub = n_hid = 0
            for kind, path, edge in icfg.iteration_paths(icfg.loop_of(floops[0])):
                if kind == "exit" and len(path) == 1:
                    continue
                if kind != "back":
                    ok = False
                    continue
                pr = _wi(ctx, it, icfg, path)
                pub = next((t_ for c_, t_ in _afi(pr) if re.fullmatch(r"truthy\(self\.is_public_field\(" + re.escape(v) + r"\.name,.+\)\)", c_.replace("~", ""))), None)
                stores = [(evaluator(ctx, it, s_.env).ev(s_.ast.targets[0].slice).key().replace("~", ""), evaluator(ctx, it, s_.env).ev(s_.ast.value).key().replace("~", ""))
                          for s_ in pr.steps if s_.kind == "stmt" and isinstance(s_.ast, ast.Assign) and len(s_.ast.targets) == 1 and isinstance(s_.ast.targets[0], ast.Subscript)]
                if pub is True:
                    n_pub += 1
                    ok = ok and stores == [(f"{v}.name", f"getattr(self,{v}.name)")]
                elif pub is False:
                    n_hid += 1
                    ok = ok and not stores
                else:
                    ok = False
            ok = ok and n_pub >= 1 and n_hid >= 1
    ctx.ob("L6", it, "itemize shows every public dataclass field under its own name", ok, "", inst="itemize-fields")
    pubf = ctx.fn("smpl_extract/elements.py", "LeafElement.is_public_field", "L6")
    # decided as a truth table over (name empty, starts with '_', no exclusion list, name in the list): every returning path is
    # replayed under each assignment (short-circuit order respected: name[0] of an empty name, `in None` never evaluated)
    from .sem import path_tests as _ptq, bool_eval as _beq, emptiness_by as _ebq
    nm, ex = pubf.args.args[1].arg, pubf.args.args[2].arg
    prs = [p for p in run_paths(ctx, pubf, rule="L6") if p.end == "return"]
    import itertools as _it
    ok, det = bool(prs), ""
    for EMPTY, UNDER, NOLIST, INLIST in _it.product((True, False), repeat=4):
        def atom(node, EMPTY=EMPTY, UNDER=UNDER, NOLIST=NOLIST, INLIST=INLIST):
            e_ = _ebq(node, lambda x: isinstance(x, ast.Name) and x.id == nm)
            if e_ is not None:
                return EMPTY == e_
            t_ = norm(node)
            if t_ in (f"{nm}[0] == '_'", f"{nm}.startswith('_')", f"{nm}[:1] == '_'"):
                return "undef" if (EMPTY and t_.startswith(f"{nm}[0]")) else (UNDER and not EMPTY)
            if t_ in (f"{nm}[0] != '_'",):
                return "undef" if EMPTY else not UNDER
            if t_ == f"{ex} is not None":
                return not NOLIST
            if t_ == f"{ex} is None":
                return NOLIST
            if t_ == f"{nm} in {ex}":
                return "undef" if NOLIST else INLIST
            if t_ == f"{nm} not in {ex}":
                return "undef" if NOLIST else not INLIST
            return None
        taken = []
        for p in prs:
            good = True
            for tst, tk in _ptq(p):
                v_ = _beq(tst, atom)
                if v_ == "undef" or v_ is None:
                    good = None
                    break
                if v_ != tk:
                    good = False
                    break
            if good is None:
                ok, det = False, f"a test is evaluated that is undefined or not understood for empty={EMPTY}, underscore={UNDER}, nolist={NOLIST}"
            elif good:
                taken.append(p)
        if not ok:
            break
        want_hidden = EMPTY or UNDER or ((not NOLIST) and INLIST)
        if len(taken) != 1:
            ok, det = False, f"{len(taken)} paths apply for empty={EMPTY}, underscore={UNDER}, nolist={NOLIST}, inlist={INLIST}"
            break
        rk = taken[0].ret.key() if taken[0].ret is not None else None
        rv = True if rk == "1" else (False if rk == "0" else None)
        if rv is None:
            # a returned boolean expression: evaluate it the same way
            from .sem import path_return_ast as _pra2
            e2 = _pra2(taken[0])
            v2 = _beq(e2, atom) if e2 is not None else None
            rv = v2 if isinstance(v2, bool) else None
        if rv is None or rv == want_hidden:
            ok, det = False, f"name empty={EMPTY}, underscore={UNDER}, nolist={NOLIST}, inlist={INLIST}: answered public={rv}"
            break
    ctx.ob("L6", pubf, "a field is hidden only when its name is empty, starts with `_`, or is in the exclusion list", ok, det, inst="is_public_field")
    # Roland SampleEntry / SampleFile constructor names
    for path, qn, clsname in ((RO + "sample_entry.py", "SampleEntryAdapter._decode_element", "SampleEntry"), (RO + "sample_file.py", "SampleFileAdapter._decode_element", "SampleFile")):
        fn = ctx.fn(path, qn, "L6")
        calls = [c for c in own_nodes(fn) if isinstance(c, ast.Call) and isinstance(c.func, ast.Name) and c.func.id == clsname]
        ok = len(calls) == 1
        if ok:
            # on every path the constructor receives the two field groups copied from the parsed record (however the keyword
            # arguments are assembled)
            n_seen = 0
            for p_ in run_paths(ctx, fn, rule="L6", limit=4000):
                for c_, e_, st_ in calls_on(p_):
                    if c_ is not calls[0]:
                        continue
                    n_seen += 1
                    from ..core.terms import _split_top as _st
                    k_ = evaluator(ctx, fn, e_).ev(c_).key()
                    inner = k_[len(clsname) + 1:-1]
                    stars = sorted(x for x in _st(inner, ",") if x.startswith("**"))
                    if len(stars) == 2:
                        ok = ok and stars[0].startswith("**get_common_field_args(SampleParamCommon,") \
                            and stars[1].startswith("**get_common_field_args(SampleParamOptionsSection,")
                    else:
                        # the two groups written out field by field: every field of both dataclasses is bound to the field of
                        # the same name of one source object per group
                        from ..core.terms import DC_FIELDS as _dcf, SIGS as _sg
                        from .util import call_parts as _cpk
                        _n2, pos2, kw2 = _cpk(k_)
                        bound = dict(zip(_sg.get(clsname) or (), pos2))
                        bound.update(kw2)
                        for grp in ("SampleParamCommon", "SampleParamOptionsSection"):
                            flds = _dcf.get(grp) or ()
                            srcs = {bound.get(f_, "?")[:-(len(f_) + 1)] if str(bound.get(f_, "?")).endswith("." + f_) else None for f_ in flds}
                            ok = ok and bool(flds) and len(srcs) == 1 and None not in srcs and not stars
            ok = ok and n_seen >= 1
        ctx.ob("L6", calls[0] if calls else fn, f"{clsname} receives both the common parameters and the option nibbles", ok, "", inst=f"{clsname}-kwargs")
    # VelocityZone(**sanitize_container(zone), **aux)
    ka = ctx.fn(AK + "keygroup.py", "KeygroupAdapter._decode", "L6")
    vz = [c for c in own_nodes(ka) if isinstance(c, ast.Call) and isinstance(c.func, ast.Name) and c.func.id == "VelocityZone"]
    # the zones are built (for-loop or comprehension) by enumerating the stored zones; zone i gets its own record and aux[k][i]
    its = [n for n in own_nodes(ka) if isinstance(n, (ast.For, ast.comprehension)) and norm(n.iter) == "enumerate(container.velocity_zones)"]
    ok = len(vz) == 1 and len(its) == 1 and isinstance(its[0].target, ast.Tuple) and len(its[0].target.elts) == 2
    det = "VelocityZone construction over enumerate(container.velocity_zones) not found"
    if ok:
        iv, zv = norm(its[0].target.elts[0]), norm(its[0].target.elts[1])
        from .sem import canon_expr
        stars = sorted(" ".join(ast.unparse(k.value).split()) for k in vz[0].keywords if k.arg is None)
        resolved = []
        for k in vz[0].keywords:
            if k.arg is None:
                v = k.value
                if isinstance(v, ast.Name):
                    d = [a for a in own_nodes(ka) if isinstance(a, ast.Assign) and norm(a.targets[0]) == v.id]
                    v = d[0].value if len(d) == 1 else v
                resolved.append(" ".join(ast.unparse(v).split()))
        ok = sorted(resolved) == sorted([f"sanitize_container({zv})", "{k: container[k][" + iv + "] for k in zone_aux_attrib_names}"])
        if not ok and f"sanitize_container({zv})" in resolved and len(resolved) == 2:
            # the same comprehension with another name for its variable
            try:
                dc_ = ast.parse([r for r in resolved if r != f"sanitize_container({zv})"][0], mode="eval").body
            except SyntaxError:
                dc_ = None
            if isinstance(dc_, ast.DictComp) and len(dc_.generators) == 1 and isinstance(dc_.generators[0].target, ast.Name) and not dc_.generators[0].ifs:
                v_ = dc_.generators[0].target.id
                ok = norm(dc_.key) == v_ and norm(dc_.value) == f"container[{v_}][{iv}]" and norm(dc_.generators[0].iter) == "zone_aux_attrib_names" and v_ not in (iv, zv)
        if not ok and f"sanitize_container({zv})" in resolved and len(resolved) == 2:
            # the auxiliary table written out: {'a': container['a'][i], 'b': container['b'][i], ...}, for exactly the names whose
            # list lengths were checked against the number of zones
            other = [r for r in resolved if r != f"sanitize_container({zv})"][0]
            try:
                dn = ast.parse(other, mode="eval").body
            except SyntaxError:
                dn = None
            if isinstance(dn, ast.Dict) and dn.keys and all(isinstance(k_, ast.Constant) and isinstance(k_.value, str) for k_ in dn.keys):
                ok = all(norm(v_) == f"container[{k_.value!r}][{iv}]" for k_, v_ in zip(dn.keys, dn.values))
                checked = [d_ for d_ in own_nodes(ka) if isinstance(d_, ast.Dict) and d_.keys and all(isinstance(k_, ast.Constant) for k_ in d_.keys)
                           and all(isinstance(v_, ast.Compare) and "len(container[" in norm(v_) for v_ in d_.values)]
                ok_d = len(checked) == 1 and [k_.value for k_ in checked[0].keys] == [k_.value for k_ in dn.keys] \
                    and all(norm(v_.left if "len(" in norm(v_.left) else v_.comparators[0]) == f"len(container[{k_.value!r}])" for k_, v_ in zip(checked[0].keys, checked[0].values))
                if not ok_d and not checked:
                    # the length check written as a selection over the literal list of names: (n for n in ("a", "b", ..) if len(container[n]) != N)
                    sel = []
                    for c_ in own_nodes(ka):
                        if isinstance(c_, (ast.GeneratorExp, ast.ListComp, ast.SetComp, ast.DictComp)) and len(c_.generators) == 1 and isinstance(c_.generators[0].target, ast.Name) \
                                and isinstance(c_.generators[0].iter, (ast.Tuple, ast.List)) and all(isinstance(e_, ast.Constant) and isinstance(e_.value, str) for e_ in c_.generators[0].iter.elts):
                            v_ = c_.generators[0].target.id
                            tests = list(c_.generators[0].ifs) + ([c_.elt] if not isinstance(c_, ast.DictComp) else [c_.value])
                            if any(isinstance(t_, ast.Compare) and len(t_.ops) == 1 and isinstance(t_.ops[0], (ast.NotEq, ast.Eq))
                                   and f"len(container[{v_}])" in (norm(t_.left), norm(t_.comparators[0])) for t_ in tests):
                                sel.append([e_.value for e_ in c_.generators[0].iter.elts])
                    ok_d = len(sel) == 1 and sel[0] == [k_.value for k_ in dn.keys]
                ok = ok and ok_d
        det = "" if ok else f"zone is built from {sorted(resolved)}"
    ctx.ob("L6", vz[0] if vz else ka, "zone i is built from its own record plus the per-zone auxiliary values [i], enumerating the stored zones in order", ok, det, inst="VelocityZone")
    try:
        zn = _struct_names(ctx, L, AK + "keygroup.py", "VelocityZoneConstruct")
    except Unknown as e:
        raise AnalysisError("L6", "VelocityZoneConstruct", str(e))
    zc = [f[0] for f in prog.dataclass_fields(prog.klass(AK + "keygroup.py", "VelocityZoneCommon", "L6"))]
    ctx.ob("L6", ka, "velocity-zone record fields are exactly the VelocityZoneCommon fields", sorted(zn) == sorted(zc), f"{sorted(set(zn) ^ set(zc))}", inst="zone-fields")
    aux = {e.value for n in own_nodes(ka) if isinstance(n, ast.Assign) and isinstance(n.value, ast.Tuple) for e in n.value.elts if isinstance(e, ast.Constant)}
    if not aux and vz:
        # the table written out at the zone construction: the keys of the auxiliary mapping handed to VelocityZone
        for k in vz[0].keywords:
            if k.arg is None:
                v = k.value
                if isinstance(v, ast.Name):
                    d = [a for a in own_nodes(ka) if isinstance(a, ast.Assign) and norm(a.targets[0]) == v.id]
                    v = d[0].value if len(d) == 1 else v
                if isinstance(v, ast.Dict) and v.keys and all(isinstance(k_, ast.Constant) for k_ in v.keys):
                    aux |= {k_.value for k_ in v.keys}
    ok = aux == {"enable_key_tracking", "aux_out_offset", "velocity_to_sample_start"}
    ctx.ob("L6", ka, "the three per-zone auxiliary arrays are distributed to the zones", ok, f"{sorted(aux)}", inst="zone-aux")
    # the keygroup handed back carries the zones that were built - on every path, also when there are none (the dataclass default is
    # one blank zone, not an empty list)
    from .util import call_parts as _cpk
    okk, detk, n_ret = True, "", 0
    for p_ in run_paths(ctx, ka, rule="L6", limit=4000):
        if p_.end != "return" or p_.ret is None:
            continue
        n_ret += 1
        fname_, pos_, kw_ = _cpk(p_.ret.key())
        if fname_ != "Keygroup" or "velocity_zones" not in kw_:
            # a keyword dict filled step by step: what the path stores under the key
            stored = [s_ for s_ in p_.steps if s_.kind == "stmt" and isinstance(s_.ast, ast.Assign) and len(s_.ast.targets) == 1 and isinstance(s_.ast.targets[0], ast.Subscript)
                      and isinstance(s_.ast.targets[0].slice, ast.Constant) and s_.ast.targets[0].slice.value == "velocity_zones"]
            splat = fname_ == "Keygroup" or p_.ret.key().startswith("Keygroup(")
            if not (splat and stored):
                okk, detk = False, f"on a path the keygroup is returned as `{p_.ret.key()[:120]}` without its velocity_zones: the class default (one blank zone) is shown instead of the stored zones"
    ctx.ob("L6", ka, "the keygroup is built with the list of zones that were read, whether or not it is empty", okk and n_ret >= 1, detk, inst="keygroup-zones")
    # CDDA track info fields
    at = prog.klass("smpl_extract/cdda/image.py", "AudioTrack", "L6")
    names = [f[0] for f in prog.dataclass_fields(at)]
    ok = all(k in names for k in ("title", "num_channels", "sample_rate", "bytes_per_sample", "num_audio_samples"))
    ctx.ob("L6", at, "CDDA track exposes channel count, rate, width and frame count", ok, f"{names}", inst="AudioTrack-fields")


# --------------------------------------------------------------------- L7
def rule_L7(ctx):
    """WAV assembly: chunk order, fmt values, destination encoding, truncating open"""
    gp = "smpl_extract/generalized/wav.py"
    enc = ctx.fn(gp, "WavSampleAdapter._encode", "L7")
    prs = [p for p in run_paths(ctx, enc, rule="L7") if p.end == "return"]
    if not prs:
        raise AnalysisError("L7", where(enc), "no return path")
    from .sem import grow_events
    obj = enc.args.args[1].arg
    _ev0 = evaluator(ctx, enc, {})
    ENCX = f"StreamEncoding(endianess=Endianess.LITTLE, sample_width={obj}.data_streams[0].encoding.sample_width, num_interleaved_channels={obj}.num_channels)"
    want_chunk = {
        "FMT": _ev0.ev(ast.parse("Container({'riff_id': WavRiffChunkType.FMT, 'data': get_fmt_chunk_data(" + obj + ", " + ENCX + ")})", mode="eval").body).key(),
        "SMPL": _ev0.ev(ast.parse("Container({'riff_id': WavRiffChunkType.SMPL, 'data': get_smpl_chunk_data(" + obj + ")})", mode="eval").body).key(),
        "DATA": _ev0.ev(ast.parse("Container({'riff_id': WavRiffChunkType.DATA, 'data': make_transcoder(" + obj + ".data_streams, " + ENCX + ")})", mode="eval").body).key(),
    }
    seen_orders = set()
    for p in prs:
        # the list that ends up under data -> chunks, reconstructed along the path: initial literal + appends / extends in order
        ret = p.ret.key() if p.ret is not None else ""
        import re as _re
        m = _re.fullmatch(r"Container\(\{data:Container\(\{chunks:(.+)\}\)\}\)", ret)
        lname = None
        for s_ in p.steps:
            if s_.kind == "stmt" and isinstance(s_.ast, ast.Assign) and isinstance(s_.ast.value, ast.List) and len(s_.ast.targets) == 1 and isinstance(s_.ast.targets[0], ast.Name):
                if any(True for _ in grow_events(enc, s_.ast.targets[0].id)):
                    lname = s_.ast.targets[0].id
        elems = []
        for s_ in p.steps:
            if s_.kind != "stmt" or lname is None:
                continue
            ev_ = evaluator(ctx, enc, s_.env)
            if isinstance(s_.ast, ast.Assign) and isinstance(s_.ast.value, ast.List) and norm(s_.ast.targets[0]) == lname:
                elems = [ev_.ev(x).key() for x in s_.ast.value.elts]
            for n, k, v in grow_events(s_.ast, lname):
                if k == "append":
                    elems.append(ev_.ev(v).key())
                elif k in ("extend", "iadd", "concat") and isinstance(v, ast.List):
                    elems += [ev_.ev(x).key() for x in v.elts]
                else:
                    elems.append("?")
        kinds = [next((k for k, w in want_chunk.items() if e == w), None) for e in elems]
        ok = kinds in (["FMT", "DATA"], ["FMT", "SMPL", "DATA"])
        seen_orders.add(tuple(str(k) for k in kinds))
        ctx.ob("L7", p.ret_node, "chunks are appended in the order fmt, [smpl], data", ok, "" if ok else f"chunk list on this path: {[e[:90] for e in elems]}",
               inst=f"order:{'+'.join(str(o) for o in kinds)}")
        ok = kinds[:1] == ["FMT"]
        ctx.ob("L7", p.ret_node, "destination encoding: little-endian, source sample width, the sample's channel count (fmt chunk and transcoder use the same one)", ok and "DATA" in kinds,
               "", inst="dest-encoding")
        ok = "DATA" in kinds
        ctx.ob("L7", p.ret_node, "the data chunk is the transcoder over the sample's data streams", ok, "", inst=f"data-gen:{len(kinds)}")
        # structure of the returned object from its term; that the list under `chunks` is the assembled list from the AST
        under = []
        for n in own_nodes(enc):
            if isinstance(n, ast.Dict):
                under += [v for k, v in zip(n.keys, n.values) if isinstance(k, ast.Constant) and k.value == "chunks"]
            if isinstance(n, ast.Call) and isinstance(n.func, ast.Name) and n.func.id in ("Container", "dict"):
                under += [k.value for k in n.keywords if k.arg == "chunks"]
        ok = m is not None and lname is not None and len(under) == 1 and isinstance(under[0], ast.Name) and under[0].id == lname
        ctx.ob("L7", p.ret_node, "the built object nests data -> chunks as RiffStruct expects", ok, "" if ok else f"returns `{ret[:140]}`", inst="nesting")
    ok = ("FMT", "DATA") in seen_orders and ("FMT", "SMPL", "DATA") in seen_orders
    ctx.ob("L7", enc, "the smpl chunk is optional", ok, f"{sorted(seen_orders)}", inst="smpl-optional")
    # fmt chunk
    fm = ctx.fn(gp, "get_fmt_chunk_data", "L7")
    for p in [p for p in run_paths(ctx, fm, rule="L7") if p.end == "return"]:
        for call, env, st in calls_on(p, name="WavFormatChunkContainer"):
            from .util import call_parts as _cpf
            # keyword arguments as value-flow terms; a dict built in steps and splatted (**fields) is seen through
            kw = _cpf(evaluator(ctx, fm, env).ev(call).key())[2]
            want = {"audio_format": "1", "channel_cnt": "encoding.num_interleaved_channels", "sample_rate": "sample.sample_rate",
                    "bits_per_sample": "8*encoding.sample_width"}
            for k, w in want.items():
                ctx.ob("L7", call, f"fmt.{k} = {w}", kw.get(k) == w, f"is {kw.get(k)}", inst=f"fmt.{k}")
    # export_wav opens with truncation and builds into that stream
    ex = ctx.fn(gp, "export_wav", "L7")
    withs = [n for n in own_nodes(ex) if isinstance(n, ast.With)]
    ok = len(withs) == 1
    det = "export_wav does not use a single `with open(...)`"
    if ok:
        it = withs[0].items[0]
        c = it.context_expr
        from .util import call_parts
        fname_, pos_, kw_ = call_parts(evaluator(ctx, ex, {}).ev(c).key()) if isinstance(c, ast.Call) else ("", [], {})
        ok = fname_ == "open" and len(pos_) == 2 and pos_[0] == ex.args.args[1].arg and pos_[1] == "'wb'" and not kw_
        det = "" if ok else f"output is opened with `{norm(c)}`: an existing longer file is not truncated / not a binary write"
        if ok:
            b = [n for n in ast.walk(withs[0]) if isinstance(n, ast.Call) and isinstance(n.func, ast.Attribute) and n.func.attr == "build_stream"]
            ok = len(b) == 1 and norm(b[0].args[0]) == ex.args.args[0].arg and norm(b[0].args[1]) == norm(it.optional_vars) and norm(b[0].func.value) == "WavSampleBuilder"
            det = "" if ok else "the sample is not built into the opened stream"
    ctx.ob("L7", ex, "export_wav writes the RIFF into a freshly truncated binary file (builtin open(path, 'wb'))", ok, det, inst="export_wav-open")
    wb = ctx.prog.assigned(gp, "WavSampleBuilder", "L7")
    ctx.ob("L7", wb, "WavSampleBuilder = WavSampleAdapter(RiffStruct)", norm(wb) == "WavSampleAdapter(RiffStruct)", norm(wb), inst="builder", file=gp, qualname="<module>")
    b2i = ctx.fn("smpl_extract/util/__init__.py", "bytes2int", "L7")
    t = [n for n in own_nodes(b2i) if isinstance(n, ast.Return)]
    ok = len(t) == 1 and norm(t[0].value) in ("int.from_bytes(bytes_in, 'little')", "int.from_bytes(bytes_in, byteorder='little')")
    ctx.ob("L7", b2i, "chunk ids are little-endian integers of their four characters", ok, "", inst="bytes2int")
    # smpl chunk content
    sm = ctx.fn(gp, "get_smpl_chunk_data", "L7")
    calls = [c for c in own_nodes(sm) if isinstance(c, ast.Call) and isinstance(c.func, ast.Name) and c.func.id == "WavSampleChunkContainer"]
    ok = len(calls) == 1 and {k.arg: norm(k.value) for k in calls[0].keywords}.get("sample_loops") == "loop_headers" \
        and {k.arg: norm(k.value) for k in calls[0].keywords}.get("sampler_data") == "b''"
    ctx.ob("L7", calls[0] if calls else sm, "smpl chunk carries the built loop headers and no sampler data (size = 36 + 24*loops)", ok, "", inst="smpl-loops")
    lc = [c for c in own_nodes(sm) if isinstance(c, ast.Call) and isinstance(c.func, ast.Name) and c.func.id == "WavLoopContainer"]
    ok = len(lc) == 1
    if ok:
        kw = {k.arg: norm(k.value) for k in lc[0].keywords}
        ok = kw.get("start_byte") == "loop.start_sample" and kw.get("end_byte") == "loop.end_sample" and kw.get("play_cnt") == "play_cnt" and kw.get("loop_type") == "loop_type"
    ctx.ob("L7", lc[0] if lc else sm, "each loop header carries the loop's start/end sample and play count", ok, "", inst="loop-header")


# --------------------------------------------------------------------- L8 Roland
ROLAND_MODES = {
    # handler -> (end point attr, reversed?)
    "_get_forward_end_params": ("sustain_end", False), "_get_forward_release_params": ("release_end", False),
    "_get_oneshot_params": ("sustain_end", False), "_get_forward_oneshot_params": ("release_end", False),
    "_get_alternate_params": ("sustain_end", False), "_get_reverse_oneshot_params": ("sustain_end", True),
    "_get_reverse_loop_params": ("sustain_end", True),
}
MODE_HANDLER = {"FORWARD_END": "_get_forward_end_params", "FORWARD_RELEASE": "_get_forward_release_params", "ONESHOT": "_get_oneshot_params",
                "FORWARD_ONESHOT": "_get_forward_oneshot_params", "ALTERNATE": "_get_alternate_params",
                "REVERSE_ONESHOT": "_get_reverse_oneshot_params", "REVERSE_LOOP": "_get_reverse_loop_params"}


# loop regions handed to the WAV writer, per handler: (start, end) as (loop point, origin) differences, each clamped at 0
ROLAND_LOOPS = {
    "_get_forward_end_params": [("sustain_start - start", "sustain_end - start")],
    "_get_forward_release_params": [("sustain_start - start", "sustain_end - start"), ("release_start - start", "release_end - start")],
    "_get_oneshot_params": [],
    "_get_forward_oneshot_params": [("sustain_start - start", "sustain_end - start")],
    "_get_alternate_params": [("sustain_start - start", "sustain_end - start")],
    "_get_reverse_oneshot_params": [],
    "_get_reverse_loop_params": [("sustain_end - start", "sustain_end - sustain_start")],
}


def _roland_loops(ctx, sf):
    """every loop boundary is a difference of two stored loop points clamped at zero (a damaged record whose points are out of
    order yields an empty or shortened loop, not a negative sample number the smpl chunk cannot hold)"""
    from ..core.terms import _split_top, parse_key
    for h, want in ROLAND_LOOPS.items():
        fn = ctx.fn(sf, h, "L8r")
        pts = fn.args.args[1].arg
        sig = ("start_sample", "end_sample")
        for p in [p for p in run_paths(ctx, fn, rule="L8r") if p.end == "return"]:
            got = []
            okc = True
            for c, e, st in calls_on(p, name="LoopRegion"):
                from .util import call_parts
                fname, pos, kw = call_parts(evaluator(ctx, fn, e).ev(c).key())
                pair = []
                for i, nm in enumerate(sig):
                    v = pos[i] if i < len(pos) else kw.get(nm)
                    m = re.fullmatch(r"max\((.*)\)", v or "")
                    parts = _split_top(m.group(1), ",") if m else []
                    if len(parts) == 2 and "0" in parts:
                        parts.remove("0")
                        pair.append(parse_key(parts[0]))
                    else:
                        okc = False
                        pair.append(None)
                got.append(tuple(pair))
            wt = [tuple(parse_key(f"{pts}.{a.split(' - ')[0]}") - parse_key(f"{pts}.{a.split(' - ')[1]}") for a in w) for w in want]
            ok = okc and got == wt
            ctx.ob("L8r", fn, f"{h}: loop regions are the stored loop points relative to the window start, each clamped at 0", ok,
                   "" if ok else f"loop regions {[tuple(x.key() if x is not None else 'unclamped' for x in g) for g in got]}", inst=f"{h}:loops")


def rule_L8r(ctx):
    """Roland loop mode -> data window (offset = 2*start, size = 2*(END - start + 1)), reversed for the two reverse modes"""
    sf = RO + "sample_file.py"
    _roland_loops(ctx, sf)
    W = ctx.const(RO + "data_types.py", "ROLAND_SAMPLE_WIDTH", "L8r")
    for h, (endp, rev) in ROLAND_MODES.items():
        fn = ctx.fn(sf, h, "L8r")
        ps = [a.arg for a in fn.args.args]
        stream, pts = ps[0], ps[1]
        prs = [p for p in run_paths(ctx, fn, rule="L8r") if p.end == "return"]
        if not prs:
            raise AnalysisError("L8r", where(fn), "no return path")
        start = A(f"{pts}.start")
        want_size = (A(f"{pts}.{endp}") - start + C(1)).scale(W)
        want_off = start.scale(W)
        for p in prs:
            so = list(calls_on(p, name="StreamOffset"))
            ok = len(so) == 1
            det = ""
            if ok:
                ev = evaluator(ctx, fn, so[0][1])
                a = [ev.ev(x) for x in so[0][0].args]
                ok = len(a) == 3 and a[0] == A(stream) and a[1] == want_size and a[2] == want_off
                det = "" if ok else f"StreamOffset({', '.join(x.key() for x in a)}); expected ({stream}, {want_size.key()}, {want_off.key()})"
            ctx.ob("L8r", so[0][0] if so else fn, f"{h}: window = [{W}*start, {W}*({endp} - start + 1)) of the cluster-chain stream", ok, det, inst=f"{h}:window")
            sr = list(calls_on(p, name="StreamReversed"))
            if rev:
                ok = len(sr) == 1
                det = "no StreamReversed wrapper"
                if ok:
                    ev = evaluator(ctx, fn, sr[0][1])
                    c = sr[0][0]
                    a = [ev.ev(x) for x in c.args]
                    kw = {k.arg: ev.ev(k.value) for k in c.keywords}
                    sw = kw.get("sample_width", a[2] if len(a) > 2 else None)
                    inner_ok = isinstance(c.args[0], ast.Call) and c.args[0] is so[0][0] if so else False
                    ok = inner_ok and len(a) >= 2 and a[1] == want_size and sw == C(W)
                    det = "" if ok else f"StreamReversed size {a[1].key() if len(a) > 1 else '?'} / sample_width {sw.key() if sw is not None else '?'}"
                ctx.ob("L8r", sr[0][0] if sr else fn, f"{h}: the window is wrapped in StreamReversed(window, same size, sample_width={W})", ok, det, inst=f"{h}:reversed")
                okr = p.ret is not None and "StreamReversed(" in p.ret.key().split(",")[0]
            else:
                ok = len(sr) == 0
                ctx.ob("L8r", fn, f"{h}: forward mode is not reversed", ok, "", inst=f"{h}:not-reversed")
            # returned SampleParams carries that stream first
            rc = list(calls_on(p, name="SampleParams"))
            ok = len(rc) == 1 and norm(rc[0][0].args[0]) == "stream_result"
            ctx.ob("L8r", fn, f"{h}: returns the window as the sample's data stream", ok, "", inst=f"{h}:returns")
    # B5 handler map
    tg = ctx.fn(sf, "SampleFile.to_generalized", "L8r")
    # the mode -> handler table: the dict whose .get(self.loop_mode) / [self.loop_mode] selects the handler (a local or a module constant)
    sel = [c for c in own_nodes(tg) if isinstance(c, ast.Call) and isinstance(c.func, ast.Attribute) and c.func.attr == "get" and c.args and norm(c.args[0]) == "self.loop_mode"]
    sel += [c for c in own_nodes(tg) if isinstance(c, ast.Subscript) and norm(c.slice) == "self.loop_mode"]
    d = None
    map_name = None
    if len(sel) == 1:
        recv = sel[0].func.value if isinstance(sel[0], ast.Call) else sel[0].value
        if isinstance(recv, ast.Dict):
            d = recv
        elif isinstance(recv, ast.Name):
            map_name = recv.id
            loc = [n.value for n in own_nodes(tg) if isinstance(n, (ast.Assign, ast.AnnAssign)) and n.value is not None
                   and norm(n.targets[0] if isinstance(n, ast.Assign) else n.target) == recv.id]
            if len(loc) == 1 and isinstance(loc[0], ast.Dict):
                d = loc[0]
            elif not loc:
                b_ = tg._module.env.get(recv.id)
                if b_ and b_[0] == "assign" and isinstance(b_[1], ast.Dict):
                    d = b_[1]
    if d is None:
        raise AnalysisError("L8r", where(tg), "loop-mode handler table not found")
    got = {norm(k).split(".")[-1]: norm(v) for k, v in zip(d.keys, d.values)}
    members = ctx.folder.enum_members(ctx.prog.klass(RO + "data_types.py", "RolandLoopMode", "L8r"))
    for mname in members:
        ok = got.get(mname) == MODE_HANDLER.get(mname)
        ctx.ob("L8r", d, f"loop mode {mname} is handled by {MODE_HANDLER.get(mname)}", ok, f"mapped to {got.get(mname)}", inst=f"map:{mname}")
    ok = set(members) == set(MODE_HANDLER) and [members[m] for m in ("FORWARD_END", "FORWARD_RELEASE", "ONESHOT", "FORWARD_ONESHOT", "ALTERNATE", "REVERSE_ONESHOT", "REVERSE_LOOP")] == list(range(7))
    ctx.ob("L8r", d, "RolandLoopMode has exactly the seven documented members 0..6", ok, f"{members}", inst="modes")
    # points tuple and the use of the handler
    prs = [p for p in run_paths(ctx, tg, rule="L8r") if p.end == "return"]
    for p in prs:
        rp = list(calls_on(p, name="RolandLoopPoints"))
        ok = len(rp) == 1 and [norm(a) for a in rp[0][0].args] == ["self.start_sample.address", "self.sustain_loop_start.address", "self.sustain_loop_end.address",
                                                                   "self.release_loop_start.address", "self.release_loop_end.address"]
        ctx.ob("L8r", rp[0][0] if rp else tg, "loop points are the coarse addresses of start, sustain start/end, release start/end in that order", ok, "", inst="points")
        # the call whose callee is the selected table entry
        hc = []
        for c, e, st in calls_on(p):
            if isinstance(c.func, ast.Name) and c.func.id in e:
                k = e[c.func.id].key() if hasattr(e[c.func.id], "key") else ""
                if ".get(self.loop_mode" in k or (k.startswith("sub(") and k.endswith(",self.loop_mode)")):
                    hc.append((c, e))
            elif isinstance(c.func, (ast.Call, ast.Subscript)) and c.func in sel:
                hc.append((c, e))
        ok = len(hc) == 1 and len(sel) == 1
        ctx.ob("L8r", tg, "the handler is selected by the sample's own loop mode", ok, "", inst="select")
        ok = len(hc) == 1
        if ok:
            ev_ = evaluator(ctx, tg, hc[0][1])
            a_ = [ev_.ev(x).key() for x in hc[0][0].args]
            ok = len(a_) == 2 and a_[0] == "self._data_stream" and a_[1].startswith("RolandLoopPoints(")
        ctx.ob("L8r", tg, "the handler receives the sample's cluster-chain stream and the points", ok, "", inst="handler-args")
        smp = list(calls_on(p, name="Sample"))
        if smp:
            kw = {k.arg: norm(k.value) for k in smp[0][0].keywords}
            ok = kw.get("sample_rate") == "self.sampling_frequency" and kw.get("data_streams") == "data_streams" and kw.get("num_channels") == "1"
            ctx.ob("L8r", smp[0][0], "generalized sample: rate = sampling frequency, one mono stream", ok, f"{kw}", inst="Sample-kw")
        ds = list(calls_on(p, name="DataStream"))
        ok = len(ds) == 1 and {k.arg: norm(k.value) for k in ds[0][0].keywords}.get("stream") == "data_stream"
        ctx.ob("L8r", tg, "the exported stream is the handler's window", ok, "", inst="DataStream")
        se = list(calls_on(p, name="StreamEncoding"))
        if se:
            kw = {k.arg: norm(k.value) for k in se[0][0].keywords}
            ok = kw.get("endianess") == "Endianess.LITTLE" and kw.get("sample_width") == "self.bytes_per_sample" and kw.get("num_interleaved_channels") == "1"
            ctx.ob("L8r", se[0][0], "Roland samples are little-endian 16-bit mono", ok, f"{kw}", inst="encoding")
    bps = ctx.prog.class_assigned(sf, "SampleFile", "bytes_per_sample", "L8r")
    ctx.ob("L8r", bps, "SampleFile.bytes_per_sample = ROLAND_SAMPLE_WIDTH", norm(bps) == "ROLAND_SAMPLE_WIDTH", norm(bps), inst="bytes_per_sample", file=sf, qualname="SampleFile")


# --------------------------------------------------------------------- L8 AKAI
def rule_L8a(ctx):
    """AKAI sample to generalized sample: rate, width, stream"""
    fn = ctx.fn(AK + "sample.py", "AkaiSample.to_generalized", "L8a")
    prs = [p for p in run_paths(ctx, fn, rule="L8a", limit=4000) if p.end == "return"]
    if not prs:
        raise AnalysisError("L8a", where(fn), "no return path")
    p = prs[0]
    smp = list(calls_on(p, name="Sample"))
    ok = len(smp) == 1
    kw = {k.arg: norm(k.value) for k in smp[0][0].keywords} if ok else {}
    ok = ok and kw.get("sample_rate") == "self.sample_rate" and kw.get("num_channels") == "1" and kw.get("data_streams") == "data_streams" \
        and kw.get("midi_note") == "self.note_pitch" and kw.get("pitch_offset_semi") == "self.pitch_semi" and kw.get("pitch_offset_cents") == "self.pitch_cents"
    ctx.ob("L8a", smp[0][0] if smp else fn, "generalized AKAI sample: header rate, mono, root note and tuning from the header", ok, f"{kw}", inst="Sample-kw")
    ds = list(calls_on(p, name="DataStream"))
    ok = len(ds) == 1 and {k.arg: norm(k.value) for k in ds[0][0].keywords}.get("stream") == "self._data_stream"
    ctx.ob("L8a", fn, "the exported stream is the header's data window", ok, "", inst="DataStream")
    se = list(calls_on(p, name="StreamEncoding"))
    kw = {k.arg: norm(k.value) for k in se[0][0].keywords} if se else {}
    ok = kw.get("endianess") == "Endianess.LITTLE" and kw.get("sample_width") == "self.bytes_per_sample" and kw.get("num_interleaved_channels") == "1"
    ctx.ob("L8a", fn, "AKAI samples are little-endian mono with the header's word size", ok, f"{kw}", inst="encoding")
    w = ctx.const(AK + "data_types.py", "AKAI_SAMPLE_WORDLENGTH", "L8a")
    ctx.ob("L8a", fn, "AKAI_SAMPLE_WORDLENGTH = 2 (16-bit words)", w == 2, f"{w}", inst="wordlength")
    # file type switch (B6)
    fc = ctx.prog.assigned(AK + "file.py", "FileConstruct", "L8a")
    d = [n for n in ast.walk(fc) if isinstance(n, ast.Dict)]
    got = {norm(k).split(".")[-1]: norm(v) for k, v in zip(d[0].keys, d[0].values)} if d else {}
    want = {"SAMPLE_S1000": "SampleAdapter(SampleHeaderConstruct)", "SAMPLE_S3000": "SampleAdapter(SampleHeaderConstruct)",
            "PROGRAM_S1000": "ProgramParser", "PROGRAM_S3000": "ProgramParser"}
    for k, v in want.items():
        ctx.ob("L8a", fc, f"file type {k} is parsed by {v}", got.get(k) == v, f"mapped to {got.get(k)}", inst=f"FileConstruct:{k}", file=AK + "file.py", qualname="<module>")
    ok = norm(fc.args[0]) == "this.file_type" if isinstance(fc, ast.Call) and fc.args else False
    ctx.ob("L8a", fc, "the parser is selected by the entry's file type", ok, "", inst="FileConstruct:key", file=AK + "file.py", qualname="<module>")
    ft = ctx.folder.enum_members(ctx.prog.klass(AK + "data_types.py", "FileType", "L8a"))
    ok = ft.get("SAMPLE_S1000") == 0x73 and ft.get("SAMPLE_S3000") == 0xf3 and ft.get("PROGRAM_S1000") == 0x70 and ft.get("PROGRAM_S3000") == 0xf0
    ctx.ob("L8a", fc, "file type bytes: 0x73/0xf3 samples, 0x70/0xf0 programs", ok, f"{ft}", inst="FileType-values", file=AK + "data_types.py", qualname="FileType")


# --------------------------------------------------------------------- L8 CDDA
def rule_L8c(ctx):
    """CDDA: MSF polynomial, frame size, per-track windows tile the bin, last track to EOF"""
    cs = "smpl_extract/cuesheet.py"
    gf = ctx.fn(cs, "CueSheetIndex.get_total_audio_frames", "L8c")
    prs = [p for p in run_paths(ctx, gf, rule="L8c") if p.end == "return"]
    want = A("self.n_minutes").scale(4500) + A("self.n_seconds").scale(75) + A("self.n_frames")
    ok = bool(prs) and all(p.ret == want for p in prs)
    ctx.ob("L8c", gf, "index time -> sectors: (minutes*60 + seconds)*75 + frames", ok, "" if ok else f"returns {[p.ret.key() if p.ret else None for p in prs]}", inst="msf")
    im = "smpl_extract/cdda/image.py"
    for k, v in (("BYTES_PER_FRAME", 2352), ("SAMPLES_PER_FRAME", 588), ("SAMPLE_WIDTH", 2), ("N_CHANNELS", 2), ("SAMPLING_RATE", 44100)):
        got = ctx.const(im, k, "L8c")
        ctx.ob("L8c", ctx.prog.assigned(im, k), f"{k} = {v}", got == v, f"{got}", inst=k, file=im, qualname="<module>")
    fn = ctx.fn(im, "CompactDiskAudioImageAdapter.from_bin_cue", "L8c")
    prs = [p for p in run_paths(ctx, fn, rule="L8c", limit=4000, include_exc=True) if p.end == "return"]
    if not prs:
        raise AnalysisError("L8c", where(fn), "no return path")
    seen_mid = seen_last = 0
    inst_done = set()
    whiles = [n for n in own_nodes(fn) if isinstance(n, (ast.While, ast.For))
              and any(isinstance(c, ast.Call) and norm(c.func) == "StreamOffset" for c in ast.walk(n))]
    loop = whiles[0] if whiles else None

    def frames_atom(t):
        if len(t.p) == 1:
            (mono, coef), = t.p.items()
            if coef == 2352 and len(mono) == 1 and mono[0].endswith(".get_total_audio_frames()"):
                return mono[0]
        return None

    sites = []  # (call, env, in_loop)
    for p in prs:
        for call, env, st in calls_on(p, name="StreamOffset"):
            if loop is None or not any(n is call for n in ast.walk(loop)):
                sites.append((call, env, False))
    if loop is not None:
        from .streams import _walk
        from ..core.symexec import PathResult
        cfg0 = ctx.cfg(fn, "L8c")
        lp0 = cfg0.loop_of(loop)
        for kind, path, edge in cfg0.iteration_paths(lp0):
            pr = _walk(ctx, fn, cfg0, path)
            for call, env, st in calls_on(pr, name="StreamOffset"):
                sites.append((call, env, True))
    for call, env, in_loop in sites:
        ev = evaluator(ctx, fn, env)
        a = [ev.ev(x) for x in call.args]
        if len(a) != 3:
            continue
        size, off = a[1], a[2]
        key = ("mid" if in_loop else "last", size.key(), off.key())
        if key in inst_done:
            continue
        inst_done.add(key)
        fa = frames_atom(off)
        ok = a[0] == A("bin_file_stream") and fa is not None and "sub(cur_cue_track" in fa and fa.count(".indices,0)") == 1
        ctx.ob("L8c", call, "track window starts at 2352 * (first index of the current track)", ok,
               "" if ok else f"offset {off.key()}", inst=f"{key[0]}:offset")
        if in_loop:
            seen_mid += 1
            d = size + off
            fb = frames_atom(d)
            ok = fb is not None and fb.startswith(("(sub(next_cue_track", "(sub(next(cue_track_iter)")) and fb.count(".indices,0)") == 1
            ctx.ob("L8c", call, "offset + size of a track = 2352 * (first index of the next track): no gap, no overlap", ok,
                   "" if ok else f"offset + size = {d.key()}", inst="mid:tiling")
        else:
            seen_last += 1
            d = size + off
            ok = d == A("bin_file_stream.tell()")
            ctx.ob("L8c", call, "the last track runs to the end of the bin file (size = end_of_file - offset)", ok,
                   "" if ok else f"offset + size = {d.key()}", inst="last:to-eof")
    if seen_mid == 0 or seen_last == 0:
        raise AnalysisError("L8c", where(fn), "track windows not found on any path")
    # end_of_file measured by seek(0, END); tell()
    seeks = sorted([c for c in own_nodes(fn) if isinstance(c, ast.Call) and dotted(c.func) == "bin_file_stream.seek"], key=lambda c: c.lineno)
    tells = sorted([n for n in own_nodes(fn) if isinstance(n, ast.Assign) and norm(n.value) == "bin_file_stream.tell()"], key=lambda c: c.lineno)
    ok = len(seeks) >= 1 and len(tells) == 1 and seeks[0].lineno < tells[0].lineno and (len(seeks) < 2 or seeks[1].lineno > tells[0].lineno) and [norm(a) for a in seeks[0].args] == ["0", "SEEK_END"]
    ctx.ob("L8c", fn, "end_of_file is the position after seeking to the end of the bin", ok, "", inst="eof-measure")
    # the walk: the emitted track is the current one and cur advances to next when a track is emitted
    cfg = ctx.cfg(fn, "L8c")
    if loop is not None:
        lp = cfg.loop_of(loop)
        from .streams import _walk
        for kind, path, edge in cfg.iteration_paths(lp):
            if kind != "back":
                continue
            pr = _walk(ctx, fn, cfg, path)
            emitted = any(s.kind == "stmt" and "audio_tracks.append" in norm(s.ast) for s in pr.steps)
            adv = pr.env.get("cur_cue_track")
            ok = (not emitted) or (adv is not None and adv.key() in ("next_cue_track~", "next(cue_track_iter)", "next_cue_track"))
            ctx.ob("L8c", loop, "after emitting a track the walk continues from the next track", ok, "" if ok else f"cur_cue_track becomes {adv}", inst=f"advance:{emitted}")
    # only audio tracks, in cue order
    lc = [n for n in own_nodes(fn) if isinstance(n, ast.ListComp) and "cue_file.tracks" in norm(n)]
    ok = len(lc) == 1 and norm(lc[0].generators[0].ifs[0]) == "x.mode.lower() == 'audio'" and norm(lc[0].elt) == "x"
    ctx.ob("L8c", lc[0] if lc else fn, "tracks are taken from the cue sheet in order, audio only", ok, "", inst="track-list")
    # AudioTrack sample count and to_generalized
    at = ctx.fn(im, "AudioTrack.to_generalized", "L8c")
    p = [p for p in run_paths(ctx, at, rule="L8c") if p.end == "return"][0]
    se = list(calls_on(p, name="StreamEncoding"))
    kw = {k.arg: norm(k.value) for k in se[0][0].keywords} if se else {}
    ok = kw.get("endianess") == "Endianess.LITTLE" and kw.get("sample_width") == "self.bytes_per_sample" and kw.get("num_interleaved_channels") == "2"
    ctx.ob("L8c", at, "CDDA audio is little-endian 16-bit interleaved stereo", ok, f"{kw}", inst="encoding")
    smp = list(calls_on(p, name="Sample"))
    kw = {k.arg: norm(k.value) for k in smp[0][0].keywords} if smp else {}
    ok = kw.get("sample_rate") == "self.sample_rate" and kw.get("num_channels") == "2" and kw.get("data_streams") == "data_streams"
    ctx.ob("L8c", at, "CDDA track exports as 2 channels at the track's rate", ok, f"{kw}", inst="Sample-kw")
    atc = ctx.prog.klass(im, "AudioTrack", "L8c")
    dfl = {f[0]: (norm(f[2]) if f[2] is not None else None) for f in ctx.prog.dataclass_fields(atc)}
    dfv = {}
    for f in ctx.prog.dataclass_fields(atc):
        if f[2] is not None and f[0] in ("sample_rate", "bytes_per_sample", "num_channels"):
            try:
                dfv[f[0]] = ctx.folder.ev(f[2], ctx.prog.by_path[im])  # literal or a module constant
            except Exception:
                dfv[f[0]] = None
    ok = dfv.get("sample_rate") == 44100 and dfv.get("bytes_per_sample") == 2 and dfv.get("num_channels") == 2 \
        and not any(isinstance(v_, bool) for v_ in dfv.values())
    ctx.ob("L8c", atc, "AudioTrack defaults: 44100 Hz, 2 bytes, 2 channels", ok, f"{dfl}", inst="AudioTrack-defaults")


def rule_L6e(ctx):
    """the loop-entry part of L6 (C05): an AKAI loop entry decodes to a start that is never negative - a negative loop start makes the
    WAV build of that sample fail and the export of the directory stop there"""
    before = len(ctx.obs)
    rule_L6(ctx)
    keep = [o for o in ctx.obs[before:] if o.inst.startswith("LoopEntry.")]
    for o in keep:
        o.rule = "L6e"
    ctx.obs[before:] = keep


# ------------------------------------------------------------------------ L9
def rule_L9(ctx):
    """the AKAI file table is scanned over the whole directory stream: the number of entries looked at is the stream's own
    length divided by the entry size (a directory may span several sectors; 341 entries fit in one)"""
    fn = ctx.fn(AK + "file_entry.py", "FileEntriesAdapter._parse", "L9")
    st = fn.args.args[1].arg
    loops = [f for f in own_nodes(fn) if isinstance(f, (ast.For, ast.While)) and any(isinstance(c, ast.Call) and norm(c.func).endswith("parse_stream") for c in ast.walk(f))]
    if len(loops) != 1:
        raise AnalysisError("L9", where(fn), f"file table loop not found ({len(loops)} candidates)")
    lp_ = loops[0]
    B = (f"floordiv({st}.tell(),self.subcon.sizeof())", f"floordiv({st}.tell(),(self.subcon).sizeof())")
    ok, det, n = True, "", 0
    for p in run_paths(ctx, fn, rule="L9", limit=6000):
        heads = [s_ for s_ in p.steps if s_.kind in ("for", "test") and s_.ast is lp_]
        if not heads:
            continue
        n += 1
        ev_h = evaluator(ctx, fn, heads[0].env)
        if isinstance(lp_, ast.For):
            it = ev_h.ev(lp_.iter).key()
            good_it = it in tuple(f"range({b_})" for b_ in B)
        else:
            # while counter < B and ...: counter starts at 0 and is advanced by one per entry
            from ..core.terms import cmp_struct as _cs
            from .termination import guard_atoms as _ga
            it, good_it = norm(lp_.test), False
            for a_ in _ga(lp_.test):
                if isinstance(a_, ast.Compare) and len(a_.ops) == 1 and isinstance(a_.ops[0], ast.Lt) and isinstance(a_.left, ast.Name) and ev_h.ev(a_.comparators[0]).key() in B:
                    cn_ = a_.left.id
                    init = [x for x in fn.body if isinstance(x, ast.Assign) and norm(x.targets[0]) == cn_]
                    steps_ = [x for x in ast.walk(lp_) if isinstance(x, ast.AugAssign) and norm(x.target) == cn_]
                    good_it = len(init) == 1 and norm(init[0].value) == "0" and len(steps_) == 1 and isinstance(steps_[0].op, ast.Add) and norm(steps_[0].value) == "1" \
                        and steps_[0] in lp_.body
        seq = []
        for c, e, s2 in calls_on(p):
            k = evaluator(ctx, fn, e).ev(c).key()
            if k in (f"{st}.seek(0,SEEK_END)", f"{st}.seek(0,2)", f"{st}.tell()", f"{st}.seek(0,SEEK_SET)", f"{st}.seek(0,0)", f"{st}.seek(0)"):
                seq.append(k)
            if any(c is x for x in ast.walk(lp_)):
                break
        good_seq = len(seq) >= 3 and seq[0] in (f"{st}.seek(0,SEEK_END)", f"{st}.seek(0,2)") and seq[1] == f"{st}.tell()" and seq[2] in (f"{st}.seek(0,SEEK_SET)", f"{st}.seek(0,0)", f"{st}.seek(0)")
        if not (good_it and good_seq):
            ok, det = False, f"the table loop runs over `{it}` after {seq[:3]}"
    ctx.ob("L9", loops[0], "the file table is scanned up to the length of the directory stream (stream end // entry size), from its start", ok and n >= 1, det, inst="table-extent")
