"""Property -> rules mapping, floors, level texts."""
from .rules import termination, streams, decoders, layouts, flow, names, pairing, tables, cue, isolation, filters

RULES = {}
FLOORS = {}


def reg(rid, fn, floor=1):
    RULES[rid] = fn
    FLOORS[rid] = floor


reg("T1", termination.rule_T1, 14)
reg("T2", termination.rule_T2, 20)
reg("T3", termination.rule_T3, 4)
reg("T4", termination.rule_T4, 4)

for _i, _f in enumerate(("S1", "S2", "S3", "S4", "S5", "S6", "S7", "S8", "S9"), 1):
    reg(_f, getattr(streams, "rule_" + _f), 2)

for _f in ("D1", "D2", "D3", "D4", "D1a", "D1r", "D3a", "D3r"):
    reg(_f, getattr(decoders, "rule_" + _f), 1)

reg("L1a", layouts.rule_L1_akai_export, 40)
reg("L1i", layouts.rule_L1_akai_info, 100)
reg("L1r", layouts.rule_L1_roland, 200)
reg("L1ri", layouts.rule_L1_roland_info, 30)
reg("L1w", layouts.rule_L1_wav, 30)
reg("L1c", layouts.rule_L1_containers, 15)
reg("L1t", layouts.rule_L1_tables, 30)
reg("L2", layouts.rule_L2, 20)
reg("L4", layouts.rule_L4, 20)
reg("L5", layouts.rule_L5, 25)

reg("L6", flow.rule_L6, 30)
reg("L7", flow.rule_L7, 10)
reg("L8r", flow.rule_L8r, 30)
reg("L8a", flow.rule_L8a, 8)
reg("L8c", flow.rule_L8c, 10)

for _f, _n in (("N1", 10), ("N2", 10), ("N3", 10), ("N4", 10), ("N5", 8), ("N6", 6), ("N7", 6), ("N8", 8)):
    reg(_f, getattr(names, "rule_" + _f), _n)

for _f, _n in (("P1", 10), ("P2", 6), ("P3", 4), ("P4", 8), ("P5", 15), ("P6", 8), ("P7", 12)):
    reg(_f, getattr(pairing, "rule_" + _f), _n)

for _f, _n in (("B1", 25), ("B2", 20), ("B3", 5)):
    reg(_f, getattr(tables, "rule_" + _f), _n)

for _f, _n in (("Q1", 20), ("Q2", 12), ("Q3", 4), ("Q4", 3), ("C1", 15), ("C2", 5)):
    reg(_f, getattr(cue, "rule_" + _f), _n)

for _f, _n in (("I1", 12), ("I2", 6), ("I3", 3), ("O1", 6), ("R1", 1)):
    reg(_f, getattr(isolation, "rule_" + _f), _n)

for _f, _n in (("F1", 3), ("F2", 3), ("F3", 3), ("F4", 2), ("F5", 10), ("F6", 15)):
    reg(_f, getattr(filters, "rule_" + _f), _n)

COMMON_ASSUMPTIONS = [
    "static analysis of /repo's source only: the package is never imported or executed by the check",
    "the `construct` and `numpy` libraries behave as documented (Pointer seeks absolutely, Prefixed back-patches its length, Struct parses fields in order)",
    "a discharged obligation is a structural necessary condition of the property; the behaviour itself (byte equality, equality over histories/schedules, numerical results) is NOT established",
]

def _p(rules, explanation, extra_assumptions=()):
    return {"rules": rules, "explanation": explanation, "assumptions": COMMON_ASSUMPTIONS + list(extra_assumptions)}


PROPS = {
    "C01": _p(["L1a", "L2", "L8a", "S1", "S3", "S4", "D1a", "D2", "D3a", "D4", "L7", "P7", "N1"], "tmp"),
    "C02": _p(["L1r", "L2", "L4", "L5", "L8r", "D1r", "D2", "D3r", "D4", "S3", "S7", "T1", "O1", "N1"], "tmp"),
    "C03": _p(["L8c", "T1", "P5", "C2", "Q4", "Q2"], "tmp"),
    "C04": _p(["L1w", "L2", "L7", "P5"], "tmp"),
    "C05": _p(["P1", "P2", "P3", "P6", "P5", "P7", "N3", "N7"], "tmp"),
    "C06": _p(["N1", "N2", "N3", "N4", "N5", "N7", "P1", "T1"], "tmp"),
    "C07": _p(["S1", "S2", "S3", "T1", "D1", "D2", "D3", "D4"], "tmp"),
    "C08": _p(["S5", "S7", "S3", "S4", "S6"], "tmp"),
    "C09": _p(["C1", "C2", "S8", "S3", "L1c", "L2", "Q3"], "tmp"),
    "C10": _p(["N6", "N1", "N2", "N4", "N7", "N8", "T1"], "tmp"),
    "C11": _p(["S6", "S5", "S8"], "tmp"),
    "C12": _p(["P4", "P5", "P6"], "tmp"),
    "C13": _p(["T1", "T2", "T3", "T4"], "tmp"),
    "C14": _p(["I1", "L1t", "L4", "L2", "S1", "S2"], "tmp"),
    "C15": _p(["S4", "S9", "T1", "L1w", "I1", "P5"], "tmp"),
    "C16": _p(["I2", "I3", "R1", "N2", "N7", "S6", "S8", "N5"], "tmp"),
    "C17": _p(["Q1", "Q2", "Q3", "Q4", "T1"], "tmp"),
    "C18": _p(["B1", "B2", "B3"], "tmp"),
    "C19": _p(["F1", "F2", "F3", "F4", "F5", "F6"], "tmp"),
    "C20": _p(["L1i", "L1ri", "L2", "L6", "T4"], "tmp"),
}
