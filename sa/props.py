"""Property -> rules mapping, floors, level texts."""
from .rules import termination, streams, decoders, layouts, flow, names, pairing, tables, cue, isolation, filters

RULES = {}
FLOORS = {}


def reg(rid, fn, floor=1):
    RULES[rid] = fn
    FLOORS[rid] = floor


reg("T1", termination.rule_T1, 8)
reg("T2", termination.rule_T2, 20)
reg("T3", termination.rule_T3, 4)
reg("T4", termination.rule_T4, 4)
reg("T6", termination.rule_T6, 2)
reg("T5", termination.rule_T5, 12)

for _i, _f in enumerate(("S1", "S2", "S3", "S4", "S5", "S6", "S7", "S8", "S9"), 1):
    reg(_f, getattr(streams, "rule_" + _f), 2)
reg("S4p", streams.rule_S4p, 2)
reg("S10", streams.rule_S10, 2)
reg("S5z", streams.rule_S5z, 2)

for _f in ("D1", "D2", "D3", "D4", "D1a", "D1r", "D3a", "D3r"):
    reg(_f, getattr(decoders, "rule_" + _f), 1)

reg("L1a", layouts.rule_L1_akai_export, 40)
reg("L1i", layouts.rule_L1_akai_info, 100)
reg("L1r", layouts.rule_L1_roland, 200)
reg("L1ri", layouts.rule_L1_roland_info, 30)
reg("L1w", layouts.rule_L1_wav, 30)
reg("L1c", layouts.rule_L1_containers, 15)
reg("L1t", layouts.rule_L1_tables, 30)
reg("L2", layouts.rule_L2, 20)
reg("L4", layouts.rule_L4, 20)
reg("L5", layouts.rule_L5, 25)

reg("L6", flow.rule_L6, 30)
reg("L7", flow.rule_L7, 10)
reg("L8r", flow.rule_L8r, 30)
reg("L8a", flow.rule_L8a, 8)
reg("L8c", flow.rule_L8c, 10)
reg("L9", flow.rule_L9, 1)
reg("L6e", flow.rule_L6e, 3)

for _f, _n in (("N1", 10), ("N2", 10), ("N3", 10), ("N4", 10), ("N5", 8), ("N6", 6), ("N7", 6), ("N8", 8), ("N9", 20), ("N10", 2), ("N11", 2), ("N12", 1), ("N4i", 2), ("X1", 10)):
    reg(_f, getattr(names, "rule_" + _f), _n)

for _f, _n in (("P1", 10), ("P2", 6), ("P3", 4), ("P4", 8), ("P5", 15), ("P6", 8), ("P7", 12), ("P8", 2), ("P9", 1)):
    reg(_f, getattr(pairing, "rule_" + _f), _n)

for _f, _n in (("B1", 25), ("B1d", 15), ("B2", 20), ("B3", 5)):
    reg(_f, getattr(tables, "rule_" + _f), _n)

for _f, _n in (("Q1", 20), ("Q2", 12), ("Q3", 4), ("Q4", 2), ("Q5", 1), ("C1", 15), ("C2", 5)):
    reg(_f, getattr(cue, "rule_" + _f), _n)

for _f, _n in (("I1", 10), ("I2", 6), ("I3", 3), ("I4", 5), ("I5", 6), ("I6", 60), ("I7", 1), ("I8", 1), ("I9", 1), ("I10", 1), ("I11", 4), ("I12", 6), ("I13", 1), ("I14", 1), ("I15", 1), ("O1", 6), ("R1", 1)):
    reg(_f, getattr(isolation, "rule_" + _f), _n)

for _f, _n in (("F1", 3), ("F2", 3), ("F3", 3), ("F4", 2), ("F5", 10), ("F6", 15)):
    reg(_f, getattr(filters, "rule_" + _f), _n)

COMMON_ASSUMPTIONS = [
    "static analysis of /repo's source only: the package is never imported or executed by the check",
    "the `construct` and `numpy` libraries behave as documented (Pointer seeks absolutely, Prefixed back-patches its length, Struct parses fields in order)",
    "a discharged obligation is a structural necessary condition of the property; the behaviour itself (byte equality, equality over histories/schedules, numerical results) is NOT established",
]

def _p(rules, explanation, extra_assumptions=()):
    return {"rules": rules, "explanation": explanation, "assumptions": COMMON_ASSUMPTIONS + list(extra_assumptions)}


NOT = " NOT decided (runtime remainder): "

PROPS = {
    "C01": _p(["L1a", "L2", "L8a", "S1", "S3", "S4p", "D1a", "D2", "D3a", "D4", "L7", "P7", "N1", "N9", "N5", "S5", "R1", "I6", "L9", "P1", "P2", "B1d", "P3"],
              "Structural necessary conditions of byte-exact AKAI export: evaluated construct layouts of partition/volume/file-entry/sample-header "
              "(offset, width, sign, endianness, data-window terms offset = header_end + 2*play_start, size = 2*(play_end - play_start)) equal the reviewed "
              "reference (L1a, L2); both sample type bytes reach the sample parser (L8a); chain walk shape (S1), address maps (S3), multi-sector split "
              "accounting (S4p: all of S4 except the empty-request guard, which since the G13 repair no longer affects an export), clip/advance of reads (S5); SAT decoder exits install their links and only at END "
              "words (D1, D3) with the documented flag values (D2); segment/file streams built from get_path (D4); export walk hands every sample over once and "
              "writes one truncated 'wb' file per `Exported` line with the header's rate (P7, L7); streams rewound before export (R1); the shared construct "
              "objects keep no per-partition state (I6: the allocation table of partition A is never reused for partition B); the file table of a volume is "
              "scanned over the whole directory stream (L9). A left/right pair is merged with the L sample first whatever the directory order (P1, P2); every stored AKAI name byte 0..40 decodes, so no file is dropped for its name (B1d: tables and fast decoder)."
              "" + NOT +
              "byte equality of outputs; that the decoded SAT equals the intended allocation for every table; directory reserved-run handling beyond D1/D3. "
              "Known finding G7 (head-not-lowest chains are truncated) is reported as KNOWN-FINDING.",
              ["the reviewed layout reference (sa/reference/layouts.json) matches the AKAI S1000/S3000 format as documented (140-byte sample header, 150-byte keygroup)"]),
    "C02": _p(["L1r", "L2", "L4", "L5", "L8r", "D1r", "D2", "D3r", "D4", "S3", "S7", "T1", "O1", "I5", "N1", "N9", "S4p", "S5", "I6", "N5"],
              "Structural necessary conditions of byte-exact Roland export: record addressing terms ENTRY_SIZE*index + AREA_OFFSET per kind/area with MAX_NUM bounds "
              "(L4), contiguous area geometry (L5), struct sizes = the repository's constants (L2), full evaluated layout of the image struct against the reviewed "
              "reference (L1r); loop mode -> window [2*start, 2*(END-start+1)) with END per mode and StreamReversed for exactly the two reverse modes, handler map total "
              "over the 7 modes (L8r, S7); cluster_top slicing and fat_entry chain (D4); FAT decoder terminates, installs links only at END words, raises only for "
              "malformed tables (T1, D1, D3, D2); per-performance collection loops and orphan detection over DISTINCT referenced performances (O1); routines at every "
              "level (N1); shared construct objects keep no per-parse state (I6). The orphan scan reads all MAX_NUM_PERFORMANCE directory slots (O1 extent)."
              "" + NOT + "byte equality; np.isin orphan mask semantics; FAT version handling of directory links."),
    "C03": _p(["L8c", "T1", "P5", "C2", "Q4", "Q2", "Q1", "R1", "P8", "Q5", "N5"],
              "Decides the CDDA window clauses as E-AFF terms: MSF polynomial 4500m+75s+f, 2352-byte sectors, per-track offset = 2352*first_index(cur) and "
              "offset+size = 2352*first_index(next) (tiling identity: no gap, no overlap), last track to end_of_file, first INDEX used, walk advances with each emitted "
              "track (L8c, T1-ITERATOR); all-audio cue -> CDDA (C2, Q4); whole-frame truncation with the stream's own frame size (P5); cue field extraction (Q1, Q2); every source stream is rewound before the "
              "pass-through / pipeline choice, so a track is copied from its own start (R1); the sample routine a CDDA image resolves to through its class "
              "hierarchy is a pass-through - one WAV per track, no L/R merging (P8). The cue text handed to the parser is the whole file (Q5)."
              "" + NOT +
              "tracks without INDEX lines; equality of bytes."),
    "C04": _p(["L1w", "L2", "L7", "P5", "P6", "L8c", "P7", "P3"],
              "Decides the RIFF structure clauses: evaluated layouts of RiffStruct / chunk / fmt (16 bytes) / smpl (36 + 24*loops) / loop (24) incl. Prefixed(Int32ul) nesting, "
              "little-endian chunk ids, Rebuild terms byte_rate = rate*channels*bits//8 and block_align = channels*bits//8, loop count = len(loops) (L1w, L2); chunk append order "
              "fmt,[smpl],data; fmt values; destination encoding; output opened with builtin open(path,'wb') (L7); every data block trimmed to whole frames of that stream (P5); the frame size used for that trim is the one of the "
              "encoding the stream is constructed with (L8c: CDDA tracks are 2 x 2 bytes) and interleaving pads all channels to one length before emitting frames (P6); a merged stereo sample carries its members' own stream objects - with the "
              "encodings they were built with - and a channel count equal to their number, which is what the fmt chunk's bits per sample and block align are computed from (P3)." + NOT +
              "that construct's Prefixed computes sizes correctly; smpl field value ranges; samples whose export raises."),
    "C05": _p(["P1", "P8", "P2", "P3", "P6", "P5", "P7", "N3", "N7", "R1", "N5", "S9", "I1", "B1d", "L6e", "O1"],
              "Decides the pairing clauses: marks and index keyed by export name only, every iteration path emits exactly one sample or skips a consumed one, partner marked iff "
              "combined (P1); by case analysis over the regex group (L|R) the first combine_stereo argument is always the L sample, partner name = stem+separator+other suffix, "
              "merged name = stem (P2); left streams then right streams, channel count = number of streams (P3); frame-major interleave / de-interleave idioms and end-padding (P6); "
              "end-of-data only on an empty trimmed block (P5); per-level hand-over exactly once (P7); names forwarded to the generalized sample (N3, N7); an unreadable tail of either member of a "
              "pair ends that sample's data instead of aborting the export of the remaining samples (S9). An unreadable sibling entry adds nothing and displaces nothing in the volume list (I1). "
              "For Roland directories the samples handed to the pairing routine are every sample of every partial, each once, and no sample ends the collection early (O1): "
              "without that the channels of the written files cannot add up to the number of samples."
              "" + NOT +
              "which name multisets collide after renaming; unequal-length pairs."),
    "C06": _p(["N1", "N2", "N3", "N4", "N5", "N7", "N9", "P1", "P8", "T1", "I14", "P9", "P3"],
              "Decides confinement and character clauses: every directory class runs the naming routines on the children it hands out (N1) and receives them from its parent (N2); "
              "abstract string domain over the regex ASTs proves export names non-empty, alphabet within {word, space, - . #} (+ parentheses from counters), first character a word "
              "character, no trailing blank, directories not ending in '.' (N4); paths are built from export names only, joined under the destination, single write site (N5); "
              "each element gets exactly one name recomputed from the raw name (N7); pairing marks keyed by export names (P1); counter loop bounded (T1). A merged stereo sample keeps every field of its left member, among them the parent and path that place its file inside its directory (P3 copy-left)." + NOT +
              "UNIQUENESS of paths within a run (depends on the whole sibling multiset; unclaimed clause)."),
    "C07": _p(["S1", "S2", "S3", "S4p", "T1", "D1", "D2", "D3", "D4", "L1r", "I6", "S6"],
              "Decides chain-resolution clauses: get_path appends the cursor before advancing to table[cursor].next, leaves exactly at .end, range test `>= len(table)` dominates the "
              "access, bounded counter advances on every back-edge path (S1, T1-COUNTER); out-of-range link stores raise InvalidFatDefinition (S2); concatenation addressing (S3); both "
              "decoders terminate on every table by the VISITED-WALK variant (T1), install links on every exit that is not justified by a malformed-table atom (D1) and only at END words "
              "/ directory-run ends (D3), with the documented constants (D2); the Roland cluster stream the chains are read from has the recorded offset / size "
              "terms (L1r); a read spanning several sectors of the list takes them in list order, each exactly once (S4p); the table a file is "
              "resolved in is the one of its own partition - shared construct objects keep no table from an earlier parse (I6); every piece of a sector is read right after an absolute seek of the shared parent stream to "
              "that sector's address, so that two files read in turn over the same partition stream each get their own sectors (S6)." + NOT + "the exhaustive table x start enumeration; the AKAI reserved-run rule beyond D1/D3. Known finding G7."),
    "C08": _p(["S5", "S7", "S3", "S4", "S6", "L2", "D4", "S10"],
              "Obligations on the 2 base methods and 9 override methods implementing every view kind: read amount = min(end-position, size) (0 if negative), position advances by exactly "
              "that amount, seek = clamp(base(whence)+offset, 0, end), no subclass overrides read/seek/tell/readall (S5); window and reversed translations incl. alignment errors and the "
              "reshape/flip idiom (S7); address maps as affine terms on every path (S3); split accounting, first/middle/last piece indices, zero-size guard, length check (S4); re-sync "
              "before every underlying read (S6); container windows: MDX offset = sizeof(header), size = eof - offset; MDF geometry (L2). A chained file view is always built over get_path's list, in chain order (D4)."
              "" + NOT + "equality with a reference model over operation histories; empty views; short reads of the underlying file."),
    "C09": _p(["C1", "C2", "S8", "S3", "S4p", "L1c", "L2", "Q3", "Q2", "Q1", "S5", "S10", "I9"],
              "Decides: detection cascade order and the stream each probe/parser receives (C1); data-track existential and CDDA branch (C2); every probe restores the borrowed stream's "
              "position on every normal exit (S8); MDF geometry 2352 = 16+2048+288, size = (n // 2352) * 2048 (S3); MDX window offset = sizeof(header), size = eof - offset; container "
              "header layouts (L1c, L2); ASCII probe and fallbacks (Q3); the 2048-byte user-data view reads through the same multi-sector split as every "
              "other sector stream (S4p); the FILE line of a cue sheet is recognised whatever the quoted name contains (Q1)." + NOT + "equality of ls/export across the five encodings."),
    "C10": _p(["N6", "N1", "N2", "N4", "N7", "N8", "X1", "T1", "N10", "N11", "I1", "N12"],
              "Decides: listing shows safe_name of every child and lookup compares the same attribute through the same normaliser (N6); safe names exist and are de-duplicated at every "
              "level (N1, N2, N7) and are blank-stripped (N4); every lookup failure inside parse_path is converted to ErrorInvalidPath, ls prints it and returns; whole path stripped, "
              "split on / and \\, trailing empty token dropped (N8); tokeniser loop terminates (T1). Every child of a volume is an element: an entry that cannot be realised contributes nothing (I1)."
              "" + NOT +
              "that normalisation after de-duplication cannot merge two names (case/blank variants); blank names; error-free rendering of every item."),
    "C11": _p(["S6", "S5", "S8", "L1a", "L1r", "D4", "S1", "I6", "I9", "I2", "R1"],
              "Decides: every site that reads an underlying stream (StreamWrapper.read, SectorStream._read_sector, StreamReversed via read) re-establishes that stream's cursor from its own "
              "state on every path - tell/compare/_seek(position) or absolute seek to the sector address immediately before the read; raw readers are called only from those layers (S6); "
              "no subclass bypasses read (S5); parse-time probes restore positions (S8); shared partition / data-area windows have the recorded offset/size terms (L1a, L1r); the construct objects shared by all "
              "volumes keep no allocation table or stream from an earlier parse (I6); the one reader that does start from wherever the shared handle stands - the AKAI partition "
              "scan - runs once, right after the constructor has rewound the handle, and is never re-armed (I2); the export rewinds every data stream before it transcodes it, whatever "
              "was read from it or from its neighbours before (R1)." + NOT +
              "the schedule enumeration; reads performed inside construct on the raw handle."),
    "C12": _p(["P4", "P5", "P6", "R1", "S6"],
              "Decides: zip / parallel indexing only combines lists of one index domain (per stream vs per channel), interprocedurally for the swap flags (P4); byte-order predicates vs "
              "system_byte_order and destination (P4); every stream reads n*frame_size bytes with one common n, blocks trimmed to whole frames of that stream, pass-through uses "
              "buffer_sizes[0], stop conditions, channel-count check (P5); interleave / de-interleave idioms, end-padding, dtype table (P6); every source stream is "
              "rewound with an absolute seek before it is read, so frame 0 of the output is frame 0 of the source (R1)." + NOT + "numerical equality per frame; padding values."),
    "C13": _p(["T1", "T2", "T3", "T4", "T5", "S9", "S5z", "T6"],
              "Decides the termination/boundedness clauses visible in code shape: every `while` loop of the package carries a termination variant checked on every back-edge path of a "
              "hand-built CFG - COUNTER, BOUNDED-RAISE, LEN-CONSUME (with callee summaries), ITERATOR, VISITED-WALK, STREAM-PARSE (record consumption proven positive incl. the adapter's "
              "size>=1 guard), READ-UNTIL-EMPTY, ANCESTOR (T1); no `for` grows its own iterable (T2); every cycle of the resolved call graph is in a confirmed table with its side condition "
              "re-checked (T3); image-controlled counts/sizes are width-bounded or lazy, and the AKAI directory scan ends at the first slot whose end flag cannot be read instead of "
              "skipping it like a bad entry (T4); no regular expression of the package contains an "
              "exponential-backtracking construct - nested unbounded repeats or overlapping alternatives under a repeat - and, except for patterns only ever matched against fixed-width "
              "struct fields, none lets two unbounded repeats share one run of characters before a point of failure (polynomial backtracking; T5, known findings G19a / G19b); a walk of either allocation-table decoder ends at an entry an earlier walk has marked, so that one pass over the table "
              "is linear in its size (T6, known finding G20 for the Roland decoder); a failed block read ends the data iterator with "
              "StopIteration (S9: an empty block instead would be re-requested forever)." + NOT + "complexity constants; loops inside construct/numpy; peak memory.",
              ["sector_length/buffer_length attributes are positive (constructor sites pass positive constants)", "the element parent relation is a tree"]),
    "C14": _p(["I1", "I5", "I4", "L1t", "L4", "L2", "S1", "S2", "L9", "L8r", "I9", "I11", "N12", "O1", "N4i"],
              "Decides: in the AKAI file-table loop the handler re-seeks to entry start + entry size and continues; in lazy file realisation the error path appends nothing and continues; "
              "the four Roland sample references and tolerant lists skip a failing element; Roland records are addressed absolutely (Computed/Pointer/Lazy only) so element i cannot shift "
              "element j (I1, L4); 24-byte file entries / record layouts (L1t, L2); out-of-range start sectors raise the exception the loop swallows (S1, S2); the file table is scanned to the "
              "end of the directory stream (L9); damaged Roland loop points are clamped instead of aborting the export (L8r); every file entry gets a stream object "
              "of its own - stream factories are not memoised (I9). A failure while realising a Roland sample is of a type the record loops swallow (I11); a present-but-empty context value is returned as it is (N12)."
              "" + NOT +
              "damage that still parses (a start sector pointing into another file's chain); equality of the other items' audio."),
    "C15": _p(["S4p", "S9", "T1", "L1w", "I1", "I10", "I13", "I5", "I4", "P5", "S6", "L8c", "D4"],
              "Decides: a short sector read is detected on every returning path of SectorStream._read (S4e) and ends the data stream instead of aborting (S9); partition scan leaves its "
              "loop on the first unparsable header (T1-STREAM-PARSE exits); length prefixes wrap the streamed data (L1w); unreadable files are skipped without stopping the remaining ones "
              "(I1); whole-frame blocks (P5); the last CDDA track runs to the end of the file as it is (L8c). The AKAI file table and the volume body are read through the sector stream inside the handlers that turn a failed read into a skipped entry (I10)."
              "" + NOT + "prefix equality; which files are reported for which cut."),
    "C16": _p(["I2", "I3", "R1", "N2", "N7", "S6", "S8", "N5", "N4", "L8r", "I6", "I7", "I8", "I9", "I12", "I14", "I15"],
              "Decides: accumulating / position-dependent realisers run once under a flag they always set (I2); no write-capable call outside the export path, inputs opened read-only "
              "(I3, N5); data streams are rewound before every export (R1); both actions install both naming routines before traversing, so what an operation sees does not depend on which "
              "ran first (N2); names recomputed from raw names (N7); no read depends on where an earlier operation left the shared cursor (S6, S8); name sanitising is a function of (raw name, "
              "file/directory flag) only (N4); Roland sample realisation derives its window from the stored stream without replacing it (L8r); construct singletons are not written "
              "to after construction (I6); nothing stored on a (memoised) element is a one-shot iterator that the first traversal would use up (I7); "
              "users of memoised child / file lists never change them in place (I8). Lists handed to exported samples and returned by chain walks are fresh per call and never changed in place by another method (I12). "
              "No function of the package changes, returns or stores an object that is the default value of one of its parameters (I15): such an object is shared by all calls and would "
              "carry widths / names / entries from an earlier listing into a later answer."
              "" + NOT +
              "equality across operation histories; effects of context mutation in wrap_child_realization."),
    "C17": _p(["Q1", "Q2", "Q3", "Q4", "T1", "Q5"],
              "Decides: the four line regexes are case-insensitive, tolerate leading blanks, match their keyword and capture the documented groups (Q1); blank lines are judged on the fully "
              "stripped text, the next-track test is exactly the TRACK regex, unknown lines inside a track are recorded and skipped, non-FILE lines before FILE are skipped, no FILE -> "
              "BadCueSheet (Q2); strict ASCII probe with fallback to binary (Q3); mode comparisons via lower() (Q4); the four line-consuming loops terminate (T1-LEN-CONSUME). Whole-file cue text (Q5)."
              "" + NOT +
              "unknown lines between FILE and the first TRACK; equality of resulting images."),
    "C18": _p(["B1", "B2", "B3"],
              "These finite tables and affine pairs ARE the codecs: nine CHAR_MAP entries give two ranges of equal width plus five symbols, 41 pairwise distinct codes in both sets; both "
              "converters offset within the same map entry and map each symbol to the same symbol, rejecting every other byte (B1); note tables compose to the identity on the 12 semitones, "
              "divmod by 12, equal A0 offsets in both directions, text form and regex groups agree (B2); tuning lines are exact inverses over the rationals with only the value 0 "
              "special-cased on both sides (B3)." + NOT + "IEEE rounding of the tuning line at every byte; string-level padding."),
    "C19": _p(["F1", "F2", "F3", "F4", "F5", "F6"],
              "On the token-rewritten .pyx sources: stored state depends on carried state (F1: FIR violates this - known finding G8), reset restores constructor state (F2), flush ends in "
              "reset and feeds delay_offset zeros (F3), every narrowing cast to short is preceded by a two-sided int16 bound in the function or in every caller (F4), IIR windows are loaded "
              "from and saved back to the history arrays after the sample loop (F5); presets in common.py only bind constants and inherit the streaming methods (F6)." + NOT +
              "equality of outputs over splits; output length; numerical behaviour.",
              ["the shipped .so files correspond to the .pyx sources (Cython is absent; they cannot be rebuilt here)"]),
    "C20": _p(["L1i", "L1ri", "L2", "L6", "T4", "L8c", "X1", "S4p", "B3", "B1d", "B2"],
              "Decides where each displayed value is read from and which key it lands in: evaluated layouts of AKAI sample header / loop table / program header / keygroup (symbolic in the "
              "zone count) / velocity zone and Roland sample parameter record incl. mapping tables, enum tables and Computed/If/Seek expressions vs the reviewed reference (L1i, L1ri, L2); "
              "dataclass <- struct field flow, positional constructor mapping, 0 -> 44100 default, active-loop selection over all 8 entries, itemize exclusions (L6); keygroup chain bounded "
              "by a 1-byte count (T4); CDDA track facts (L8c); padded tables (velocity zones) drop exactly the slots their predicate rejects, "
              "at any position (L6); header and keygroup bytes of a file spread over several sectors are read in chain order (S4p); the key numbers of samples, programs and keygroups are "
              "printed through the semitone table of MidiNote, which pairs each of the 12 semitones with its letter and sharp flag and is the inverse of the table used for parsing (B2); "
              "a keygroup is built with the zones that were read also when there are none (L6 keygroup-zones)." + NOT + "rendering (80-column truncation, 300-line cap); float formatting."),
}
