"""Property -> rules mapping, floors, level texts."""
from .rules import termination, streams, decoders, layouts

RULES = {}
FLOORS = {}


def reg(rid, fn, floor=1):
    RULES[rid] = fn
    FLOORS[rid] = floor


reg("T1", termination.rule_T1, 14)
reg("T2", termination.rule_T2, 20)
reg("T3", termination.rule_T3, 4)
reg("T4", termination.rule_T4, 4)

for _i, _f in enumerate(("S1", "S2", "S3", "S4", "S5", "S6", "S7", "S8", "S9"), 1):
    reg(_f, getattr(streams, "rule_" + _f), 2)

for _f in ("D1", "D2", "D3", "D4"):
    reg(_f, getattr(decoders, "rule_" + _f), 2)

reg("L1a", layouts.rule_L1_akai_export, 40)
reg("L1i", layouts.rule_L1_akai_info, 100)
reg("L1r", layouts.rule_L1_roland, 200)
reg("L1ri", layouts.rule_L1_roland_info, 30)
reg("L1w", layouts.rule_L1_wav, 30)
reg("L1c", layouts.rule_L1_containers, 15)
reg("L1t", layouts.rule_L1_tables, 30)
reg("L2", layouts.rule_L2, 20)
reg("L4", layouts.rule_L4, 20)
reg("L5", layouts.rule_L5, 25)

COMMON_ASSUMPTIONS = [
    "static analysis of /repo's source only: the package is never imported or executed by the check",
    "the `construct` and `numpy` libraries behave as documented (Pointer seeks absolutely, Prefixed back-patches its length, Struct parses fields in order)",
    "a discharged obligation is a structural necessary condition of the property; the behaviour itself (byte equality, equality over histories/schedules, numerical results) is NOT established",
]

PROPS = {
    "C08": {
        "rules": ["S5", "S7", "S3", "S4", "S6"],
        "explanation": "tmp",
        "assumptions": COMMON_ASSUMPTIONS,
    },
    "X": {"rules": ["S1", "S2", "S8", "S9"], "explanation": "tmp", "assumptions": []},
    "C20": {"rules": ["L1i", "L1ri", "L2", "T4"], "explanation": "tmp", "assumptions": []},
    "Y": {"rules": ["L1a", "L1r", "L1w", "L1c", "L1t", "L4", "L5"], "explanation": "tmp", "assumptions": []},
    "C07": {"rules": ["S1", "S2", "S3", "T1", "D1", "D2", "D3", "D4"], "explanation": "tmp", "assumptions": []},
    "C13": {
        "rules": ["T1", "T2", "T3", "T4"],
        "explanation": "Decides the termination/boundedness clauses of C13 that are visible in code shape: every `while` loop of the "
                       "package carries a termination variant checked on every back-edge path of a hand-built CFG (T1), no `for` "
                       "grows its own iterable (T2), every cycle of the resolved call graph is in a confirmed table with its side "
                       "condition re-checked (T3), image-controlled counts/sizes are width-bounded or lazy (T4). NOT decided: "
                       "complexity constants, loops inside construct/numpy, peak memory.",
        "assumptions": COMMON_ASSUMPTIONS + ["sector_length/buffer_length attributes are positive (constructor sites pass positive constants)",
                                             "the element parent relation is a tree (elements receive their parent from the container that creates them)"],
    },
}
