#!/usr/bin/env python3
"""Record the function / method names of the pinned tree (sa/reference/functions.json).
The inliner (sa/core/inline.py) folds only helpers that are NOT in this inventory back into their callers.
Regenerate only when /repo is at the reviewed state."""
import ast, json, os, sys
sys.path.insert(0, "/verif")
from sa.core.loader import load_sourceset
out = {}
for path, text in sorted(load_sourceset().items()):
    if path.endswith(".pyx"):
        from sa.core.pyx import decython
        tree = ast.parse(decython(text))
    elif not path.endswith(".py"):
        continue
    else:
        tree = ast.parse(text)
    names = []
    def walk(node, prefix):
        for st in ast.iter_child_nodes(node):
            if isinstance(st, (ast.FunctionDef, ast.AsyncFunctionDef)):
                names.append(prefix + st.name)
                walk(st, prefix + st.name + ".")
            elif isinstance(st, ast.ClassDef):
                names.append(prefix + st.name)
                # class-level attributes (constants, tables, regexes) are part of the pinned inventory too
                for a in st.body:
                    tg = a.targets if isinstance(a, ast.Assign) else ([a.target] if isinstance(a, ast.AnnAssign) else [])
                    for t in tg:
                        if isinstance(t, ast.Name):
                            names.append(prefix + st.name + "." + t.id)
                walk(st, prefix + st.name + ".")
            elif isinstance(st, (ast.If, ast.Try, ast.With, ast.For, ast.While, ast.ExceptHandler)):
                walk(st, prefix)
    walk(tree, "")
    # module-level names bound by assignment
    for a in tree.body:
        tg = a.targets if isinstance(a, ast.Assign) else ([a.target] if isinstance(a, ast.AnnAssign) else [])
        for t in tg:
            if isinstance(t, ast.Name):
                names.append("=" + t.id)
    out[path] = sorted(set(names))
json.dump(out, open("/verif/sa/reference/functions.json", "w"), indent=0, sort_keys=True)
print(sum(len(v) for v in out.values()), "names in", len(out), "files")
