#!/usr/bin/env python3
"""Confirm sub-agent mutants in their scratch worktree and copy the confirmed ones to
/verif/seeded/<id>/.  Usage: harvest_seeds.py C01 C02 ...   (worktrees under /tmp/wt/<prop>)"""
import json
import os
import shutil
import subprocess
import sys

PY = "/venv/bin/python"


def run(cmd, cwd, env=None, timeout=600):
    e = dict(os.environ)
    e.update(env or {})
    p = subprocess.run(cmd, cwd=cwd, env=e, capture_output=True, text=True, timeout=timeout)
    return p.returncode, (p.stdout + p.stderr)


def main(props):
    only = None
    for a in list(props):
        if a.startswith("--only="):
            only = tuple(a.split("=", 1)[1].split(","))
            props = [x for x in props if x != a]
    for prop in props:
        wt = f"/tmp/wt/{prop}"
        for v in only or ("a", "b", "c", "d", "e", "f", "g", "h", "i", "j"):
            sd = f"{wt}/_seed/{v}"
            if not os.path.exists(f"{sd}/patch.diff"):
                continue
            sid = f"{prop}_{v}"
            run(["git", "checkout", "--", "."], wt)
            env = {"PYTHONPATH": wt}
            rc_clean, out_clean = run([PY, f"{sd}/demo.py"], wt, env)
            rc_apply, out_apply = run(["git", "apply", f"{sd}/patch.diff"], wt)
            rc_test, out_test = run([PY, "-m", "pytest", "-q", "-p", "no:cacheprovider"], wt)
            passed = "62 passed" in out_test
            rc_mut, out_mut = run([PY, f"{sd}/demo.py"], wt, env)
            run(["git", "checkout", "--", "."], wt)
            ok = rc_clean == 0 and rc_apply == 0 and passed and rc_mut == 1
            print(f"{sid}: clean_demo={rc_clean} apply={rc_apply} tests_62={passed} mutant_demo={rc_mut} -> {'CONFIRMED' if ok else 'REJECTED'}")
            if not ok:
                print("   ", (out_apply + out_test[-300:] + out_mut[-300:]).replace("\n", "\n    ")[:1200])
                continue
            dst = f"/verif/seeded/{sid}"
            os.makedirs(dst, exist_ok=True)
            shutil.copy(f"{sd}/patch.diff", f"{dst}/patch.diff")
            shutil.copy(f"{sd}/demo.py", f"{dst}/demo.py")
            meta = {}
            try:
                meta = json.load(open(f"{sd}/meta.json"))
            except Exception:
                pass
            meta.update({
                "id": sid,
                "property": prop,
                "confirmed_by": "tools/harvest_seeds.py in the sub-agent's scratch worktree (base = /repo HEAD with the fix: commits)",
                "what_i_ran": [
                    f"clean tree: PYTHONPATH=<wt> {PY} demo.py -> exit {rc_clean}",
                    f"git apply patch.diff -> exit {rc_apply}",
                    f"{PY} -m pytest -q -p no:cacheprovider -> 62 passed: {passed}",
                    f"patched tree: PYTHONPATH=<wt> {PY} demo.py -> exit {rc_mut}",
                    "git checkout -- .",
                ],
                "demo_output_with_change": out_mut[-600:],
            })
            # keep triage fields recorded earlier (retired seeds stay retired)
            try:
                old = json.load(open(f"{dst}/meta.json"))
                for k in ("status", "retired_reason", "caught_by"):
                    if k in old and k not in meta:
                        meta[k] = old[k]
            except Exception:
                pass
            json.dump(meta, open(f"{dst}/meta.json", "w"), indent=1)


if __name__ == "__main__":
    main(sys.argv[1:])
