#!/usr/bin/env python3
"""debug aid: paths (conditions, calls, return term) of one function, on /repo or on a scratch clone with a stored twin/seed applied.
usage: show_paths.py [--twin ID | --seed ID] <module path> <qualname>"""
import os, sys, ast, subprocess, shutil
sys.path.insert(0, '/verif')
args = sys.argv[1:]
scratch = None
if args[0] in ("--twin", "--seed"):
    patch = f"/verif/{'twins' if args[0]=='--twin' else 'seeded'}/{args[1]}/patch.diff"
    args = args[2:]
    scratch = f"/tmp/vsp_{os.getpid()}"
    subprocess.run(["git", "clone", "-q", "/repo", scratch], check=True)
    subprocess.run(["git", "-C", scratch, "apply", "--whitespace=nowarn", patch], check=True)
    os.environ["VERIF_REPO"] = scratch
try:
    from sa.core.loader import load_sourceset
    from sa.core.report import Ctx
    from sa.core.symexec import run_paths, calls_on
    from sa.rules.util import evaluator
    ctx = Ctx(load_sourceset())
    path, q = args[0], args[1]
    fn = ctx.fn(path, q, "x")
    print(ast.unparse(fn))
    for p in run_paths(ctx, fn, rule="x", include_exc="--exc" in args, limit=5000):
        print("PATH end=", p.end, "raised=", p.raised, "ret=", p.ret.key() if p.ret is not None else None)
        print("   conds:", [(c, t) for c, t, _ in p.conds])
        print("   calls:", [ast.unparse(c.func) + "(" + ",".join(evaluator(ctx, fn, e).ev(a).key() for a in c.args) + ")" for c, e, s in calls_on(p)])
finally:
    if scratch:
        shutil.rmtree(scratch, ignore_errors=True)
