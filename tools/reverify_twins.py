#!/usr/bin/env python3
"""Re-confirm every /verif/twins/<id> (or /verif/seeded/<id> with --seeds) against /repo's current HEAD in scratch clones
under /tmp/vtr (outside /repo and /verif; removed afterwards), in parallel:
twin: demo exits 0 on the clean tree, patch applies, the 62 tests pass with it, demo exits 0 with it;
seed: demo exits 0 on the clean tree, patch applies, tests pass, demo exits 1 with it.
usage: reverify_twins.py [--seeds] [--jobs=N] [ids or property ids ...]"""
import json, os, shutil, subprocess, sys
from concurrent.futures import ThreadPoolExecutor
PY = "/venv/bin/python"
POOL = "/tmp/vtr"


def run(cmd, cwd, env=None, timeout=1800):
    e = dict(os.environ)
    e.update(env or {})
    try:
        p = subprocess.run(cmd, cwd=cwd, env=e, capture_output=True, text=True, timeout=timeout)
    except subprocess.TimeoutExpired:
        return 124, "timeout"
    return p.returncode, p.stdout + p.stderr


def one(args):
    kind, vid = args
    sd = f"/verif/{'seeded' if kind == 'seed' else 'twins'}/{vid}"
    d = f"{POOL}/{vid}"
    shutil.rmtree(d, ignore_errors=True)
    rc, out = run(["git", "clone", "-q", "--no-hardlinks", "/repo", d], "/tmp")
    if rc != 0:
        return vid, False, "clone failed"
    try:
        for f in os.listdir("/repo/smpl_extract/filters"):
            if f.endswith(".so"):
                shutil.copy(f"/repo/smpl_extract/filters/{f}", f"{d}/smpl_extract/filters/{f}")
        env = {"PYTHONPATH": d, "PYTHONDONTWRITEBYTECODE": "1"}
        rc0, o0 = run([PY, f"{sd}/demo.py"], d, env)
        rca, oa = run(["git", "apply", f"{sd}/patch.diff"], d)
        rct, ot = run([PY, "-m", "pytest", "-q", "-p", "no:cacheprovider"], d, env)
        rc1, o1 = run([PY, f"{sd}/demo.py"], d, env)
        want1 = 1 if kind == "seed" else 0
        ok = rc0 == 0 and rca == 0 and "62 passed" in ot and rc1 == want1
        return vid, ok, f"clean={rc0} apply={rca} tests={'62 passed' in ot} changed={rc1}" + ("" if ok else "\n     " + (oa + o0[-300:] + o1[-300:])[:700].replace("\n", "\n     "))
    finally:
        shutil.rmtree(d, ignore_errors=True)


def main(argv):
    seeds = "--seeds" in argv
    jobs = next((int(a.split("=")[1]) for a in argv if a.startswith("--jobs=")), 12)
    sel = [a for a in argv if not a.startswith("--")]
    root = "/verif/seeded" if seeds else "/verif/twins"
    ids = sorted(d for d in os.listdir(root) if os.path.isdir(f"{root}/{d}") and (not sel or d in sel or d.split("_")[0] in sel))
    os.makedirs(POOL, exist_ok=True)
    bad = []
    with ThreadPoolExecutor(max_workers=jobs) as ex:
        for vid, ok, msg in ex.map(one, [("seed" if seeds else "twin", i) for i in ids]):
            print(f"{vid}: {'OK' if ok else 'STALE'} {msg}", flush=True)
            if not ok:
                bad.append(vid)
    shutil.rmtree(POOL, ignore_errors=True)
    print(f"{len(ids)} checked, stale: {bad}")


if __name__ == "__main__":
    main(sys.argv[1:])
