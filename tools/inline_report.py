#!/usr/bin/env python3
"""for each stored twin: new helpers (not in the function inventory) that still have same-module call sites after normalisation"""
import sys, ast, os, json
sys.path.insert(0, '/verif')
from sa.core.loader import load_sourceset, Program
from sa.core.inline import inventory
from sa.selftest import patches
base = load_sourceset()
inv = inventory()
sel = sys.argv[1:]
for vid, prop, text, meta in patches.stored("twins"):
    if sel and vid not in sel and prop not in sel:
        continue
    src = patches.apply(base, text)
    if src is None:
        print(vid, "patch does not apply"); continue
    try:
        pr = Program(src)
    except Exception as e:
        print(vid, "ERROR", e); continue
    left = []
    for path, m in pr.by_path.items():
        known = inv.get(path, set())
        new = [q for q in m.functions if q not in known and "." not in q.replace(".", "", 1) ]
        new = [q for q in m.functions if q not in known]
        for q in new:
            name = q.split(".")[-1]
            calls = 0
            for q2, f2 in m.functions.items():
                if q2 == q: continue
                for n in ast.walk(f2):
                    if isinstance(n, ast.Call) and ((isinstance(n.func, ast.Name) and n.func.id == name) or (isinstance(n.func, ast.Attribute) and n.func.attr == name)):
                        calls += 1
            for n in m.tree.body:
                if not isinstance(n, (ast.FunctionDef, ast.ClassDef)):
                    for x in ast.walk(n):
                        if isinstance(x, ast.Name) and x.id == name and not isinstance(x.ctx, ast.Store):
                            calls += 1
            if calls:
                left.append(f"{path}:{q} ({calls} uses left)")
    if left:
        print(vid, "; ".join(left))
