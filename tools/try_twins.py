#!/usr/bin/env python3
"""Apply each behaviour-preserving twin to a scratch clone of /repo and run ALL quick checks.  Any exit != 0 is a false alarm.
usage: try_twins.py [twin ids or property ids ...]"""
import os, sys
sys.path.insert(0, "/verif/tools"); sys.path.insert(0, "/verif")
from _variants import ROOT, run_all
from sa import props as P
claimed = sorted(P.PROPS)
sel = [a for a in sys.argv[1:] if not a.startswith("--")]
twins = sorted(d for d in os.listdir(f"{ROOT}/twins") if os.path.isdir(f"{ROOT}/twins/{d}"))
if sel:
    twins = [t for t in twins if t in sel or t.split("_")[0] in sel]
bad = 0
for vid, res, err in run_all([("twin", t, f"{ROOT}/twins/{t}/patch.diff", claimed) for t in twins]):
    if err:
        print(f"{vid}: {err}"); bad += 1; continue
    alarms = [(pid, rc, [l for l in out.splitlines() if l.startswith(("  ", "ANALYSIS-ERROR"))][:3]) for pid, (rc, out) in res.items() if rc != 0]
    print(f"{vid}: {'SILENT' if not alarms else 'ALARM'}")
    bad += bool(alarms)
    for pid, rc, lines in alarms:
        for l in lines:
            print(f"     {pid} rc={rc} {l[:300]}")
print(f"{len(twins)} twins, {bad} with alarms")
