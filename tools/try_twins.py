#!/usr/bin/env python3
"""Apply each behaviour-preserving twin to /repo, run ALL quick checks, undo.  Any exit != 0 is a false alarm."""
import os, subprocess, sys
ROOT = "/verif"
sys.path.insert(0, ROOT)
def sh(cmd, cwd=None):
    p = subprocess.run(cmd, cwd=cwd, capture_output=True, text=True)
    return p.returncode, p.stdout + p.stderr
from sa import props as P
claimed = sorted(P.PROPS)
sel = [a for a in sys.argv[1:] if not a.startswith("--")]
twins = sorted(d for d in os.listdir(f"{ROOT}/twins") if os.path.isdir(f"{ROOT}/twins/{d}"))
if sel:
    twins = [t for t in twins if t in sel or t.split("_")[0] in sel]
rc, out = sh(["git", "status", "--porcelain", "--untracked-files=no"], "/repo")
assert not out.strip(), "repo dirty"
for t in twins:
    rc, out = sh(["git", "apply", f"{ROOT}/twins/{t}/patch.diff"], "/repo")
    if rc != 0:
        print(f"{t}: patch does not apply"); sh(["git", "checkout", "--", "."], "/repo"); continue
    alarms = []
    try:
        for pid in claimed:
            rc, out = sh([f"{ROOT}/check", pid, "quick"], ROOT)
            if rc != 0:
                lines = [l for l in out.splitlines() if l.startswith(("  ", "ANALYSIS-ERROR"))]
                alarms.append((pid, rc, lines[:3]))
    finally:
        sh(["git", "checkout", "--", "."], "/repo")
    print(f"{t}: {'SILENT' if not alarms else 'ALARM'}")
    for pid, rc, lines in alarms:
        for l in lines:
            print(f"     {pid} rc={rc} {l[:300]}")
rc, out = sh(["git", "status", "--porcelain", "--untracked-files=no"], "/repo")
assert not out.strip(), "repo left dirty!"
