#!/usr/bin/env python3
"""Apply each seeded mutant to /repo, run the registered checks, undo.  Prints a matrix.
usage: try_seeds.py [--all-props] [--verbose] [seed ids or property ids ...]"""
import json
import os
import subprocess
import sys

ROOT = "/verif"
sys.path.insert(0, ROOT)


def sh(cmd, cwd=None):
    p = subprocess.run(cmd, cwd=cwd, capture_output=True, text=True)
    return p.returncode, p.stdout + p.stderr


def main(argv):
    all_props = "--all-props" in argv
    verbose = "--verbose" in argv
    sel = [a for a in argv if not a.startswith("--")]
    from sa import props as P
    claimed = [p for p in sorted(P.PROPS) if p.startswith("C")]
    seeds = sorted(d for d in os.listdir(f"{ROOT}/seeded") if os.path.isdir(f"{ROOT}/seeded/{d}"))
    if sel:
        seeds = [s for s in seeds if any(s == x or s.startswith(x + "_") or s.split("_")[0] == x for x in sel)]
    sys.path.insert(0, "/verif/tools")
    from _variants import run_all
    tasks = []
    for s in seeds:
        prop = s.split("_")[0]
        targets = claimed if all_props else ([prop] if prop in claimed else [])
        tasks.append(("seed", s, f"{ROOT}/seeded/{s}/patch.diff", targets))
    results = {}
    for s, res, err in run_all(tasks):
        prop = s.split("_")[0]
        if err:
            print(f"{s}: {err}")
            continue
        hits = {t: (rc, [l for l in out.splitlines() if l.startswith("VIOLATION") or l.startswith("  ")], out) for t, (rc, out) in res.items()}
        results[s] = hits
        own = hits.get(prop)
        retired = False
        try:
            retired = json.load(open(f"{ROOT}/seeded/{s}/meta.json")).get("status") == "retired"
        except Exception:
            pass
        try:
            if json.load(open(f"{ROOT}/seeded/{s}/meta.json")).get("status") == "superseded":
                print(f"{s}: SUPERSEDED (a later fix made the change harmless for its own property; own check rc={own[0] if own else '-'}; not replayed, see meta.json)")
                continue
        except Exception:
            pass
        if retired:
            st = "SILENT (retired seed: property holds at HEAD)" if (own and own[0] == 0) else f"FALSE-ALARM on retired seed rc={own[0] if own else '-'}"
            print(f"{s}: {st}")
            continue
        caught_by = [t for t, (rc, v, o) in hits.items() if rc == 1]
        err_by = [t for t, (rc, v, o) in hits.items() if rc == 2]
        status = "CAUGHT" if (own and own[0] == 1) else ("caught-by-other" if caught_by else ("ANALYSIS-ERROR" if err_by else ("MISSED" if own else "no-check")))
        print(f"{s}: {status}  own={own[0] if own else '-'} caught_by={caught_by} errors={err_by}")
        if verbose or status in ("ANALYSIS-ERROR",):
            for t, (rc, v, o) in hits.items():
                if rc != 0:
                    for l in (v if rc == 1 else o.splitlines())[:6]:
                        print("      ", t, l[:260])
    return 0


if __name__ == "__main__":
    sys.exit(main(sys.argv[1:]))
