#!/usr/bin/env python3
"""Apply each seeded mutant to /repo, run the registered checks, undo.  Prints a matrix.
usage: try_seeds.py [--all-props] [--verbose] [seed ids or property ids ...]"""
import json
import os
import subprocess
import sys

ROOT = "/verif"
sys.path.insert(0, ROOT)


def sh(cmd, cwd=None):
    p = subprocess.run(cmd, cwd=cwd, capture_output=True, text=True)
    return p.returncode, p.stdout + p.stderr


def main(argv):
    all_props = "--all-props" in argv
    verbose = "--verbose" in argv
    sel = [a for a in argv if not a.startswith("--")]
    from sa import props as P
    claimed = [p for p in sorted(P.PROPS) if p.startswith("C")]
    seeds = sorted(d for d in os.listdir(f"{ROOT}/seeded") if os.path.isdir(f"{ROOT}/seeded/{d}"))
    if sel:
        seeds = [s for s in seeds if any(s == x or s.startswith(x + "_") or s.split("_")[0] == x for x in sel)]
    rc, out = sh(["git", "status", "--porcelain", "--untracked-files=no"], "/repo")
    if out.strip():
        print("refusing: /repo has local modifications:\n" + out)
        return 2
    results = {}
    for s in seeds:
        prop = s.split("_")[0]
        rc, out = sh(["git", "apply", f"{ROOT}/seeded/{s}/patch.diff"], "/repo")
        if rc != 0:
            print(f"{s}: patch does not apply: {out[:200]}")
            sh(["git", "checkout", "--", "."], "/repo")
            continue
        try:
            targets = claimed if all_props else ([prop] if prop in claimed else [])
            hits = {}
            for t in targets:
                rc, out = sh([f"{ROOT}/check", t, "quick"], ROOT)
                viol = [l for l in out.splitlines() if l.startswith("VIOLATION") or l.startswith("  ")]
                hits[t] = (rc, viol, out)
            results[s] = hits
        finally:
            sh(["git", "checkout", "--", "."], "/repo")
        own = hits.get(prop)
        retired = False
        try:
            retired = json.load(open(f"{ROOT}/seeded/{s}/meta.json")).get("status") == "retired"
        except Exception:
            pass
        if retired:
            st = "SILENT (retired seed: property holds at HEAD)" if (own and own[0] == 0) else f"FALSE-ALARM on retired seed rc={own[0] if own else '-'}"
            print(f"{s}: {st}")
            continue
        caught_by = [t for t, (rc, v, o) in hits.items() if rc == 1]
        err_by = [t for t, (rc, v, o) in hits.items() if rc == 2]
        status = "CAUGHT" if (own and own[0] == 1) else ("caught-by-other" if caught_by else ("ANALYSIS-ERROR" if err_by else ("MISSED" if own else "no-check")))
        print(f"{s}: {status}  own={own[0] if own else '-'} caught_by={caught_by} errors={err_by}")
        if verbose or status in ("ANALYSIS-ERROR",):
            for t, (rc, v, o) in hits.items():
                if rc != 0:
                    for l in (v if rc == 1 else o.splitlines())[:6]:
                        print("      ", t, l[:260])
    rc, out = sh(["git", "status", "--porcelain", "--untracked-files=no"], "/repo")
    assert not out.strip(), "repo left dirty!"
    return 0


if __name__ == "__main__":
    sys.exit(main(sys.argv[1:]))
