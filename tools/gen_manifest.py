#!/usr/bin/env python3
"""Write MANIFEST.json from sa/props.py (claims) - run after changing the property specs."""
import json, os, sys
ROOT = os.path.dirname(os.path.dirname(os.path.abspath(__file__)))
sys.path.insert(0, ROOT)
from sa import props

TECH = {
    "C01": "AST layout evaluation of construct structs + E-AFF window terms + CFG path rules on chain walk / sector split / SAT decoder exits",
    "C02": "affine Pointer-address terms and area geometry, loop-mode window terms, FAT decoder CFG exit classification, construct layout evaluation",
    "C03": "E-AFF terms for MSF polynomial and per-track windows (tiling identity), iterator-variant termination, regex AST checks",
    "C04": "construct layout evaluation (Prefixed/Rebuild terms), CFG order of chunk appends, dataflow of fmt values, write-site check",
    "C05": "per-iteration CFG path rules on the pairing loop, key-domain typing of dict subscripts, regex-AST case analysis (L|R), idiom checks",
    "C06": "abstract string domain over regex ASTs (alphabet / first / last / emptiness) along symbolic paths, who-applies-routines and who-may-open rules",
    "C07": "loop-variant termination checker on a hand-built CFG, chain-walk shape rules, decoder exit classification (install / malformed-atom justification)",
    "C08": "per-path abstract evaluation (E-AFF) of read/seek/translate methods, dominance of re-sync before raw reads, split-accounting rules",
    "C09": "call-order and argument rules on the detection cascade, probe/restore path rule over exception edges, layout and geometry terms",
    "C10": "same-attribute/same-normaliser rule for display vs lookup, exception-coverage rule, regex AST (tokeniser), abstract string domain",
    "C11": "must-pass-through (dominance) of cursor re-establishment before every underlying read, who-may-call rule for raw readers",
    "C12": "index-domain typing (per-stream vs per-channel) of zipped lists incl. interprocedural flag list, block-size dataflow, idiom checks",
    "C13": "termination checker: eight loop-variant schemas on every back-edge path, for-stability, call-graph cycle table, width-bounded counts",
    "C14": "error-path CFG rules (re-seek target term, no-append on handler path), sequential-footprint rule on record structs, layout evaluation",
    "C15": "dominance of the length check before returns, handler-coverage rule for short reads, error-path continuation rule",
    "C16": "once-guard/flag dataflow, who-may-write rule, rewind-before-export rule, routine-installation rule for both actions",
    "C17": "regex AST properties (flags, prefix, keyword, groups), LEN-CONSUME termination with callee summaries, dataflow of the emptiness test",
    "C18": "finite-table evaluation of the codec literals (composition = identity, disjointness), per-path E-AFF terms of the converters, exact rational inverse of the tuning lines",
    "C19": "token-rewritten Cython sources parsed with ast: state data-dependence, init=reset structural equality, bound-before-narrowing path rule, who-overrides rule on presets",
    "C20": "AST layout evaluation of every displayed struct incl. mapping/enum tables and Computed/If/Seek expression terms vs reviewed reference, dataclass field-flow rules",
}
checks = []
for pid in sorted(props.PROPS):
    spec = props.PROPS[pid]
    checks.append({
        "property_id": pid,
        "quick_cmd": f"./check {pid} quick",
        "thorough_cmd": f"./check {pid} thorough",
        "evidence_file": f"evidence/{pid}.json",
        "replay_cmd_template": f"./check {pid} quick   # static finding; the replay file {{path}} names rule, construct and path",
        "engine": "sa",
        "level_claimed": {"category": "other",
                          "text": "Static discharge of structural necessary conditions on every path of the anchored code (rules " + ", ".join(spec["rules"]) + "). " + spec["explanation"],
                          "design_ref": "DESIGN.md section 5 (" + pid + ") and section 4 (rule catalogue)"},
        "level_note": "; ".join(spec["assumptions"]),
        "technique": "static analysis: " + TECH[pid],
    })
m = {
    "version": 1,
    "setup_cmd": "true",
    "hooks": {"guard": "(unused)", "enable": "none: static analysis reads /repo's source; no hooks exist in /repo",
              "baseline_off_cmd": "cd /repo && /venv/bin/python -m pytest -ra -q -p no:cacheprovider --timeout=900 --continue-on-collection-errors",
              "source_commits": [], "add_only": True},
    "engines": [{"name": "sa", "path": "sa/", "serves_properties": sorted(props.PROPS),
                 "kind_free_text": "repository-specific static analyser, stdlib only: Python ast, hand-built statement CFG with dominators and bounded path enumeration, "
                                   "per-path abstract evaluation over rational polynomial terms (E-AFF), construct-DSL layout evaluator (E-LAY), regex-AST string domain (E-RX), "
                                   "Cython token rewriter; in-memory mutant/twin self-test in the thorough tier"}],
    "checks": checks,
    "notes": "Family: static analysis only. Every check parses /repo's working tree on each run and never imports or executes smpl_extract. Exit 0 = all obligations discharged "
             "(known findings printed as KNOWN-FINDING), 1 = unlisted finding (VIOLATION lines), 2 = analysis broken (ANALYSIS-ERROR). All claims are level `other`: structural necessary "
             "conditions; the behavioural core of every property (byte equality, equality over histories/schedules) is not established - see DESIGN.md sections 5 and 6. "
             "Repairs of genuine defects are the seven `fix:` commits in /repo (G1-G6, G10); G7 and G8 are recorded in known_findings.json.",
    "not_applicable": [],
}
json.dump(m, open(os.path.join(ROOT, "MANIFEST.json"), "w"), indent=1)
print("checks:", len(checks))
