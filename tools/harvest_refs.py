#!/usr/bin/env python3
"""Confirm sub-agent refactorings (behaviour-preserving twins) and copy them to /verif/twins/<id>/.
usage: harvest_refs.py [--only=r9,r10,r11,r12] R01b R02b ..."""
import json, os, shutil, subprocess, sys
PY = "/venv/bin/python"
def run(cmd, cwd, env=None, timeout=900):
    e = dict(os.environ); e.update(env or {})
    p = subprocess.run(cmd, cwd=cwd, env=e, capture_output=True, text=True, timeout=timeout)
    return p.returncode, p.stdout + p.stderr
ONLY = None
for a in sys.argv[1:]:
    if a.startswith("--only="):
        ONLY = a[len("--only="):].split(",")
for rid in [a for a in sys.argv[1:] if not a.startswith("--")]:
    wt = f"/tmp/wt/{rid}"
    rid = rid.rstrip("b")
    for v in ONLY or ["r%d" % k for k in range(1, 13)]:
        sd = f"{wt}/_ref/{v}"
        if not os.path.exists(f"{sd}/patch.diff"):
            continue
        tid = f"C{rid[1:]}_{v}"
        run(["git", "checkout", "--", "."], wt)
        env = {"PYTHONPATH": wt}
        rc0, o0 = run([PY, f"{sd}/demo.py"], wt, env)
        rca, oa = run(["git", "apply", f"{sd}/patch.diff"], wt)
        rct, ot = run([PY, "-m", "pytest", "-q", "-p", "no:cacheprovider"], wt)
        rc1, o1 = run([PY, f"{sd}/demo.py"], wt, env)
        run(["git", "checkout", "--", "."], wt)
        ok = rc0 == 0 and rca == 0 and "62 passed" in ot and rc1 == 0
        print(f"{tid}: clean_demo={rc0} apply={rca} tests_62={'62 passed' in ot} refactored_demo={rc1} -> {'CONFIRMED' if ok else 'REJECTED'}")
        if not ok:
            print("    ", (oa + ot[-200:] + o1[-300:])[:700].replace("\n", "\n     "))
            continue
        dst = f"/verif/twins/{tid}"
        os.makedirs(dst, exist_ok=True)
        shutil.copy(f"{sd}/patch.diff", f"{dst}/patch.diff")
        shutil.copy(f"{sd}/demo.py", f"{dst}/demo.py")
        try:
            meta = json.load(open(f"{sd}/meta.json"))
        except Exception:
            meta = {}
        meta.update({"id": tid, "property": "C" + rid[1:], "confirmed": {"clean_demo": rc0, "apply": rca, "tests_62": True, "refactored_demo": rc1}})
        json.dump(meta, open(f"{dst}/meta.json", "w"), indent=1)
