#!/usr/bin/env python3
"""Run the self-test matrix for all (or given) properties and print non-passing variants."""
import sys, os
sys.path.insert(0, os.path.dirname(os.path.dirname(os.path.abspath(__file__))))
from sa.core.loader import load_sourceset
from sa.selftest import matrix
from sa import props
src = load_sourceset()
sel = sys.argv[1:] or sorted(p for p in props.PROPS)
for pid in sel:
    r = matrix.run(pid, src)
    print(pid, {k: v for k, v in r.items() if k not in ("details", "errors")})
    for d in r.get("details", []):
        if not (" flagged " in d + " " or d.endswith("silent ") or " silent" in d) or "flagged-other" in d or "skipped" in d:
            print("    ", d)
    for e in r.get("errors", []):
        print("   ERR", e)
