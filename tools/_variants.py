"""shared by try_twins.py / try_seeds.py: run the quick checks on scratch clones of /repo with one patch applied, in parallel.
Scratch clones live under /tmp/vtp and are removed afterwards; /repo itself is never modified; evidence/ is not written."""
import os, shutil, subprocess, sys
from concurrent.futures import ThreadPoolExecutor
ROOT = "/verif"
POOL = "/tmp/vtp"


def sh(cmd, cwd=None, env=None):
    e = dict(os.environ)
    e.update(env or {})
    p = subprocess.run(cmd, cwd=cwd, capture_output=True, text=True, env=e)
    return p.returncode, p.stdout + p.stderr


def run_variant(args):
    kind, vid, patch, props = args
    d = f"{POOL}/{vid}"
    shutil.rmtree(d, ignore_errors=True)
    os.makedirs(POOL, exist_ok=True)
    rc, out = sh(["git", "clone", "-q", "--no-hardlinks", "/repo", d])
    if rc != 0:
        return vid, None, f"clone failed: {out[:200]}"
    try:
        rc, out = sh(["git", "apply", patch], d)
        if rc != 0:
            return vid, None, f"patch does not apply: {out[:200]}"
        res = {}
        for pid in props:
            rc, out = sh([f"{ROOT}/check", pid, "quick"], ROOT, {"VERIF_REPO": d, "VERIF_NO_EVIDENCE": "1"})
            res[pid] = (rc, out)
        return vid, res, None
    finally:
        shutil.rmtree(d, ignore_errors=True)


def run_all(tasks, jobs=14):
    rc, out = sh(["git", "status", "--porcelain", "--untracked-files=no"], "/repo")
    assert not out.strip(), "/repo has local modifications (variants are cloned from HEAD)"
    with ThreadPoolExecutor(max_workers=jobs) as ex:
        results = list(ex.map(run_variant, tasks))
    shutil.rmtree(POOL, ignore_errors=True)
    return results
