#!/usr/bin/env python3
"""show the normalised (inlined) form of functions: show_norm.py <path> <qualname> [...] ; with --twin <id> applies a stored twin first"""
import sys, ast, subprocess
sys.path.insert(0, '/verif')
args = sys.argv[1:]
patch = None
if args[0] in ("--twin", "--seed"):
    patch = f"/verif/{'twins' if args[0]=='--twin' else 'seeded'}/{args[1]}/patch.diff"
    args = args[2:]
    subprocess.run(["git", "-C", "/repo", "apply", patch], check=True)
try:
    from sa.core.loader import load_sourceset, Program
    pr = Program(load_sourceset())
    print("inlined:", pr.inlined)
    m = pr.by_path[args[0]]
    for q in args[1:]:
        print(ast.unparse(m.functions[q]))
finally:
    if patch:
        subprocess.run(["git", "-C", "/repo", "checkout", "--", "."], check=True)
