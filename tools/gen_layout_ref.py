#!/usr/bin/env python3
"""Regenerate sa/reference/layouts.json from /repo's current tree.  Run by hand ONLY after the
layouts were reviewed against the independent descriptions (ksy, RIFF spec, published S1000 notes);
the checks never write this file."""
import json
import os
import sys

sys.path.insert(0, os.path.dirname(os.path.dirname(os.path.abspath(__file__))))
from sa.core.loader import load_sourceset
from sa.core.report import Ctx
from sa.core.layout import Layouts, Describer
from sa.rules.layouts import STRUCTS

ctx = Ctx(load_sourceset())
L = Layouts(ctx)
D = Describer(L)
out = {}
for group, items in STRUCTS.items():
    for path, name in items:
        key = f"{path}:{name}"
        if key in out:
            continue
        lay = L.of_path(path, name)
        out[key] = {"size": D._sz(lay.size), "rows": D.rows(lay)}
json.dump(out, open(os.path.join(os.path.dirname(__file__), "..", "sa", "reference", "layouts.json"), "w"), indent=0, sort_keys=True)
print(sum(len(v["rows"]) for v in out.values()), "rows in", len(out), "structs")
