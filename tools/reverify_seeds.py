#!/usr/bin/env python3
"""Re-confirm every /verif/seeded/<id> against /repo's current HEAD in a scratch worktree
(outside /repo and /verif), then remove the worktree."""
import json, os, shutil, subprocess, sys
PY = "/venv/bin/python"
WT = "/tmp/wt/_reverify"

def run(cmd, cwd, env=None, timeout=900):
    e = dict(os.environ); e.update(env or {})
    p = subprocess.run(cmd, cwd=cwd, env=e, capture_output=True, text=True, timeout=timeout)
    return p.returncode, p.stdout + p.stderr

def main(sel):
    run(["git", "worktree", "remove", "--force", WT], "/repo")
    rc, out = run(["git", "worktree", "add", "-q", "--detach", WT, "HEAD"], "/repo")
    assert rc == 0, out
    for f in os.listdir("/repo/smpl_extract/filters"):
        if f.endswith(".so"):
            shutil.copy(f"/repo/smpl_extract/filters/{f}", f"{WT}/smpl_extract/filters/{f}")
    head = run(["git", "rev-parse", "--short", "HEAD"], "/repo")[1].strip()
    bad = []
    try:
        for sid in sorted(os.listdir("/verif/seeded")):
            sd = f"/verif/seeded/{sid}"
            if not os.path.isdir(sd) or (sel and sid not in sel and sid.split("_")[0] not in sel):
                continue
            env = {"PYTHONPATH": WT}
            run(["git", "checkout", "--", "."], WT)
            rc0, o0 = run([PY, f"{sd}/demo.py"], WT, env)
            rca, oa = run(["git", "apply", f"{sd}/patch.diff"], WT)
            rct, ot = run([PY, "-m", "pytest", "-q", "-p", "no:cacheprovider"], WT)
            rc1, o1 = run([PY, f"{sd}/demo.py"], WT, env)
            run(["git", "checkout", "--", "."], WT)
            ok = rc0 == 0 and rca == 0 and "62 passed" in ot and rc1 == 1
            print(f"{sid}: clean={rc0} apply={rca} tests={'62 passed' in ot} mutant={rc1} -> {'OK' if ok else 'STALE'}")
            meta = json.load(open(f"{sd}/meta.json"))
            meta["reverified"] = {"repo_head": head, "clean_demo": rc0, "apply": rca, "tests_62": "62 passed" in ot, "mutant_demo": rc1, "ok": ok}
            json.dump(meta, open(f"{sd}/meta.json", "w"), indent=1)
            if not ok:
                bad.append(sid)
                print("    ", (oa + o0[-300:] + o1[-300:])[:800].replace("\n", "\n     "))
    finally:
        run(["git", "worktree", "remove", "--force", WT], "/repo")
    print("stale:", bad)

if __name__ == "__main__":
    main(sys.argv[1:])
